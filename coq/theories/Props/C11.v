(* Props/C11.v — property theorems only.  C11: the combined g-function is well formed and interpolation-consistent. *)
From Coq Require Import ZArith QArith List.
From GHE Require Import Base.QUtil gen.Src Model.GJoin Proof.GJoinP.
Import ListNotations.
Open Scope Q_scope.

(* strictly increasing axes, no short-time point equal to the first long-time point: the joined axis is strictly increasing,
   consists of the short-time points strictly below the first long-time point followed by the whole long-time curve *)
Theorem C11_combine_axis : forall t_lts g_lts t_sts g_sts, strictly_increasing t_lts -> strictly_increasing t_sts -> t_lts <> [] ->
  (forall y, In y t_sts -> ~ y == hd 0 t_lts) ->
  let r := combine_spec t_lts g_lts t_sts g_sts in
  strictly_increasing (fst r) /\
  (forall y, In y (firstn (count_le (hd 0 t_lts) t_sts) t_sts) -> y < hd 0 t_lts) /\
  fst r = firstn (count_le (hd 0 t_lts) t_sts) t_sts ++ t_lts /\ snd r = firstn (count_le (hd 0 t_lts) t_sts) g_sts ++ g_lts.
Proof. exact combine_axis. Qed.
Print Assumptions C11_combine_axis.

(* radius correction REGENERATED from gfunction.py, with ln abstract: identity for equal radii, additive in ln(radius ratio) *)
Theorem C11_correction_identity : forall g rb ln_, ~ rb == 0 -> (forall x, x == 1 -> ln_ x == 0) ->
  Forall2 Qeq (borehole_radius_correction g rb rb ln_) g.
Proof. exact correction_identity. Qed.
Print Assumptions C11_correction_identity.
Theorem C11_correction_additive : forall g r0 r1 r2 ln_, (ln_ (qdiv r1 r0) + ln_ (qdiv r2 r1) == ln_ (qdiv r2 r0)) ->
  Forall2 Qeq (borehole_radius_correction (borehole_radius_correction g r0 r1 ln_) r1 r2 ln_) (borehole_radius_correction g r0 r2 ln_).
Proof. exact correction_additive. Qed.
Print Assumptions C11_correction_additive.

(* the equivalent height computed for B/H of a stored height H is H itself (expression regenerated from g_function_interpolation) *)
Theorem C11_h_eq_at_stored_height : forall B H, ~ B == 0 -> ~ H == 0 -> h_eq_of (B / H) B == H.
Proof. exact h_eq_at_stored_height. Qed.
Print Assumptions C11_h_eq_at_stored_height.

(* the regenerated combine_sts_lts on a case with a short-time point EQUAL to the first long-time point (float coincidence):
   the point is kept and the abscissa is duplicated — outside the hypothesis of C11_combine_axis *)
Example C11_equal_point_duplicates :
  combine_sts_lts [-17 # 2; -39 # 5] [1; 2] [-12; -10; -17 # 2; -8] [1 # 10; 1 # 5; 3 # 10; 2 # 5]
  = Ok ([-12; -10; -17 # 2; -17 # 2; -39 # 5], [1 # 10; 1 # 5; 3 # 10; 1; 2]).
Proof. vm_compute. reflexivity. Qed.
