(* Props/C11.v — property theorems only.  C11: the combined g-function is well formed and interpolation-consistent. *)
From Coq Require Import ZArith QArith List.
From Coq Require Import String Qabs.
From GHE Require Import Base.QUtil gen.Src Model.GJoin Proof.GJoinP Model.GfPlan Proof.GfPlanP.
Import ListNotations.
Open Scope Q_scope.

(* strictly increasing axes, no short-time point equal to the first long-time point: the joined axis is strictly increasing,
   consists of the short-time points strictly below the first long-time point followed by the whole long-time curve *)
Theorem C11_combine_axis : forall t_lts g_lts t_sts g_sts, strictly_increasing t_lts -> strictly_increasing t_sts -> t_lts <> [] ->
  (forall y, In y t_sts -> ~ y == hd 0 t_lts) ->
  let r := combine_spec t_lts g_lts t_sts g_sts in
  strictly_increasing (fst r) /\
  (forall y, In y (firstn (count_le (hd 0 t_lts) t_sts) t_sts) -> y < hd 0 t_lts) /\
  fst r = firstn (count_le (hd 0 t_lts) t_sts) t_sts ++ t_lts /\ snd r = firstn (count_le (hd 0 t_lts) t_sts) g_sts ++ g_lts.
Proof. exact combine_axis. Qed.
Print Assumptions C11_combine_axis.

(* radius correction REGENERATED from gfunction.py, with ln abstract: identity for equal radii, additive in ln(radius ratio) *)
Theorem C11_correction_identity : forall g rb ln_, ~ rb == 0 -> (forall x, x == 1 -> ln_ x == 0) ->
  Forall2 Qeq (borehole_radius_correction g rb rb ln_) g.
Proof. exact correction_identity. Qed.
Print Assumptions C11_correction_identity.
Theorem C11_correction_additive : forall g r0 r1 r2 ln_, (ln_ (qdiv r1 r0) + ln_ (qdiv r2 r1) == ln_ (qdiv r2 r0)) ->
  Forall2 Qeq (borehole_radius_correction (borehole_radius_correction g r0 r1 ln_) r1 r2 ln_) (borehole_radius_correction g r0 r2 ln_).
Proof. exact correction_additive. Qed.
Print Assumptions C11_correction_additive.

(* the equivalent height computed for B/H of a stored height H is H itself (expression regenerated from g_function_interpolation) *)
Theorem C11_h_eq_at_stored_height : forall B H, ~ B == 0 -> ~ H == 0 -> h_eq_of (B / H) B == H.
Proof. exact h_eq_at_stored_height. Qed.
Print Assumptions C11_h_eq_at_stored_height.

(* the regenerated combine_sts_lts on a case with a short-time point EQUAL to the first long-time point (float coincidence):
   the point is kept and the abscissa is duplicated — outside the hypothesis of C11_combine_axis *)
Example C11_equal_point_duplicates :
  combine_sts_lts [-17 # 2; -39 # 5] [1; 2] [-12; -10; -17 # 2; -8] [1 # 10; 1 # 5; 3 # 10; 2 # 5]
  = Ok ([-12; -10; -17 # 2; -17 # 2; -39 # 5], [1 # 10; 1 # 5; 3 # 10; 1; 2]).
Proof. vm_compute. reflexivity. Qed.

(* ---- the decision prefix of g_function_interpolation (numeric statements and kind tables REGENERATED from gfunction.py, control flow pinned
   as source text in Model/GfPlan.v).  gf_plan heights h kind says what the method does with a family stored at `heights`, asked for the
   equivalent height h with the interpolation `kind`: return the single stored curve, hand (kind, extrapolate?, h_eq) to interp1d, or raise. *)

(* whatever kind ends up being handed to scipy needs no more knots than there are stored heights — for EVERY number of stored heights and
   every requested kind (interp1d raises otherwise) *)
Theorem C11_interp_kind_has_enough_curves : forall heights h kind k ex he,
  gf_plan heights h kind = PInterp k ex he ->
  exists req, kind_needs k = Some req /\ (req <= Z.of_nat (List.length heights))%Z.
Proof. exact plan_kind_supported. Qed.
Print Assumptions C11_interp_kind_has_enough_curves.

(* the default kind never runs into a missing table entry, and with two or more stored heights it always interpolates *)
Theorem C11_default_kind_total : forall heights h, gf_plan heights h "default" <> PKeyError /\
  ((2 <= List.length heights)%nat -> exists k ex he, gf_plan heights h "default" = PInterp k ex he).
Proof. exact plan_default_no_keyerror. Qed.
Print Assumptions C11_default_kind_total.

(* asked for a STORED height H: no exception and no extrapolation; a single-curve family returns its curve with h_eq = H exactly; a larger family is
   evaluated at a stored height within the 1e-6 snapping distance of H (H itself unless another stored height lies that close) *)
Theorem C11_stored_height_is_interpolated_not_extrapolated : forall heights H, In H heights -> 0 < H ->
  match gf_plan heights H "default" with
  | PSingle he => heights = [H] /\ he = H
  | PInterp k false he => In he heights /\ Qabs (he - H) < ct /\ (2 <= List.length heights)%nat
  | _ => False
  end.
Proof. exact plan_at_stored_height. Qed.
Print Assumptions C11_stored_height_is_interpolated_not_extrapolated.

(* OBSERVATION (not a clause of C11): with ONE stored height the documented "requires two g-function curves" ValueError is unreachable — the
   stored curve is returned for EVERY requested height (the second disjunct of the test lacks an abs()); confirmed on the real method by the
   correspondence run (50 m, 101 m and 300 m asked of a family stored at 100 m all return the 100 m curve, with the extrapolation warning only) *)
Theorem C11_single_curve_family_never_raises : forall H h, 0 < H -> exists he, gf_plan [H] h "default" = PSingle he.
Proof. exact single_family_never_raises. Qed.
Print Assumptions C11_single_curve_family_never_raises.

Example C11_plan_examples :
  gf_plan [60; 195 # 2; 135] (195 # 2) "default" = PInterp "quadratic" false (195 # 2) /\
  gf_plan [60; 135] 200 "cubic" = PInterp "linear" true 200 /\
  gf_plan [60; 75; 90; 110; 135] (1349999995 # 10000000) "default" = PInterp "cubic" false 135 /\
  gf_plan [100] (1000999 # 10000) "default" = PSingle (1000999 # 10000) /\
  gf_plan [100] 101 "default" = PSingle 101 /\
  gf_plan [100] 50 "default" = PSingle 50 /\
  gf_plan [100] 101 "linear" = PValueError /\
  gf_plan [60; 135] 100 "nearest" = PKeyError.
Proof. vm_compute. repeat split; reflexivity. Qed.
