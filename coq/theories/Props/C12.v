(* Props/C12.v — property theorems only.  C12: reported results describe the returned design. *)
From Coq Require Import ZArith QArith List.
From GHE Require Import Base.QUtil gen.Src Model.ObjState Proof.ObjStateP Proof.SearchP.
Import ListNotations.
Open Scope Q_scope.

(* after any operation history that ends with a sizing or a simulation the stored temperatures belong to the CURRENT height *)
Theorem C12_fresh : forall g ops o, (match o with SetH _ => False | _ => True end) -> fresh (run g (ops ++ [o])).
Proof. exact fresh_after. Qed.
Print Assumptions C12_fresh.
Theorem C12_size_returns_requested : forall g m evals ret, Hcur (step g (Size m evals ret)) = ret.
Proof. exact size_returns_requested. Qed.
Print Assumptions C12_size_returns_requested.
(* on the assignment REGENERATED from GHE.size: the stored height is the solver's result itself, not a rounded or edited copy *)
Theorem C12_stored_height_is_the_solver_result : forall h : Q, size_stored_height h = h.
Proof. exact stored_height_is_solver_result. Qed.
Print Assumptions C12_stored_height_is_the_solver_result.
Theorem C12_summary_counts : forall coords g, s_count (summarise coords g) = length coords /\
  s_drilling (summarise coords g) == s_height (summarise coords g) * natQ (s_count (summarise coords g)).
Proof. exact summary_counts. Qed.
Print Assumptions C12_summary_counts.
(* every search-log row: excess = max(maxEFT - upper, lower - minEFT), on BaseGHE.cost regenerated from the source *)
Theorem C12_log_rows_cost : forall maxeft mineft hi lo t : Q, (cost maxeft mineft hi lo <= t <-> (maxeft <= hi + t /\ lo - t <= mineft)).
Proof. exact cost_spec. Qed.
Print Assumptions C12_log_rows_cost.
(* the defect that was repaired (F4): on the old step function a clamped sizing left the temperatures of the last objective evaluation *)
Theorem C12_old_code_refuted :
  let g0 := {| Hcur := 100; stored := None; times_of := None |} in
  let g := step_old g0 (Size Hybrid [60; 135] 60) in
  Hcur g == 60 /\ stored g = Some {| r_h := 135; r_m := Hybrid; r_axis := Hybrid |}.
Proof. exact old_size_clamped_stale. Qed.
