(* Props/C01.v — property theorems only.  C01: the returned design keeps the EFT within the limits. *)
From Coq Require Import ZArith QArith Qabs List.
From GHE Require Import Base.QUtil gen.Src Model.Search Proof.SearchP.
From GHE Require Import Model.RowSearch Proof.RowSearchP.
Import ListNotations.
Open Scope Z_scope.

(* BaseGHE.cost (regenerated from the source): excess <= t  iff  both limits are met within t *)
Theorem C01_cost_spec : forall maxeft mineft hi lo t : Q,
  (cost maxeft mineft hi lo <= t <-> (maxeft <= hi + t /\ lo - t <= mineft))%Q.
Proof. exact cost_spec. Qed.
Print Assumptions C01_cost_spec.

(* for EVERY excess oracle, candidate list, cap and policy: if the search ends without the escape and the sizing
   objective agrees with the search oracle at the bracket ends, the sized height keeps the excess <= eps.
   Premise about scipy: when the root is bracketed brentq returns a point with |objective| <= eps. *)
Theorem C01_feasible :
  forall cnt cap cont it e o (es : Z -> Q -> Q) (hmin hmax brent eps H : Q),
  search1d cnt cap cont it e = Ok o -> escaped o = false -> (forall k, nz (e k Hmax)) ->
  (es (sel o) hmax == e (sel o) Hmax)%Q -> (es 0%Z hmin == e 0%Z Hmin)%Q ->
  solve_root (es (sel o)) hmin hmax brent = Ok H ->
  (((es (sel o) hmin < 0 /\ 0 < es (sel o) hmax) \/ (es (sel o) hmax < 0 /\ 0 < es (sel o) hmin))%Q ->
     (Qabs (es (sel o) brent) <= eps)%Q) ->
  (0 <= eps)%Q -> (es (sel o) H <= eps)%Q.
Proof. exact sized_feasible. Qed.
Print Assumptions C01_feasible.

(* 2-D search (bi-rectangle): the inner search is a 1-D search of the chosen list, so C01_feasible applies to it *)
Theorem C01_2d_inner_is_1d :
  forall nested cap cont it e o2, search2d nested cap cont it e = Ok o2 ->
  search1d (nthZ nested (li2 o2)) cap cont it (e (li2 o2)) = Ok (out2 o2) /\ 0 <= li2 o2 < lenZ nested.
Proof. exact search2d_inner. Qed.
Print Assumptions C01_2d_inner_is_1d.

(* ZD search (bi-zoned, constrained): the finally selected field has non-positive excess at maximum height *)
Theorem C01_ZD_selected_feasible_at_hmax :
  forall nested cap cont it e drill z, searchZD nested cap cont it e drill = Ok z -> zd_escaped z = false ->
  (e (zd_outer z) (zd_sel z) Hmax <= 0)%Q.
Proof. exact searchZD_feasible_at_hmax. Qed.
Print Assumptions C01_ZD_selected_feasible_at_hmax.

(* hence for a ZD-selected field sizing cannot end on the all-positive clamp *)
Theorem C01_size_after_feasible_at_hmax :
  forall (f : Q -> Q) (lo hi b eps H : Q), solve_root f lo hi b = Ok H -> (f hi < 0)%Q ->
  (((f lo < 0 /\ 0 < f hi) \/ (f hi < 0 /\ 0 < f lo))%Q -> (Qabs (f b) <= eps)%Q) -> (0 <= eps)%Q -> (f H <= eps)%Q.
Proof. exact size_after_feasible_at_hmax. Qed.
Print Assumptions C01_size_after_feasible_at_hmax.

(* the RowWise search: unless it escapes through continue_if_design_unmet, the field it selects meets the limits at maximum height
   (generated field, 1X1, or the sparsest field with boreholes removed) — for every oracle, window, step and iteration limit *)
Theorem C01_rowwise_selected_feasible_at_hmax :
  forall o st sp stp cont it r, rw_search true o st sp stp cont it = Ok r -> rw_escaped r = false -> probe_ok o (rw_sel r).
Proof. exact rw_selected_feasible. Qed.
Print Assumptions C01_rowwise_selected_feasible_at_hmax.

Example C01_nonvacuous : cost 36 10 35 5 = 1%Q.
Proof. vm_compute. reflexivity. Qed.
