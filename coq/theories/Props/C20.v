(* Props/C20.v — property theorems only.  C20: per-borehole and system flow specifications are equivalent. *)
From Coq Require Import String ZArith QArith List.
From GHE Require Import Base.QUtil gen.Src Proof.FlowP Proof.WiringP.
Import ListNotations.
Open Scope Q_scope.

Theorem C20_flow_system_equiv : forall coords rho v, coords <> [] ->
  req (search_mass_flow coords rho FlowConfigType_BOREHOLE v) (search_mass_flow coords rho FlowConfigType_SYSTEM (v * qlen coords)) /\
  req (ghe_mass_flow coords rho FlowConfigType_BOREHOLE v) (ghe_mass_flow coords rho FlowConfigType_SYSTEM (v * qlen coords)).
Proof. exact flow_system_equiv. Qed.
Print Assumptions C20_flow_system_equiv.

Theorem C20_search_flow_is_ghe_flow : forall coords rho ft v, coords <> [] ->
  req (search_mass_flow coords rho ft v) (ghe_mass_flow coords rho ft v).
Proof. exact flow_search_matches_ghe. Qed.
Print Assumptions C20_search_flow_is_ghe_flow.

Theorem C20_mass_flow_formula : forall coords rho v,
  search_mass_flow coords rho FlowConfigType_BOREHOLE v = Ok (qmul (qdiv v 1000) rho) /\ (qmul (qdiv v 1000) rho == v * rho / 1000).
Proof. exact mass_flow_formula. Qed.
Print Assumptions C20_mass_flow_formula.

Theorem C20_system_flow_inverse_n : forall coords rho v, coords <> [] ->
  req (search_mass_flow coords rho FlowConfigType_SYSTEM v) (Ok (v * rho / 1000 / qlen coords)).
Proof. exact system_flow_inverse_n. Qed.
Print Assumptions C20_system_flow_inverse_n.

Theorem C20_system_flow_decreases : forall (c1 c2 : list (Q * Q)) rho v, c1 <> [] -> (length c1 < length c2)%nat -> 0 < v -> 0 < rho ->
  match search_mass_flow c1 rho FlowConfigType_SYSTEM v, search_mass_flow c2 rho FlowConfigType_SYSTEM v with
  | Ok m1, Ok m2 => m2 < m1 | _, _ => False end.
Proof. exact system_flow_decreases. Qed.
Print Assumptions C20_system_flow_decreases.

(* the call sites in manager.py and design.py (read on every run): the requested flow type reaches every design class and
   every search routine *)
Theorem C20_flow_type_reaches_every_search :
  forall l, In l [wiring_nearsquare_search; wiring_rectangle_search; wiring_birectangle_search;
                  wiring_bizoned_search; wiring_constrained_search; wiring_rowwise_search] ->
  In "flow_type=self.flow_type"%string l /\ In "method=self.method"%string l /\
  In "pos:self.sim_params"%string l /\ In "pos:self.hourly_extraction_ground_loads"%string l.
Proof. exact every_search_gets_the_design_s_flow_type_and_method. Qed.
Print Assumptions C20_flow_type_reaches_every_search.
