(* Props/C08.v — property theorems only.  C08: the hybrid time axis covers the horizon exactly and is ordered. *)
From Coq Require Import ZArith QArith List.
From GHE Require Import Base.QUtil gen.Src Model.Hybrid Proof.HybridP Proof.CalendarP Proof.CalendarCompP.
Import ListNotations.

(* the calendar helpers REGENERATED from ground_loads.py, every month number of a 50-year horizon (complete finite
   domain, by computation): month end = closed form, month start = previous end + 1, month length = difference *)
Theorem C08_calendar_closed_form : forall m : Z, (1 <= m <= 600)%Z ->
  (last_month_hour (inject_Z m) [2019%Q] == inject_Z (closed_lmh m))%Q /\
  (first_month_hour (inject_Z m) [2019%Q] == inject_Z (closed_lmh (m - 1) + 1))%Q /\
  (monthdays (inject_Z m) 2019 * 24 == inject_Z (closed_lmh m - closed_lmh (m - 1)))%Q.
Proof. exact calendar_closed. Qed.
Print Assumptions C08_calendar_closed_form.

(* the closed form for EVERY month number: non-leap 8760-hour years *)
Theorem C08_years_are_8760 : forall m : Z, closed_lmh (m + 12) = (closed_lmh m + 8760)%Z.
Proof. exact closed_lmh_period. Qed.
Print Assumptions C08_years_are_8760.
Theorem C08_full_years : forall y : Z, closed_lmh (12 * y) = (8760 * y)%Z.
Proof. exact closed_lmh_full_years. Qed.
Print Assumptions C08_full_years.

(* the sequence of ANY list of months ends exactly on the last month end, and every prefix ends on its month end:
   every calendar month end is a breakpoint *)
Theorem C08_every_month_end_is_a_breakpoint : forall ms1 ms2 prev, chain prev (ms1 ++ ms2) -> ms1 <> [] ->
  last_hour prev (flat_map segments ms1) = last_month_end prev ms1.
Proof. exact month_end_is_breakpoint. Qed.
Print Assumptions C08_every_month_end_is_a_breakpoint.

(* month m+12 repeats the totals, peaks, durations and peak days of month m *)
Theorem C08_replication : forall a years s e i,
  let m1 := mk_month a years s e i in let m2 := mk_month a years s e (i + 12) in
  cl m2 = cl m1 /\ hl m2 = hl m1 /\ pcl m2 = pcl m1 /\ phl m2 = phl m1 /\ dcl m2 = dcl m1 /\ dhl m2 = dhl m1 /\
  daycl m2 = daycl m1 /\ dayhl m2 = dayhl m1.
Proof. exact replication. Qed.
Print Assumptions C08_replication.

(* disjoint windows inside the month -> strictly increasing breakpoints *)
Theorem C08_strictly_increasing : forall (m : month) (prev : Q),
  ipf m = true -> (0 < pcl m)%Q -> (0 < phl m)%Q -> ~ (daycl m - dayhl m == 0)%Q ->
  (prev < fhc m)%Q -> (fhc m < lhc m)%Q -> (prev < fhh m)%Q -> (fhh m < lhh m)%Q -> (lhc m < lmh m)%Q -> (lhh m < lmh m)%Q ->
  ((daycl m - dayhl m < 0)%Q -> (lhc m < fhh m)%Q) -> ((0 < daycl m - dayhl m)%Q -> (lhh m < fhc m)%Q) ->
  increasing prev (map snd (segments m)).
Proof. exact month_hours_increasing. Qed.
Print Assumptions C08_strictly_increasing.

Theorem C08_starts_at_zero : (first_month_hour 1 [2019%Q] - 1 == 0)%Q.
Proof. vm_compute. reflexivity. Qed.
