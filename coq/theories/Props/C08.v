(* Props/C08.v — property theorems only.  C08: the hybrid time axis covers the horizon exactly and is ordered. *)
From Coq Require Import ZArith QArith List.
From GHE Require Import Base.QUtil gen.Src Model.Hybrid Proof.HybridP Proof.CalendarP Proof.CalendarCompP.
Import ListNotations.

(* the calendar helpers REGENERATED from ground_loads.py, every month number of a 50-year horizon (complete finite
   domain, by computation): month end = closed form, month start = previous end + 1, month length = difference *)
Theorem C08_calendar_closed_form : forall m : Z, (1 <= m <= 600)%Z ->
  (last_month_hour (inject_Z m) [2019%Q] == inject_Z (closed_lmh m))%Q /\
  (first_month_hour (inject_Z m) [2019%Q] == inject_Z (closed_lmh (m - 1) + 1))%Q /\
  (monthdays (inject_Z m) 2019 * 24 == inject_Z (closed_lmh m - closed_lmh (m - 1)))%Q.
Proof. exact calendar_closed. Qed.
Print Assumptions C08_calendar_closed_form.

(* the closed form for EVERY month number: non-leap 8760-hour years *)
Theorem C08_years_are_8760 : forall m : Z, closed_lmh (m + 12) = (closed_lmh m + 8760)%Z.
Proof. exact closed_lmh_period. Qed.
Print Assumptions C08_years_are_8760.
Theorem C08_full_years : forall y : Z, closed_lmh (12 * y) = (8760 * y)%Z.
Proof. exact closed_lmh_full_years. Qed.
Print Assumptions C08_full_years.

(* the sequence of ANY list of months ends exactly on the last month end, and every prefix ends on its month end:
   every calendar month end is a breakpoint *)
Theorem C08_every_month_end_is_a_breakpoint : forall ms1 ms2 prev, chain prev (ms1 ++ ms2) -> ms1 <> [] ->
  last_hour prev (flat_map segments ms1) = last_month_end prev ms1.
Proof. exact month_end_is_breakpoint. Qed.
Print Assumptions C08_every_month_end_is_a_breakpoint.

(* month m+12 repeats the totals, peaks, durations and peak days of month m *)
Theorem C08_replication : forall a years s e i,
  let m1 := mk_month a years s e i in let m2 := mk_month a years s e (i + 12) in
  cl m2 = cl m1 /\ hl m2 = hl m1 /\ pcl m2 = pcl m1 /\ phl m2 = phl m1 /\ dcl m2 = dcl m1 /\ dhl m2 = dhl m1 /\
  daycl m2 = daycl m1 /\ dayhl m2 = dayhl m1.
Proof. exact replication. Qed.
Print Assumptions C08_replication.

(* disjoint windows inside the month -> strictly increasing breakpoints *)
Theorem C08_strictly_increasing : forall (m : month) (prev : Q),
  ipf m = true -> (0 < pcl m)%Q -> (0 < phl m)%Q -> ~ (daycl m - dayhl m == 0)%Q ->
  (prev < fhc m)%Q -> (fhc m < lhc m)%Q -> (prev < fhh m)%Q -> (fhh m < lhh m)%Q -> (lhc m < lmh m)%Q -> (lhh m < lmh m)%Q ->
  ((daycl m - dayhl m < 0)%Q -> (lhc m < fhh m)%Q) -> ((0 < daycl m - dayhl m)%Q -> (lhh m < fhc m)%Q) ->
  increasing prev (map snd (segments m)).
Proof. exact month_hours_increasing. Qed.
Print Assumptions C08_strictly_increasing.

Theorem C08_starts_at_zero : (first_month_hour 1 [2019%Q] - 1 == 0)%Q.
Proof. vm_compute. reflexivity. Qed.

(* a leap year of loads (load_years = [2020], reachable through the GHE / search / design classes): the regenerated helpers follow the
   8784-hour calendar, every month number of a 50-year horizon *)
Theorem C08_calendar_closed_form_leap_year : forall m : Z, (1 <= m <= 600)%Z ->
  (last_month_hour (inject_Z m) [2020%Q] == inject_Z (closed_lmh_leap m))%Q /\
  (first_month_hour (inject_Z m) [2020%Q] == inject_Z (closed_lmh_leap (m - 1) + 1))%Q /\
  (monthdays (inject_Z m) 2020 * 24 == inject_Z (closed_lmh_leap m - closed_lmh_leap (m - 1)))%Q.
Proof. exact calendar_closed_leap. Qed.
Print Assumptions C08_calendar_closed_form_leap_year.

(* observation (outside the property's quantifier: the manager passes one load year): with a LIST of load years the helpers apply the year
   of the month asked for to all months before it; month 25 of [2019; 2019; 2020] starts 49 hours after month 24 ends *)
Theorem C08_multi_year_calendar_refuted :
  let ys := [2019%Q; 2019%Q; 2020%Q] in
  (first_month_hour 25 ys == 17569)%Q /\ (last_month_hour 24 ys == 17520)%Q /\
  ~ (first_month_hour 25 ys == last_month_hour 24 ys + 1)%Q.
Proof. exact multi_year_calendar_breaks. Qed.
Print Assumptions C08_multi_year_calendar_refuted.
