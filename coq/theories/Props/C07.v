(* Props/C07.v — property theorems only.  C07: peaks retained with their magnitude, sign, placement. *)
From Coq Require Import ZArith QArith List.
From GHE Require Import Base.QUtil gen.Src Model.Hybrid Proof.HybridP Proof.CalendarP.
From GHE Require Import Proof.TwoDayP.
Import ListNotations.
Open Scope Q_scope.

(* retention months are exactly the first and the last twelve of the horizon *)
Theorem C07_retention_window : forall a years s e i,
  ipf (mk_month a years s e i) = true <-> (i < s + 12 \/ e - 12 < i)%Z.
Proof. exact ipf_window. Qed.
Print Assumptions C07_retention_window.

(* unless BOTH peaks fall on the same day: the sequence contains the pulse (+peak rejection) of length exactly the duration,
   centred on noon of the peak day (noon = first_month_hour + 24 day + 12, the code's end-of-hour convention) *)
Theorem C07_cooling_pulse : forall (m : month),
  0 <= dcl m -> 0 <= fmh m + daycl m * 24 + 12 - dcl m / 2 ->
  ipf m = true -> 0 < pcl m -> (~ daycl m - dayhl m == 0 \/ phl m <= 0) ->
  exists l1 l2, segments m = l1 ++ [(rate m, fhc m); (pcl m, lhc m)] ++ l2 /\
                lhc m - fhc m == dcl m /\ (fhc m + lhc m) / 2 == fmh m + daycl m * 24 + 12.
Proof. exact cooling_pulse_centred. Qed.
Print Assumptions C07_cooling_pulse.

(* extraction pulses carry the NEGATIVE peak (rejection-positive convention) *)
Theorem C07_heating_pulse : forall (m : month),
  0 <= dhl m -> 0 <= fmh m + dayhl m * 24 + 12 - dhl m / 2 ->
  ipf m = true -> 0 < phl m -> (~ daycl m - dayhl m == 0 \/ pcl m <= 0) ->
  exists l1 l2, segments m = l1 ++ [(rate m, fhh m); (- phl m, lhh m)] ++ l2 /\
                lhh m - fhh m == dhl m /\ (fhh m + lhh m) / 2 == fmh m + dayhl m * 24 + 12.
Proof. exact heating_pulse_centred. Qed.
Print Assumptions C07_heating_pulse.

(* same peak day: the cooling pulse ends at noon, the heating pulse starts at noon *)
Theorem C07_same_day_abut_noon : forall (m : month),
  0 <= dcl m -> 0 <= dhl m ->
  0 <= fmh m + daycl m * 24 + 12 - dcl m / 2 -> 0 <= fmh m + dayhl m * 24 + 12 - dhl m / 2 ->
  ipf m = true -> daycl m - dayhl m == 0 ->
  fhc m - dcl m / 2 == (fmh m + daycl m * 24 + 12) - dcl m /\ lhc m - dcl m / 2 == fmh m + daycl m * 24 + 12 /\
  fhh m + dhl m / 2 == fmh m + dayhl m * 24 + 12 /\ lhh m + dhl m / 2 == (fmh m + dayhl m * 24 + 12) + dhl m.
Proof. exact pulses_same_day_hours. Qed.
Print Assumptions C07_same_day_abut_noon.

(* no load in a direction -> no pulse in it; months between the windows carry only their average *)
Theorem C07_no_pulse_without_peak : forall m, pcl m <= 0 -> phl m <= 0 -> segments m = [(rate m, lmh m)].
Proof. exact no_pulse_without_peak. Qed.
Print Assumptions C07_no_pulse_without_peak.

Theorem C07_average_only_between_windows : forall m, ipf m = false -> segments m = [(rate m, lmh m)].
Proof. exact avg_only_outside_retention. Qed.
Print Assumptions C07_average_only_between_windows.

(* the two-day window handed to the peak-duration analysis, on HybridLoad.process_two_day_loads REGENERATED from ground_loads.py:
   for every year of 8760 hourly loads and every peak day index d (0-based) of month i, hour j of the window is hour
   (hours before month i) + 24 (d - 1) + j of the year, modulo 8760 — the day before the peak day and the peak day itself,
   the year wrapping around for 1 January *)
Theorem C07_two_day_window_ends_on_the_peak_day_rejection :
  forall (L E : list Q) (dc dh : list nat), Z.of_nat (length L) = 8760%Z ->
  forall i j : nat, (1 <= i <= 12)%nat -> (Z.of_nat j < 48)%Z -> (Z.of_nat (nth i dc 0%nat) < nth i daysz 0%Z)%Z ->
  nth j (nth (i - 1) (fst (process_two_day_loads L E cal (map natQ dc) (map natQ dh) [] [])) []) 0%Q =
  nth (Z.to_nat ((nth i cumz 0%Z + 24 * Z.of_nat (nth i dc 0%nat) + Z.of_nat j + 8736) mod 8760)%Z) L 0%Q.
Proof. exact two_day_window_rejection. Qed.
Print Assumptions C07_two_day_window_ends_on_the_peak_day_rejection.

Theorem C07_two_day_window_ends_on_the_peak_day_extraction :
  forall (L E : list Q) (dc dh : list nat), Z.of_nat (length L) = 8760%Z -> Z.of_nat (length E) = 8760%Z ->
  forall i j : nat, (1 <= i <= 12)%nat -> (Z.of_nat j < 48)%Z -> (Z.of_nat (nth i dh 0%nat) < nth i daysz 0%Z)%Z ->
  nth j (nth (i - 1) (snd (process_two_day_loads L E cal (map natQ dc) (map natQ dh) [] [])) []) 0%Q =
  nth (Z.to_nat ((nth i cumz 0%Z + 24 * Z.of_nat (nth i dh 0%nat) + Z.of_nat j + 8736) mod 8760)%Z) E 0%Q.
Proof. exact two_day_window_extraction. Qed.
Print Assumptions C07_two_day_window_ends_on_the_peak_day_extraction.
