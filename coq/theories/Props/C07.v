(* Props/C07.v — property theorems only.  C07: peaks retained with their magnitude, sign, placement. *)
From Coq Require Import ZArith QArith List.
From GHE Require Import Base.QUtil gen.Src Model.Hybrid Proof.HybridP Proof.CalendarP.
Import ListNotations.
Open Scope Q_scope.

(* retention months are exactly the first and the last twelve of the horizon *)
Theorem C07_retention_window : forall a years s e i,
  ipf (mk_month a years s e i) = true <-> (i < s + 12 \/ e - 12 < i)%Z.
Proof. exact ipf_window. Qed.
Print Assumptions C07_retention_window.

(* unless BOTH peaks fall on the same day: the sequence contains the pulse (+peak rejection) of length exactly the duration,
   centred on noon of the peak day (noon = first_month_hour + 24 day + 12, the code's end-of-hour convention) *)
Theorem C07_cooling_pulse : forall (m : month),
  0 <= dcl m -> 0 <= fmh m + daycl m * 24 + 12 - dcl m / 2 ->
  ipf m = true -> 0 < pcl m -> (~ daycl m - dayhl m == 0 \/ phl m <= 0) ->
  exists l1 l2, segments m = l1 ++ [(rate m, fhc m); (pcl m, lhc m)] ++ l2 /\
                lhc m - fhc m == dcl m /\ (fhc m + lhc m) / 2 == fmh m + daycl m * 24 + 12.
Proof. exact cooling_pulse_centred. Qed.
Print Assumptions C07_cooling_pulse.

(* extraction pulses carry the NEGATIVE peak (rejection-positive convention) *)
Theorem C07_heating_pulse : forall (m : month),
  0 <= dhl m -> 0 <= fmh m + dayhl m * 24 + 12 - dhl m / 2 ->
  ipf m = true -> 0 < phl m -> (~ daycl m - dayhl m == 0 \/ pcl m <= 0) ->
  exists l1 l2, segments m = l1 ++ [(rate m, fhh m); (- phl m, lhh m)] ++ l2 /\
                lhh m - fhh m == dhl m /\ (fhh m + lhh m) / 2 == fmh m + dayhl m * 24 + 12.
Proof. exact heating_pulse_centred. Qed.
Print Assumptions C07_heating_pulse.

(* same peak day: the cooling pulse ends at noon, the heating pulse starts at noon *)
Theorem C07_same_day_abut_noon : forall (m : month),
  0 <= dcl m -> 0 <= dhl m ->
  0 <= fmh m + daycl m * 24 + 12 - dcl m / 2 -> 0 <= fmh m + dayhl m * 24 + 12 - dhl m / 2 ->
  ipf m = true -> daycl m - dayhl m == 0 ->
  fhc m - dcl m / 2 == (fmh m + daycl m * 24 + 12) - dcl m /\ lhc m - dcl m / 2 == fmh m + daycl m * 24 + 12 /\
  fhh m + dhl m / 2 == fmh m + dayhl m * 24 + 12 /\ lhh m + dhl m / 2 == (fmh m + dayhl m * 24 + 12) + dhl m.
Proof. exact pulses_same_day_hours. Qed.
Print Assumptions C07_same_day_abut_noon.

(* no load in a direction -> no pulse in it; months between the windows carry only their average *)
Theorem C07_no_pulse_without_peak : forall m, pcl m <= 0 -> phl m <= 0 -> segments m = [(rate m, lmh m)].
Proof. exact no_pulse_without_peak. Qed.
Print Assumptions C07_no_pulse_without_peak.

Theorem C07_average_only_between_windows : forall m, ipf m = false -> segments m = [(rate m, lmh m)].
Proof. exact avg_only_outside_retention. Qed.
Print Assumptions C07_average_only_between_windows.
