(* Props/C13.v — property theorems only.  C13: results are deterministic and independent of call history. *)
From Coq Require Import String ZArith QArith List.
From GHE Require Import Base.QUtil gen.Src Model.ObjState Proof.ObjStateP Proof.WiringP.
Import ListNotations.
Open Scope Q_scope.

Theorem C13_simulate_history_independent : forall g1 g2 ops1 ops2 m h,
  stored (step (run g1 (ops1 ++ [SetH h])) (Simulate m)) = stored (step (run g2 (ops2 ++ [SetH h])) (Simulate m)).
Proof. exact simulate_history_independent. Qed.
Print Assumptions C13_simulate_history_independent.
Theorem C13_nominal_height_irrelevant : forall c h1 h2 x, physical (mstep c (SetBorehole h1 x)) = physical (mstep c (SetBorehole h2 x)).
Proof. exact nominal_height_irrelevant. Qed.
Print Assumptions C13_nominal_height_irrelevant.
Theorem C13_find_design_transparent : forall c ops, mrun c (filter is_setter ops) = mrun c ops.
Proof. exact find_design_transparent. Qed.
Print Assumptions C13_find_design_transparent.
Theorem C13_repeated_find_design : forall c n, mrun c (repeat FindDesign n) = c.
Proof. exact repeated_find_design. Qed.
Print Assumptions C13_repeated_find_design.
(* the defect that was repaired (F5) *)
Theorem C13_old_code_refuted :
  let g0 := {| Hcur := 100; stored := None; times_of := None |} in
  stored (step_old (step_old g0 (Simulate Hybrid)) (Simulate Hourly)) = Some {| r_h := 100; r_m := Hourly; r_axis := Hybrid |}.
Proof. exact old_hourly_after_hybrid_wrong_axis. Qed.

(* the manager with its design object (Model/ObjState.gstep): find_design works with the physical inputs as they were at the LAST set_design *)
Theorem C13_design_is_the_last_capture : forall m ops1 x ops2,
  forallb (fun o => negb (is_set_design o)) ops2 = true ->
  design_inputs (grun m (ops1 ++ SetDesign x :: ops2)) = Some (physical (mrun (m_cfg m) (ops1 ++ [SetDesign x]))).
Proof. exact design_is_the_last_capture. Qed.
Print Assumptions C13_design_is_the_last_capture.

(* ... so two call histories that agree on the physical inputs at their last set_design give find_design the same inputs: whatever
   came before, whatever nominal heights were used, whatever setters were called afterwards without set_design *)
Theorem C13_same_inputs_same_design : forall m1 m2 a1 a2 x1 x2 b1 b2,
  forallb (fun o => negb (is_set_design o)) b1 = true -> forallb (fun o => negb (is_set_design o)) b2 = true ->
  physical (mrun (m_cfg m1) (a1 ++ [SetDesign x1])) = physical (mrun (m_cfg m2) (a2 ++ [SetDesign x2])) ->
  design_inputs (grun m1 (a1 ++ SetDesign x1 :: b1)) = design_inputs (grun m2 (a2 ++ SetDesign x2 :: b2)).
Proof. exact same_inputs_same_design. Qed.
Print Assumptions C13_same_inputs_same_design.

(* the call sites in manager.py (read on every run): every design class is built from the manager's current input objects,
   the same argument list for all six methods *)
Theorem C13_every_design_built_from_current_inputs :
  forall l, In l [wiring_nearsquare_design; wiring_rectangle_design; wiring_birectangle_design;
                  wiring_bizoned_design; wiring_constrained_design; wiring_rowwise_design] ->
  l = design_args.
Proof. exact every_design_gets_the_manager_s_current_inputs. Qed.
Print Assumptions C13_every_design_built_from_current_inputs.
