(* Props/C13.v — property theorems only.  C13: results are deterministic and independent of call history. *)
From Coq Require Import String ZArith QArith List.
From GHE Require Import Base.QUtil gen.Src Model.ObjState Proof.ObjStateP Proof.WiringP.
Import ListNotations.
Open Scope Q_scope.

Theorem C13_simulate_history_independent : forall g1 g2 ops1 ops2 m h,
  stored (step (run g1 (ops1 ++ [SetH h])) (Simulate m)) = stored (step (run g2 (ops2 ++ [SetH h])) (Simulate m)).
Proof. exact simulate_history_independent. Qed.
Print Assumptions C13_simulate_history_independent.
Theorem C13_nominal_height_irrelevant : forall c h1 h2 x, physical (mstep c (SetBorehole h1 x)) = physical (mstep c (SetBorehole h2 x)).
Proof. exact nominal_height_irrelevant. Qed.
Print Assumptions C13_nominal_height_irrelevant.
Theorem C13_find_design_transparent : forall c ops, mrun c (filter is_setter ops) = mrun c ops.
Proof. exact find_design_transparent. Qed.
Print Assumptions C13_find_design_transparent.
Theorem C13_repeated_find_design : forall c n, mrun c (repeat FindDesign n) = c.
Proof. exact repeated_find_design. Qed.
Print Assumptions C13_repeated_find_design.
(* the defect that was repaired (F5) *)
Theorem C13_old_code_refuted :
  let g0 := {| Hcur := 100; stored := None; times_of := None |} in
  stored (step_old (step_old g0 (Simulate Hybrid)) (Simulate Hourly)) = Some {| r_h := 100; r_m := Hourly; r_axis := Hybrid |}.
Proof. exact old_hourly_after_hybrid_wrong_axis. Qed.

(* the call sites in manager.py (read on every run): every design class is built from the manager's current input objects,
   the same argument list for all six methods *)
Theorem C13_every_design_built_from_current_inputs :
  forall l, In l [wiring_nearsquare_design; wiring_rectangle_design; wiring_birectangle_design;
                  wiring_bizoned_design; wiring_constrained_design; wiring_rowwise_design] ->
  l = design_args.
Proof. exact every_design_gets_the_manager_s_current_inputs. Qed.
Print Assumptions C13_every_design_built_from_current_inputs.
