(* Props/C04.v — property theorems only.  C04 (cut-out part): what remove_cutout keeps, for ANY classifier. *)
From Coq Require Import ZArith QArith List.
From GHE Require Import Base.QUtil gen.Src Model.Polygon Proof.PolygonP.
Import ListNotations.

(* keeping the property: a grid point is kept IFF it is inside some outline, or on the contour of one when contours are kept *)
Theorem C04_keep_inside : forall cls coords bs keep c,
  In c (remove_cutout cls coords bs false keep) <->
  In c coords /\ ((exists b, In b bs /\ cls b c = 1%Z) \/ (keep = true /\ exists b, In b bs /\ cls b c = 0%Z)).
Proof. exact cutout_keep_inside_spec. Qed.
Print Assumptions C04_keep_inside.

(* removing no-go zones: kept IFF inside none of them and (when contours are not kept) on the contour of none *)
Theorem C04_remove_nogo : forall cls coords bs keep c,
  In c (remove_cutout cls coords bs true keep) <->
  In c coords /\ (forall b, In b bs -> cls b c <> 1%Z) /\ (keep = false -> forall b, In b bs -> cls b c <> 0%Z).
Proof. exact cutout_remove_inside_spec. Qed.
Print Assumptions C04_remove_nogo.

Theorem C04_kept_is_filtered_grid : forall cls coords bs ri keep, exists f, remove_cutout cls coords bs ri keep = filter f coords.
Proof. exact cutout_sublist. Qed.
Print Assumptions C04_kept_is_filtered_grid.
