(* Props/C04.v — property theorems only.  C04 (cut-out part): what remove_cutout keeps, for ANY classifier. *)
From Coq Require Import ZArith QArith List Sorting.Sorted.
From GHE Require Import Base.QUtil gen.Src Model.Polygon Proof.PolygonP Proof.LandP.
Import ListNotations.

(* keeping the property: a grid point is kept IFF it is inside some outline, or on the contour of one when contours are kept *)
Theorem C04_keep_inside : forall cls coords bs keep c,
  In c (remove_cutout cls coords bs false keep) <->
  In c coords /\ ((exists b, In b bs /\ cls b c = 1%Z) \/ (keep = true /\ exists b, In b bs /\ cls b c = 0%Z)).
Proof. exact cutout_keep_inside_spec. Qed.
Print Assumptions C04_keep_inside.

(* removing no-go zones: kept IFF inside none of them and (when contours are not kept) on the contour of none *)
Theorem C04_remove_nogo : forall cls coords bs keep c,
  In c (remove_cutout cls coords bs true keep) <->
  In c coords /\ (forall b, In b bs -> cls b c <> 1%Z) /\ (keep = false -> forall b, In b bs -> cls b c <> 0%Z).
Proof. exact cutout_remove_inside_spec. Qed.
Print Assumptions C04_remove_nogo.

Theorem C04_kept_is_filtered_grid : forall cls coords bs ri keep, exists f, remove_cutout cls coords bs ri keep = filter f coords.
Proof. exact cutout_sublist. Qed.
Print Assumptions C04_kept_is_filtered_grid.

(* ---- the whole of polygonal_land_constraint (Model/Polygon.land_constraint: compared with the implementation on every run), for ANY
   classifier: grid from the regenerated bi_rectangle_nested, both cut-outs, empty fields dropped, stable re-ordering by size ---- *)

(* every borehole of every candidate field is a grid point inside (or on the kept contour of) some outline, inside no no-go zone and
   on the contour of none (contours of no-go zones are not kept: kc1 = false in the code's default) *)
Theorem C04_every_borehole_placed : forall cls outlines nogo kc0 kc1 bmin bx by_ dom f c,
  In dom (land_constraint cls bmin bx by_ outlines nogo kc0 kc1) -> In f dom -> In c f ->
  on_property cls outlines kc0 c /\ off_nogo cls nogo kc1 c /\
  exists gd g, In gd (grids outlines bmin bx by_) /\ In g gd /\ In c g.
Proof. exact land_every_borehole_placed. Qed.
Print Assumptions C04_every_borehole_placed.

(* conversely, no placeable grid borehole is dropped: it is in a candidate field of the list made from its grid list, a sub-field of its grid field *)
Theorem C04_no_placeable_borehole_dropped : forall cls outlines nogo kc0 kc1 bmin bx by_ gd g c,
  In gd (grids outlines bmin bx by_) -> In g gd -> In c g -> on_property cls outlines kc0 c -> off_nogo cls nogo kc1 c ->
  exists dom f, In dom (land_constraint cls bmin bx by_ outlines nogo kc0 kc1) /\ In f dom /\ In c f /\ incl f g.
Proof. exact land_no_placeable_borehole_dropped. Qed.
Print Assumptions C04_no_placeable_borehole_dropped.

(* each candidate list is ordered by non-decreasing borehole count (and holds no empty field) *)
Theorem C04_lists_ordered_by_count : forall cls outlines nogo kc0 kc1 bmin bx by_ dom,
  In dom (land_constraint cls bmin bx by_ outlines nogo kc0 kc1) ->
  Sorted le_len dom /\ (forall f, In f dom -> f <> []) /\
  forall i j, (i <= j < length dom)%nat -> (length (nth i dom []) <= length (nth j dom []))%nat.
Proof. exact land_lists_ordered. Qed.
Print Assumptions C04_lists_ordered_by_count.
