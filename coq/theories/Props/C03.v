(* Props/C03.v — property theorems only.  C03: rectangular-family candidates stay on the land and respect spacing. *)
From Coq Require Import ZArith QArith Qround List.
From GHE Require Import Base.QUtil gen.Src Model.Domains Proof.DomainsP Proof.NearSquareP.
Import ListNotations.
Open Scope Q_scope.

(* the spacing arithmetic of rectangular / bi_rectangular / bi_rectangle_nested, for ALL rational lengths and limits:
   any column count n <= floor(L/b_min + 1) gives spacing L/(n-1) >= b_min, any n >= ceil(L/b_max + 1) gives <= b_max,
   and floor(W/b + 1) rows of spacing b fit into W *)
Theorem C03_spacing_ge_bmin : forall (L bmin : Q) (n : Z), 0 < bmin -> (2 <= n)%Z -> (n <= Qfloor (L / bmin + 1))%Z ->
  bmin <= L / (inject_Z n - 1).
Proof. exact spacing_ge_bmin. Qed.
Print Assumptions C03_spacing_ge_bmin.
Theorem C03_spacing_le_bmax : forall (L bmax : Q) (n : Z), 0 < bmax -> 0 <= L -> (2 <= n)%Z -> (Qceiling (L / bmax + 1) <= n)%Z ->
  L / (inject_Z n - 1) <= bmax.
Proof. exact spacing_le_bmax. Qed.
Print Assumptions C03_spacing_le_bmax.
Theorem C03_rows_fit : forall W b : Q, 0 < b ->
  (inject_Z (Qfloor (W / b + 1)) - 1) * b <= W /\ W < inject_Z (Qfloor (W / b + 1)) * b.
Proof. exact rows_fit. Qed.
Print Assumptions C03_rows_fit.

(* coordinates.rectangle REGENERATED FROM THE SOURCE: its points are exactly the nx x ny lattice, it has nx*ny of them *)
Theorem C03_rectangle_is_the_lattice : forall (nx ny : Z) bx by_ x0 y0 p,
  In p (rectangle (inject_Z nx) (inject_Z ny) bx by_ (x0, y0)) <->
  exists i j : Z, (0 <= i < nx)%Z /\ (0 <= j < ny)%Z /\
                  p = (qadd x0 (qmul (inject_Z i) bx), qadd y0 (qmul (inject_Z j) by_)).
Proof. exact rectangle_points. Qed.
Print Assumptions C03_rectangle_is_the_lattice.
Theorem C03_rectangle_count : forall (nx ny : Z) bx by_ o, (0 <= nx)%Z -> (0 <= ny)%Z ->
  length (rectangle (inject_Z nx) (inject_Z ny) bx by_ o) = (Z.to_nat nx * Z.to_nat ny)%nat.
Proof. exact rectangle_count. Qed.
Print Assumptions C03_rectangle_count.

(* a candidate n x n2 at spacing b with (n-1) b <= L and (n2-1) b <= W lies inside the land, and two boreholes at
   different lattice positions are at least b apart (so >= b_min by C03_spacing_ge_bmin, and never coincident) *)
Theorem C03_rectangle_inside : forall (n n2 : Z) (b L W : Q) p, 0 <= b ->
  (inject_Z n - 1) * b <= L -> (inject_Z n2 - 1) * b <= W ->
  In p (rectangle (inject_Z n) (inject_Z n2) b b (0, 0)) -> in_land L W p = true.
Proof. exact rectangle_inside. Qed.
Print Assumptions C03_rectangle_inside.
Theorem C03_rectangle_spacing : forall (n n2 : Z) (b : Q) (i j i' j' : Z), 0 < b -> (i <> i' \/ j <> j') ->
  b * b <= dist2 (qadd 0 (qmul (inject_Z i) b), qadd 0 (qmul (inject_Z j) b))
                 (qadd 0 (qmul (inject_Z i') b), qadd 0 (qmul (inject_Z j') b)).
Proof. exact rectangle_spacing. Qed.
Print Assumptions C03_rectangle_spacing.

(* near-square: the largest index regenerated from design.py keeps (n-1) b <= length *)
Theorem C03_near_square_fits : forall length b : Q, 0 < b -> (near_square_n length b - 1) * b <= length.
Proof. exact near_square_fits. Qed.
Print Assumptions C03_near_square_fits.

(* the executable check that every run evaluates on the generators regenerated from domains.py means what it says *)
Theorem C03_field_check_sound : forall L W bmin f, field_ok L W bmin f = true ->
  (forall p, In p f -> 0 <= fst p /\ fst p <= L /\ 0 <= snd p /\ snd p <= W) /\
  (forall i j, (i < j < length f)%nat -> bmin * bmin <= dist2 (nth i f (0, 0)) (nth j f (0, 0))).
Proof. exact field_ok_sound. Qed.
Print Assumptions C03_field_check_sound.

(* the generators regenerated from the source, on a lot with length < width (the orientation the fixed defect concerned):
   every field of every list passes the check, the bisection lists are strictly increasing in count *)
Example C03_transposed_lot_ok :
  match bi_rectangle_zoned_nested 25 40 5 10 12 with Ok d => forallb (forallb (field_ok 25 40 5)) d | Err _ => false end = true /\
  forallb strictly_sorted_counts (bi_rectangle_nested 25 40 5 10 12 false) = true /\
  strictly_sorted_counts (rectangular 25 40 5 10 false) = true.
Proof. vm_compute. auto. Qed.

(* the near-square candidate list REGENERATED from domains.square_and_near_square, for every index range and spacing: for i = lower..upper
   the i x i grid followed by the i x (i+1) grid (each the lattice of C03_rectangle_is_the_lattice at spacing b) ... *)
Theorem C03_near_square_list : forall (lo hi : Z) (b : Q), (1 <= lo <= hi)%Z ->
  square_and_near_square (inject_Z lo) (inject_Z hi) b = Ok (flat_map (pair_of b) (qrange (inject_Z lo) (qadd (inject_Z hi) (1 # 1)))).
Proof. exact near_square_list. Qed.
Print Assumptions C03_near_square_list.

(* ... 2 (upper - lower + 1) candidates, ordered by non-decreasing borehole count: i*i <= i*(i+1) <= (i+1)*(i+1) *)
Theorem C03_near_square_counts_nondecreasing : forall (lo hi : Z) (b : Q), (1 <= lo <= hi)%Z ->
  exists dom, square_and_near_square (inject_Z lo) (inject_Z hi) b = Ok dom /\
              length dom = (2 * Z.to_nat (hi - lo + 1))%nat /\ nondecreasing (map (@length (Q * Q)) dom).
Proof. exact near_square_counts_nondecreasing. Qed.
Print Assumptions C03_near_square_counts_nondecreasing.
