(* Props/C17.v — property theorems only.  C17: written input files are schema-valid (at the level of keys) and loadable. *)
From Coq Require Import ZArith String List Bool.
From GHE Require Import Base.QUtil gen.Src Model.InputIO Proof.InputIOP.
Import ListNotations.

(* for EVERY configuration shape (6 geometries x 4 pipe types x optional keys): the keys the tool writes (regenerated from
   to_input()/write_input_file) contain every key its own schemas require and none the schemas forbid *)
Theorem C17_written_keys_satisfy_schemas : forall s : shape, shape_valid s = true.
Proof. exact write_keys_valid. Qed.
Print Assumptions C17_written_keys_satisfy_schemas.

(* and the command-line loader (regenerated from _run_manager_from_cli_worker) finds every key it reads and consumes every key written *)
Theorem C17_loader_reads_what_is_written : forall s : shape, shape_loadable s = true.
Proof. exact write_keys_loadable. Qed.
Print Assumptions C17_loader_reads_what_is_written.

Theorem C17_subset_meaning : forall a b, subset a b = true <-> (forall x, In x a -> In x b).
Proof. exact subset_spec. Qed.
Print Assumptions C17_subset_meaning.

(* the fluid's name round-trips: every FluidType member is recognised by its own name (the user's string, upper-cased) and stored as
   itself, and to_input writes the stored member's name; no other string is recognised; every member reads property tables of its own;
   concentration and temperature are written from what was stored and handed on unchanged by set_fluid (lists regenerated from media.py
   and manager.py on every run) *)
Theorem C17_fluid_name_round_trips : forall n, In n FluidType_names -> assoc n fluid_name_chain = Some n.
Proof. exact fluid_name_round_trip. Qed.
Print Assumptions C17_fluid_name_round_trips.

Theorem C17_fluid_tables_complete_and_distinct :
  map fst fluid_name_chain = FluidType_names /\ map fst fluid_mixture_codes = FluidType_names /\
  nodup_str (map snd fluid_mixture_codes) = true /\
  assoc "fluid_name" fluid_written_values = Some "self.fluid_type.name"%string /\
  assoc "concentration_percent" fluid_written_values = Some "self.concentration_percent"%string /\
  assoc "temperature" fluid_written_values = Some "self.temperature"%string /\
  fluid_super_init_args = ["pos:fluid_map[fluid_str]"; "pos:percent"; "pos:temperature"]%string /\
  wiring_set_fluid = ["fluid_str=fluid_name"; "percent=concentration_percent"; "temperature=temperature"]%string.
Proof. exact fluid_tables. Qed.
Print Assumptions C17_fluid_tables_complete_and_distinct.
