(* Props/C17.v — property theorems only.  C17: written input files are schema-valid (at the level of keys) and loadable. *)
From Coq Require Import ZArith String List Bool.
From GHE Require Import Base.QUtil gen.Src Model.InputIO Proof.InputIOP.
Import ListNotations.

(* for EVERY configuration shape (6 geometries x 4 pipe types x optional keys): the keys the tool writes (regenerated from
   to_input()/write_input_file) contain every key its own schemas require and none the schemas forbid *)
Theorem C17_written_keys_satisfy_schemas : forall s : shape, shape_valid s = true.
Proof. exact write_keys_valid. Qed.
Print Assumptions C17_written_keys_satisfy_schemas.

(* and the command-line loader (regenerated from _run_manager_from_cli_worker) finds every key it reads and consumes every key written *)
Theorem C17_loader_reads_what_is_written : forall s : shape, shape_loadable s = true.
Proof. exact write_keys_loadable. Qed.
Print Assumptions C17_loader_reads_what_is_written.

Theorem C17_subset_meaning : forall a b, subset a b = true <-> (forall x, In x a -> In x b).
Proof. exact subset_spec. Qed.
Print Assumptions C17_subset_meaning.
