(* Props/C16.v — property theorems only.  C16: the point-in-polygon classification is the crossing number. *)
From Coq Require Import ZArith QArith List.
From GHE Require Import Base.QUtil gen.Src Model.Polygon Proof.PolygonP.
Import ListNotations.
Open Scope Q_scope.

(* one edge of the loop (leaf expressions `between` and the cross product are regenerated from shape.py):
   it flips exactly when the edge's half-open y-range contains the point and the crossing lies strictly to the right;
   it reports on-edge exactly when the crossing abscissa equals the point's *)
Theorem C16_edge_step : forall px py x1 y1 x2 y2,
  match edge_step (px, py) ((x1, y1), (x2, y2)) with
  | Flip => in_range py y1 y2 /\ px < xint py x1 y1 x2 y2
  | Skip => ~ (in_range py y1 y2 /\ px <= xint py x1 y1 x2 y2)
  | OnEdge => in_range py y1 y2 /\ px == xint py x1 y1 x2 y2
  end.
Proof. exact edge_step_spec. Qed.
Print Assumptions C16_edge_step.

(* every vertex list, every point not carried by an edge: the loop returns the crossing-number parity *)
Theorem C16_rays_are_crossing_number : forall poly p,
  (forall e, In e (edges poly) -> edge_step p e <> OnEdge) -> ppc_rays poly p = crossing_spec poly p.
Proof. exact ppc_rays_eq_spec. Qed.
Print Assumptions C16_rays_are_crossing_number.

(* whatever the loop reports on-edge really lies on that edge's line within its y-range *)
Theorem C16_on_edge_sound : forall p es inside, rays p es inside = 0%Z -> exists e, In e es /\ edge_step p e = OnEdge.
Proof. exact rays_on_edge_sound. Qed.
Print Assumptions C16_on_edge_sound.

(* the reference does not depend on where the vertex list starts nor on its orientation *)
Theorem C16_start_vertex_irrelevant : forall a l p, l <> [] -> crossing_spec (l ++ [a]) p = crossing_spec (a :: l) p.
Proof. exact crossing_rotate. Qed.
Print Assumptions C16_start_vertex_irrelevant.
Theorem C16_orientation_irrelevant : forall v p, crossing_spec (rev v) p = crossing_spec v p.
Proof. exact crossing_reverse. Qed.
Print Assumptions C16_orientation_irrelevant.

Example C16_nonvacuous : ppc [(0,0); (4,0); (4,4); (0,4)] (1, 2) = 1%Z /\ ppc [(0,0); (4,0); (4,4); (0,4)] (4, 2) = 0%Z
                         /\ ppc [(0,0); (4,0); (4,4); (0,4)] (5, 4) = (-1)%Z.
Proof. vm_compute. auto. Qed.
