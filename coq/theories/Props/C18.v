(* Props/C18.v — property theorems only.  C18: command-line exit status and validation verdict. *)
From Coq Require Import ZArith List Bool String.
From GHE Require Import Model.Cli Proof.CliP.

Theorem C18_exit0_only_if_output : forall a v idf w, exit_code (cli a v idf w) = 0 ->
  outputs_written (cli a v idf w) = true \/ (validate_only a = true /\ accepted v = true) \/
  (validate_only a = false /\ convert a = ConvertIDF /\ idf = true).
Proof. exact exit0_only_if_output. Qed.
Print Assumptions C18_exit0_only_if_output.
Theorem C18_invalid_nonzero : forall a v idf w, convert a = NoConvert -> accepted v = false -> exit_code (cli a v idf w) <> 0.
Proof. exact invalid_nonzero. Qed.
Print Assumptions C18_invalid_nonzero.
Theorem C18_unsupported_nonzero : forall a v idf w, validate_only a = false -> convert a = ConvertOther -> exit_code (cli a v idf w) <> 0.
Proof. exact unsupported_nonzero. Qed.
Print Assumptions C18_unsupported_nonzero.
Theorem C18_no_output_dir_nonzero : forall a v idf w, validate_only a = false -> convert a = NoConvert -> has_outdir a = false ->
  exit_code (cli a v idf w) <> 0.
Proof. exact no_output_dir_nonzero. Qed.
Print Assumptions C18_no_output_dir_nonzero.
Theorem C18_no_design_nonzero : forall a v idf, validate_only a = false -> convert a = NoConvert -> exit_code (cli a v idf Raised) <> 0.
Proof. exact no_design_nonzero. Qed.
Print Assumptions C18_no_design_nonzero.
Theorem C18_accept_iff_all_sections : forall v, accepted v = true <-> forall b, In b v -> b = true.
Proof. exact accept_iff_all_sections. Qed.
Print Assumptions C18_accept_iff_all_sections.
Theorem C18_verdict_case_insensitive : forall s t, recased s t -> upper s = upper t.
Proof. exact verdict_case_insensitive. Qed.
Print Assumptions C18_verdict_case_insensitive.
