(* Props/C19.v — property theorems only.  C19: output tables label time correctly. *)
From Coq Require Import ZArith QArith List String.
From GHE Require Import Base.QUtil gen.Src Model.OutputTime Proof.OutputTimeP Proof.OutputTimeSpecP Proof.H2MGenP Proof.TablesP Model.GJoin.
Import ListNotations.
Open Scope Q_scope.

(* every hour of the year 0..8759 (complete finite domain), on the function REGENERATED from output.py:
   the (month, day, hour) label is integral, in calendar range, and decodes back to the hour index *)
Theorem C19_convert_is_calendar : forall h : Z, (0 <= h < 8760)%Z ->
  exists mz dz hz : Z,
    let '(m, d, hr) := ghe_time_convert (inject_Z h) in
    m == inject_Z mz /\ d == inject_Z dz /\ hr == inject_Z hz /\
    (1 <= mz <= 12)%Z /\ (1 <= dz <= nth (Z.to_nat (mz - 1)) cal_days 0)%Z /\ (1 <= hz <= 24)%Z /\
    (h = cal_cum (Z.to_nat (mz - 1)) + 24 * (dz - 1) + (hz - 1))%Z.
Proof. exact convert_is_calendar. Qed.
Print Assumptions C19_convert_is_calendar.

(* elapsed hours -> fractional months, on the function REGENERATED from output.py, for EVERY rational hour count:
   it is the calendar conversion (year n, month k the first with r <= cum(k+1), value 12 n + k + (r - cum k)/hours k) *)
Theorem C19_hours_to_month_is_calendar_conversion : forall h : Q, hours_to_month h == h2m_spec h.
Proof. exact hours_to_month_is_spec. Qed.
Print Assumptions C19_hours_to_month_is_calendar_conversion.

(* monotone and 1/672-Lipschitz (hence continuous), every pair of rational hour counts *)
Theorem C19_hours_to_month_monotone_continuous : forall h1 h2 : Q, h1 <= h2 ->
  0 <= hours_to_month h2 - hours_to_month h1 /\ hours_to_month h2 - hours_to_month h1 <= (h2 - h1) / 672.
Proof. exact gen_h2m_lipschitz. Qed.
Print Assumptions C19_hours_to_month_monotone_continuous.

(* month ends are integers: in every year n, at the end of month k the value is 12 n + k *)
Theorem C19_hours_to_month_month_ends : forall (n : Z) (k : nat), (1 <= k <= 12)%nat ->
  hours_to_month (inject_Z (8760 * n + cal_cum k)) == inject_Z (12 * n + Z.of_nat k).
Proof. exact gen_h2m_month_end. Qed.
Print Assumptions C19_hours_to_month_month_ends.

(* non-vacuity: hour 1416 is 1 March 01:00 *)
Example C19_nonvacuous : ghe_time_convert 1416 = (3, 1, 1).
Proof. vm_compute. reflexivity. Qed.

(* the hourly loads table, row builder REGENERATED from output.py (get_hourly_loading_data): for EVERY load list, one row per input hour,
   in order; row k carries the label of hour k (the regenerated ghe_time_convert, characterised by C19_convert_is_calendar), the index k and
   the k-th input load unchanged *)
Theorem C19_hourly_table_echoes_loads : forall loads : list Q,
  List.length (hourly_table_rows loads) = List.length loads /\
  forall k, (k < List.length loads)%nat ->
    nth k (hourly_table_rows loads) [] = (let '(m, d, h) := ghe_time_convert (natQ k) in [m; d; h; natQ k; nth k loads 0]).
Proof. exact hourly_table_echo. Qed.
Print Assumptions C19_hourly_table_echoes_loads.

(* the bore-field table, row builder REGENERATED from output.py (get_borehole_location_data; it iterates over
   design.ghe.gFunction.bore_locations, pinned below): exactly the coordinates it is given, in order, nothing added or dropped *)
Theorem C19_bore_table_lists_the_coordinates : forall coords : list (Q * Q),
  bore_table_rows coords = map (fun p => [fst p; snd p]) coords.
Proof. exact bore_table_echo. Qed.
Print Assumptions C19_bore_table_lists_the_coordinates.
Example C19_bore_table_source_pinned : bore_table_rows_source = "design.ghe.gFunction.bore_locations"%string.
Proof. reflexivity. Qed.

(* the g-function table, row loop REGENERATED from output.py (get_g_function_data); its three columns are the .x / .y of the two interpolants
   returned by grab_g_function — the curve used in the simulation — which is pinned as source text below.  For EVERY curve (equal-length columns, as
   interp1d guarantees): one row per point, the columns are exactly x, y and y_bhw in order, so the time column is strictly increasing whenever the
   curve's axis is (which C11_combine_axis proves for the joined axis) *)
Theorem C19_g_table_rows_are_the_curve : forall x y z : list Q, List.length y = List.length x -> List.length z = List.length x ->
  column 0 (g_table_rows x y z) = x /\ column 1 (g_table_rows x y z) = y /\ column 2 (g_table_rows x y z) = z /\
  List.length (g_table_rows x y z) = List.length x /\ Forall (fun r => List.length r = 3%nat) (g_table_rows x y z).
Proof. exact g_table_columns. Qed.
Print Assumptions C19_g_table_rows_are_the_curve.
Theorem C19_g_table_time_strictly_increasing : forall x y z : list Q, List.length y = List.length x -> List.length z = List.length x ->
  strictly_increasing x -> strictly_increasing (column 0 (g_table_rows x y z)).
Proof. exact g_table_time_increasing. Qed.
Print Assumptions C19_g_table_time_strictly_increasing.
Example C19_g_table_sources_pinned : g_table_rows_sources =
  ["gf_adjusted, gf_bhw_adjusted = design.ghe.grab_g_function(design.ghe.B_spacing / float(design.ghe.bhe.b.H))"; "gf_log_vals = gf_adjusted.x";
   "gf_g_vals = gf_adjusted.y"; "gf_bhw_g_vals = gf_bhw_adjusted.y"]%string.
Proof. reflexivity. Qed.
