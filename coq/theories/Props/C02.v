(* Props/C02.v — property theorems only.  C02: height bounds, borehole cap, unmet-design policy, exception discipline. *)
From Coq Require Import ZArith QArith Qabs List.
From GHE Require Import Base.QUtil gen.Src Model.Search Proof.SearchP.
From GHE Require Import Model.RowSearch Proof.RowSearchP Proof.DomainsP.
Import ListNotations.
Open Scope Z_scope.

(* the returned height lies in [min_height, max_height] whatever the objective does
   (premise: scipy's brentq returns a point of the bracket) *)
Theorem C02_height_in_bounds :
  forall (f : Q -> Q) (lo hi b H : Q), solve_root f lo hi b = Ok H -> (lo <= hi)%Q -> (lo <= b <= hi)%Q -> (lo <= H <= hi)%Q.
Proof. exact solve_root_in_bounds. Qed.
Print Assumptions C02_height_in_bounds.

(* the borehole cap: for non-decreasing counts the selected field has fewer boreholes than max_boreholes *)
Theorem C02_cap :
  forall cnt cap cont it e o c, search1d cnt cap cont it e = Ok o -> cap = Some c ->
  (forall a b, 0 <= a <= b -> b < lenZ cnt -> nthZ cnt a <= nthZ cnt b) -> nthZ cnt (sel o) < c.
Proof. exact cap_respected. Qed.
Print Assumptions C02_cap.

(* unmet design, loads too large: every tested end is infeasible -> ValueError, or with `continue`
   the largest allowed candidate at maximum height *)
Theorem C02_unmet_too_large :
  forall cnt cap cont it e xr, upper_idx cnt cap = Some xr ->
  (0 < e 0%Z Hmin)%Q -> (0 < e 0%Z Hmax)%Q -> (0 < e xr Hmax)%Q ->
  match search1d cnt cap cont it e with
  | Ok o => cont = true /\ sel o = xr /\ init_h o = Hmax /\ escaped o = true
  | Err x => cont = false /\ x = ValueError
  end.
Proof. exact unmet_too_large. Qed.
Print Assumptions C02_unmet_too_large.

(* loads too small: ValueError, or with `continue` the smallest candidate at minimum height *)
Theorem C02_unmet_too_small :
  forall cnt cap cont it e xr, upper_idx cnt cap = Some xr ->
  (e 0%Z Hmin < 0)%Q -> (e 0%Z Hmax < 0)%Q -> (e xr Hmax < 0)%Q ->
  match search1d cnt cap cont it e with
  | Ok o => cont = true /\ sel o = 0 /\ init_h o = Hmin /\ escaped o = true
  | Err x => cont = false /\ x = ValueError
  end.
Proof. exact unmet_too_small. Qed.
Print Assumptions C02_unmet_too_small.

(* conversely the escape is taken only in those two situations and only when the user asked to continue *)
Theorem C02_escape_only_when_unmet :
  forall cnt cap cont it e o, search1d cnt cap cont it e = Ok o -> escaped o = true ->
  cont = true /\ exists xr, upper_idx cnt cap = Some xr /\
  (((e 0%Z Hmin < 0 /\ e 0%Z Hmax < 0 /\ e xr Hmax < 0)%Q /\ sel o = 0 /\ init_h o = Hmin) \/
   ((0 < e 0%Z Hmin /\ 0 < e 0%Z Hmax /\ 0 < e xr Hmax)%Q /\ sel o = xr /\ init_h o = Hmax)).
Proof. exact escaped_only_when_unmet. Qed.
Print Assumptions C02_escape_only_when_unmet.

(* after the escape the final sizing clamps: all-negative objective -> min height, all-positive -> max height *)
Theorem C02_unmet_heights :
  forall (f : Q -> Q) (lo hi b H : Q), solve_root f lo hi b = Ok H ->
  ((f lo < 0 /\ f hi < 0)%Q -> H = lo) /\ ((0 < f lo /\ 0 < f hi)%Q -> H = hi).
Proof. exact unmet_heights. Qed.
Print Assumptions C02_unmet_heights.

(* exception discipline: with an admissible upper index and no excess value exactly zero, the search either selects
   a candidate or raises ValueError; the sizing step can only fail on an exactly-zero objective *)
Theorem C02_only_value_error :
  forall cnt cap cont it e x, search1d cnt cap cont it e = Err x ->
  (forall k h, nz (e k h)) -> upper_idx cnt cap <> None -> x = ValueError.
Proof. exact only_value_error. Qed.
Print Assumptions C02_only_value_error.

Theorem C02_size_only_fails_on_zero :
  forall f lo hi b x, solve_root f lo hi b = Err x -> x = ZeroDivisionError /\ ((f lo == 0)%Q \/ (f hi == 0)%Q).
Proof. exact solve_root_only_zero_division. Qed.
Print Assumptions C02_size_only_fails_on_zero.

(* bi-zoned / polygon-constrained searches (BisectionZD): when no field of the chosen list meets the limits, the field returned by that
   list's own search is kept — which, by C02_unmet_too_large / C02_escape_only_when_unmet on that search, is the largest allowed
   candidate and exists only if the user asked to continue — and every candidate it evaluated at maximum height fails *)
Theorem C02_ZD_escape_keeps_the_inner_selection :
  forall nested cap cont it e drill z, searchZD nested cap cont it e drill = Ok z -> zd_escaped z = true ->
  exists o, search1d (nthZ nested (zd_outer z)) cap cont it (e (zd_outer z)) = Ok o /\ zd_sel z = sel o /\
            forall k v, In (k, v) (calc_out o) -> (0 < v)%Q.
Proof. exact searchZD_escape. Qed.
Print Assumptions C02_ZD_escape_keeps_the_inner_selection.

(* ---- the RowWise design search (Model/RowSearch.rw_search, tied to RowWiseModifiedBisectionSearch.search by the stub-oracle
   correspondence of this check): for EVERY generator / excess / sizing oracle, spacing window, step and iteration limit *)
Theorem C02_rowwise_only_value_error :
  forall o st sp stp cont it x, rw_search true o st sp stp cont it = Err x -> x = ValueError.
Proof. exact rw_only_value_error. Qed.
Print Assumptions C02_rowwise_only_value_error.

Theorem C02_rowwise_unmet_is_error :
  forall o st sp stp cont it, (0 < o_gen_excess o st)%Q -> (0 < o_gen_excess o sp)%Q -> cont = false ->
  rw_search true o st sp stp cont it = Err ValueError.
Proof. exact rw_unmet_is_error. Qed.
Print Assumptions C02_rowwise_unmet_is_error.

Theorem C02_rowwise_escape_only_when_unmet :
  forall o st sp stp cont it r, rw_search true o st sp stp cont it = Ok r -> rw_escaped r = true ->
  cont = true /\ (0 < o_gen_excess o st)%Q /\ (0 < o_gen_excess o sp)%Q /\ rw_sel r = PGen st.
Proof. exact rw_escape_only_when_unmet. Qed.
Print Assumptions C02_rowwise_escape_only_when_unmet.

(* a design is a field together with the specifier that names it *)
Theorem C02_rowwise_specifier_names_selection :
  forall o st sp stp cont it r, rw_search true o st sp stp cont it = Ok r -> rw_spec r = Some (rw_sel r).
Proof. exact rw_specifier_names_selection. Qed.
Print Assumptions C02_rowwise_specifier_names_selection.

(* the code before the two fix commits (fixed = false) is refuted on both counts: nothing selected -> TypeError; no specifier *)
Theorem C02_rowwise_old_code_refuted :
  rw_search false o_old1 5 10 1 false 10 = Err TypeError /\
  (exists r, rw_search false o_old2 5 10 (5 # 4) false 3 = Ok r /\ rw_spec r = None).
Proof. exact (conj rw_old_none_selected rw_old_no_specifier). Qed.
Print Assumptions C02_rowwise_old_code_refuted.

(* "the largest allowed candidate": the near-square candidate list (ring count regenerated from design.py on every run) ends with the
   largest square grid that fits the side - it fits, and one more ring would not *)
Theorem C02_near_square_largest_candidate : forall length b : Q, (0 < b)%Q ->
  ((near_square_n length b - 1) * b <= length)%Q /\ (length < near_square_n length b * b)%Q.
Proof. intros length b Hb; split; [exact (near_square_fits length b Hb) | exact (near_square_largest length b Hb)]. Qed.
Print Assumptions C02_near_square_largest_candidate.

(* non-vacuity *)
Example C02_nonvacuous_large :
  search1d [1; 4; 9] (Some 5) false 15 (fun _ _ => 3%Q) = Err ValueError /\ upper_idx [1; 4; 9] (Some 5) = Some 1.
Proof. vm_compute. auto. Qed.
