(* Props/C10.v — property theorems only.  C10: the short-time radial g-function is conservative and physically consistent. *)
From Coq Require Import ZArith QArith List.
From GHE Require Import Base.QUtil Model.Radial Proof.RadialP.
Import ListNotations.
Open Scope Q_scope.

(* every mesh size, every positive capacity set, every conductance set, ANY solution of one implicit step:
   heat stored in the cells = heat injected - heat passed on to the fixed far-field cell *)
Theorem C10_step_conserves : forall (n : nat) (cond cap told x : nat -> Q) (q : Q),
  (forall i, 0 < cap i) ->
  ((0 < n)%nat -> (1 + cond 0%nat / cap 0%nat) * x 0%nat - cond 0%nat / cap 0%nat * x 1%nat == told 0%nat + q / cap 0%nat) ->
  (forall i, (0 < i < n)%nat -> - (cond (i - 1)%nat / cap i) * x (i - 1)%nat + (1 + cond (i - 1)%nat / cap i + cond i / cap i) * x i - cond i / cap i * x (S i) == told i) ->
  (0 < n)%nat -> stored cap told x n == q - cond (n - 1)%nat * (x (n - 1)%nat - x n).
Proof. intros n cond cap told x q P R0 Ri Hn. exact (step_conserves n cond cap told x q P R0 Ri Hn). Qed.
Print Assumptions C10_step_conserves.

(* discrete minimum principle *)
Theorem C10_step_positive : forall (n : nat) (cond cap told x : nat -> Q) (q : Q),
  (forall i, 0 < cap i) -> (forall i, 0 <= cond i) ->
  ((0 < n)%nat -> (1 + cond 0%nat / cap 0%nat) * x 0%nat - cond 0%nat / cap 0%nat * x 1%nat == told 0%nat + q / cap 0%nat) ->
  (forall i, (0 < i < n)%nat -> - (cond (i - 1)%nat / cap i) * x (i - 1)%nat + (1 + cond (i - 1)%nat / cap i + cond i / cap i) * x i - cond i / cap i * x (S i) == told i) ->
  x n == told n -> 0 <= q -> (forall i, (i <= n)%nat -> 0 <= told i) -> forall i, (i <= n)%nat -> 0 <= x i.
Proof. exact step_positive. Qed.
Print Assumptions C10_step_positive.

(* the response never decreases in time and never falls below the initial state (hence g non-decreasing, g_bhw >= 0) *)
Theorem C10_march_nondecreasing : forall (n : nat) (cond cap : nat -> Q) (T : nat -> nat -> Q) (init q : Q),
  (forall i, 0 < cap i) -> (forall i, 0 <= cond i) -> 0 <= q ->
  (forall i, T 0%nat i == init) -> (forall k, solves n cond cap (T k) (T (S k)) q) ->
  forall k i, (i <= n)%nat -> T k i <= T (S k) i.
Proof. exact march_nondecreasing. Qed.
Print Assumptions C10_march_nondecreasing.
Theorem C10_march_above_initial : forall (n : nat) (cond cap : nat -> Q) (T : nat -> nat -> Q) (init q : Q),
  (forall i, 0 < cap i) -> (forall i, 0 <= cond i) -> 0 <= q ->
  (forall i, T 0%nat i == init) -> (forall k, solves n cond cap (T k) (T (S k)) q) ->
  forall k i, (i <= n)%nat -> init <= T k i.
Proof. exact march_above_initial. Qed.
Print Assumptions C10_march_above_initial.
Theorem C10_g_lower_bound : forall c0 rb q init t0, 0 < q -> 0 <= c0 -> init <= t0 -> - c0 * rb <= g_value c0 rb q init t0.
Proof. exact g_lower_bound. Qed.
Print Assumptions C10_g_lower_bound.
Theorem C10_g_bhw_nonneg : forall c0 q init tw, 0 < q -> 0 <= c0 -> init <= tw -> 0 <= g_bhw_value c0 q init tw.
Proof. exact g_bhw_nonneg. Qed.
Print Assumptions C10_g_bhw_nonneg.

(* geometry: cells tile each region, regions end where the next begins, the fluid cells hold the fluid's thermal mass,
   the convection + pipe/grout layers add up to the effective borehole resistance *)
Theorem C10_cells_tile : forall r0 thick j, cell_out r0 thick j == cell_in r0 thick (S j).
Proof. exact cells_tile. Qed.
Print Assumptions C10_cells_tile.
Theorem C10_region_ends : forall r0 thick (count : nat) r1, ~ natQ count == 0 -> thick == (r1 - r0) / natQ count -> cell_in r0 thick count == r1.
Proof. exact region_ends. Qed.
Print Assumptions C10_region_ends.
Theorem C10_fluid_thermal_mass : forall pi_ r_fluid r_conv r_p_in c_f thick (count : nat),
  cell_in r_fluid thick count == r_conv -> ~ r_conv * r_conv - r_fluid * r_fluid == 0 ->
  (2 * (r_p_in * r_p_in) * c_f / (r_conv * r_conv - r_fluid * r_fluid)) * region_vol pi_ r_fluid thick count == 2 * pi_ * (r_p_in * r_p_in) * c_f.
Proof. exact fluid_thermal_mass. Qed.
Print Assumptions C10_fluid_thermal_mass.
Theorem C10_layers_sum_to_Rb : forall two_pi L1 L2 Rb Rf, ~ L1 == 0 -> ~ L2 == 0 -> ~ two_pi == 0 -> ~ Rf / 2 == 0 -> ~ Rb - Rf / 2 == 0 ->
  L1 / (two_pi * (L1 / (two_pi * (Rf / 2)))) + L2 / (two_pi * (L2 / (two_pi * (Rb - Rf / 2)))) == Rb.
Proof. exact layers_sum_to_Rb. Qed.
Print Assumptions C10_layers_sum_to_Rb.
