(* Props/C09.v — property theorems only.  C09: simulated fluid temperatures equal the documented temporal superposition. *)
From Coq Require Import ZArith QArith List.
From GHE Require Import Base.QUtil Model.Superpos Proof.SuperposP.
From GHE Require Import gen.Src Proof.HourlySeqP.
Import ListNotations.
Open Scope Q_scope.

(* every load sequence, every kernel, every step: the model of _simulate_detailed equals
   Tg + sum_i (q_i - q_(i-1)) K(n,i-1) / (2 pi k H N) + q_n Rb/(H N) - q_n/(2 mdot cp N) *)
Theorem C09_sim_eq_formula : forall s K q n, (1 <= n <= length q)%nat ->
  ~ nbh s == 0 -> ~ Hh s == 0 -> ~ two_pi_k s == 0 -> ~ mdot s == 0 -> ~ cp s == 0 ->
  fst (step s K q n) == formula s K q n.
Proof. exact sim_eq_formula. Qed.
Print Assumptions C09_sim_eq_formula.

Theorem C09_zero_load_is_Tg : forall s K q n, (1 <= n <= length q)%nat -> (forall k, nth k q 0 == 0) ->
  ~ nbh s == 0 -> ~ Hh s == 0 -> ~ two_pi_k s == 0 -> ~ mdot s == 0 -> ~ cp s == 0 ->
  fst (step s K q n) == Tg s.
Proof. exact zero_load_is_Tg. Qed.
Print Assumptions C09_zero_load_is_Tg.

Theorem C09_linear_in_load : forall s K q c n, (1 <= n <= length q)%nat ->
  ~ nbh s == 0 -> ~ Hh s == 0 -> ~ two_pi_k s == 0 -> ~ mdot s == 0 -> ~ cp s == 0 ->
  formula s K (map (Qmult c) q) n - Tg s == c * (formula s K q n - Tg s).
Proof. exact linear_in_load. Qed.
Print Assumptions C09_linear_in_load.

Theorem C09_shift_in_Tg : forall s K q n d,
  formula {| nbh := nbh s; Hh := Hh s; two_pi_k := two_pi_k s; Tg := Tg s + d; Rb := Rb s; mdot := mdot s; cp := cp s |} K q n
  == formula s K q n + d.
Proof. exact shift_in_Tg. Qed.
Print Assumptions C09_shift_in_Tg.

(* rejection raises the temperature (extraction lowers it, by linearity with c = -1); the side condition
   Rb/H >= 1/(2 mdot cp) and the kernel's sign and monotonicity are explicit *)
Theorem C09_rejection_raises : forall s K q n, (1 <= n <= length q)%nat ->
  0 < nbh s -> 0 < Hh s -> 0 < two_pi_k s -> 0 < mdot s -> 0 < cp s ->
  (forall k, 0 <= nth k q 0) ->
  (forall i k, (k < i)%nat -> 0 <= K i k) -> (forall i k, (S k < i)%nat -> K i (S k) <= K i k) ->
  1 / (2 * mdot s * cp s) <= Rb s / Hh s ->
  Tg s <= formula s K q n.
Proof. exact rejection_raises. Qed.
Print Assumptions C09_rejection_raises.

(* the hourly method, on the expressions REGENERATED from GHE.simulate: for every horizon of m months and every year of 8760 loads the
   sequence that is superposed has 730 m steps, step i carrying load (i mod 8760) of the year (the year repeated end to end and cut at the
   end of the horizon) — so that the formula above is applied to the load sequence the property names *)
Theorem C09_hourly_sequence_is_the_year_repeated : forall (year : list Q) (m : nat),
  Z.of_nat (length year) = 8760%Z -> (1 <= m)%nat ->
  let nh := hourly_n_hours (natQ m) in
  let q := hourly_tile year (hourly_n_years nh) nh in
  Z.of_nat (length q) = (730 * Z.of_nat m)%Z /\
  forall i : nat, (Z.of_nat i < 730 * Z.of_nat m)%Z -> nth i q 0 = nth (Z.to_nat (Z.of_nat i mod 8760)) year 0.
Proof. exact hourly_sequence_is_the_year_repeated. Qed.
Print Assumptions C09_hourly_sequence_is_the_year_repeated.

Example C09_nonvacuous :
  let s := {| nbh := 4; Hh := 100; two_pi_k := 12; Tg := 18; Rb := 1 # 5; mdot := 1 # 2; cp := 4000 |} in
  fst (step s (fun i k => inject_Z (Z.of_nat (i - k))) [4000; 8000] 2) == formula s (fun i k => inject_Z (Z.of_nat (i - k))) [4000; 8000] 2.
Proof. vm_compute. reflexivity. Qed.
