(* Props/C05.v — property theorems only.  C05: the design is not oversized. *)
From Coq Require Import ZArith QArith Qabs List.
From GHE Require Import Base.QUtil gen.Src Model.Search Proof.SearchP Proof.WiringP.
Import ListNotations.
Open Scope Z_scope.

(* (b) every bisection search (1-D; 2-D and ZD run this search on their chosen list): for EVERY excess oracle, every
   count list whose first entry is the smallest, every cap and policy — the selected count is no larger than the count
   of any candidate the search evaluated and found to meet the limits at maximum height.  Hypothesis: evaluated excess
   values are pairwise different (the code looks the field up by value; see C05_ties_refuted). *)
Theorem C05_no_larger_than_evaluated :
  forall (cnt : list Z) (cap : option Z) (cont : bool) (it : nat) (e : oracle) (o : search_out),
  search1d cnt cap cont it e = Ok o -> escaped o = false -> distinct_values (calc_out o) ->
  (forall j, 0 <= j < lenZ cnt -> nthZ cnt 0 <= nthZ cnt j) ->
  forall j, In (j, e j Hmax) (calc_out o) -> (e j Hmax < 0)%Q -> nthZ cnt (sel o) <= nthZ cnt j.
Proof. exact no_larger_than_evaluated. Qed.
Print Assumptions C05_no_larger_than_evaluated.

(* (c) near-square / rectangle / bi-rectangle lists (strictly increasing counts, C03): if the smallest field fails and
   the largest allowed one passes at maximum height, and the list is not longer than 2^max_iter, the selected candidate
   passes, its immediate predecessor WAS EVALUATED and fails, and no evaluated passing candidate is smaller *)
Theorem C05_first_feasible :
  forall (cnt : list Z) (cap : option Z) (cont : bool) (it : nat) (e : oracle) (o : search_out) (xr : Z),
  search1d cnt cap cont it e = Ok o -> upper_idx cnt cap = Some xr -> escaped o = false -> distinct_values (calc_out o) ->
  (forall a b, 0 <= a < b -> b <= xr -> nthZ cnt a < nthZ cnt b) ->
  (0 < e 0%Z Hmax)%Q -> (e xr Hmax < 0)%Q -> (0 < e 0%Z Hmin)%Q -> xr <= 2 ^ Z.of_nat it ->
  (e (sel o) Hmax < 0)%Q /\ In (sel o - 1) (keys (calc_out o)) /\ (0 < e (sel o - 1)%Z Hmax)%Q /\
  (forall j, In j (keys (calc_out o)) -> (e j Hmax < 0)%Q -> sel o <= j).
Proof. intros. eapply first_feasible; eauto. Qed.
Print Assumptions C05_first_feasible.

(* the loop stops on adjacent candidates whenever the list fits in 2^max_iter (max_iter is read from the source: 15) *)
Theorem C05_bisect_adjacent :
  forall fuel nd e ls l r i calc tr l' r' i' calc' tr',
  l < r -> bis_loop fuel nd e ls l r i calc tr = Ok (l', r', i', calc', tr') ->
  l <= l' /\ l' < r' /\ r' <= r /\ i <= i' /\ (i' - i) + (r' - l') <= r - l /\ (r - l <= 2 ^ Z.of_nat fuel -> r' = l' + 1).
Proof. intros; eapply bis_loop_bounds; eauto. Qed.
Print Assumptions C05_bisect_adjacent.

Theorem C05_max_iter_from_source : Qnat max_iter_1d = 15%nat.
Proof. exact max_iter_1d_val. Qed.
Print Assumptions C05_max_iter_from_source.

(* the call sites in design.py (read on every run): no design class passes its search a tolerance or an iteration cap *)
Theorem C05_no_design_overrides_the_search_limits :
  forallb (fun l => negb (overrides l))
    [wiring_nearsquare_search; wiring_rectangle_search; wiring_birectangle_search;
     wiring_bizoned_search; wiring_constrained_search; wiring_rowwise_search] = true.
Proof. exact no_search_overrides. Qed.
Print Assumptions C05_no_design_overrides_the_search_limits.

(* (a) the returned height: brentq's answer when the end signs differ, otherwise the bracket end *)
Theorem C05_root :
  forall (f : Q -> Q) (lo hi b H : Q), solve_root f lo hi b = Ok H ->
  (((f lo < 0 /\ 0 < f hi) \/ (f hi < 0 /\ 0 < f lo)) /\ H = b)%Q \/
  ((f lo < 0 /\ f hi < 0)%Q /\ H = lo) \/ ((0 < f lo /\ 0 < f hi)%Q /\ H = hi).
Proof. exact solve_root_cases. Qed.
Print Assumptions C05_root.

(* ZD (bi-zoned, polygon-constrained): the field finally selected was evaluated in the chosen list and passes at max height *)
Theorem C05_ZD_selected_evaluated_feasible :
  forall nested cap cont it e drill z, searchZD nested cap cont it e drill = Ok z -> zd_escaped z = false ->
  exists o v, search1d (nthZ nested (zd_outer z)) cap cont it (e (zd_outer z)) = Ok o /\
              In (zd_sel z, v) (calc_out o) /\ (v <= 0)%Q /\ v = e (zd_outer z) (zd_sel z) Hmax.
Proof. exact searchZD_selected. Qed.
Print Assumptions C05_ZD_selected_evaluated_feasible.

(* without the distinct-values hypothesis (b) is false of the faithful model: two evaluated candidates with EQUAL
   excess — the later-inserted smaller one loses to the earlier-inserted larger one (lookup by value) *)
Definition tie_cnt : list Z := [1; 2; 3; 4; 5].
Definition tie_e : oracle := fun k h => match h with Hmin => 10%Q | Hmax =>
  nthZ [5; 4; (-1); 3; (-1)]%Q k end.
Theorem C05_ties_refuted :
  exists o, search1d tie_cnt None false 15 tie_e = Ok o /\ escaped o = false /\
            In (2, tie_e 2 Hmax) (calc_out o) /\ (tie_e 2%Z Hmax < 0)%Q /\ nthZ tie_cnt 2 < nthZ tie_cnt (sel o).
Proof. eexists. split; [vm_compute; reflexivity|]. vm_compute. repeat split; auto. Qed.
Print Assumptions C05_ties_refuted.

(* non-vacuity: a 6-candidate list with the threshold in the middle meets every hypothesis of (b) and (c) *)
Definition ex_cnt : list Z := [1; 2; 4; 6; 9; 12].
Definition ex_e : oracle := fun k h => match h with Hmin => 20%Q | Hmax => nthZ [7; 5; 3; (-1); (-2); (-4)]%Q k end.
Example C05_nonvacuous :
  exists o, search1d ex_cnt None false 15 ex_e = Ok o /\ sel o = 3 /\ escaped o = false /\
            upper_idx ex_cnt None = Some 5 /\ map fst (calc_out o) = [0; 5; 3; 2].
Proof. eexists. split; [vm_compute; reflexivity|]. vm_compute. auto. Qed.
