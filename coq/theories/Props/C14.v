(* Props/C14.v — property theorems only.  C14 (partial): the exact-arithmetic core of RowWise on convex lots.
   NOT covered by any theorem: trigonometric float evaluation, termination of the tolerance-driven float loops,
   the no-go / perimeter machinery.  Those clauses are observed on the implementation with a wall-clock limit. *)
From Coq Require Import ZArith QArith Qround List.
From GHE Require Import Base.QUtil Model.RowCore Proof.RowCoreP.
Import ListNotations.
Open Scope Q_scope.

Theorem C14_row_spacing_ge_target_partial : forall d y, 0 < y -> y <= d ->
  (1 <= num_rows d y)%Z /\ y <= row_step d y /\ row_step d y < 2 * y.
Proof. exact row_spacing_ge_target. Qed.
Print Assumptions C14_row_spacing_ge_target_partial.
(* a lot whose extent across the rows is below the spacing has zero row gaps: the code then divides by zero (listed finding) *)
Theorem C14_thin_lot_has_zero_rows : forall d y, 0 <= d -> d < y -> num_rows d y = 0%Z.
Proof. exact thin_lot_has_zero_rows. Qed.
Print Assumptions C14_thin_lot_has_zero_rows.
Theorem C14_distribute_count_partial : forall x1 c s dx sp, 0 < sp -> sp <= dx ->
  length (distribute x1 c s dx sp) = (Z.to_nat (n_cols dx sp) + 1)%nat.
Proof. exact distribute_count. Qed.
Print Assumptions C14_distribute_count_partial.
Theorem C14_distribute_spacing_partial : forall dx sp, 0 < sp -> sp <= dx ->
  sp <= act_space dx sp /\ inject_Z (n_cols dx sp) * act_space dx sp == dx.
Proof. exact distribute_spacing. Qed.
Print Assumptions C14_distribute_spacing_partial.
Theorem C14_rect_lattice_count_partial : forall x0 y0 W H sp, 0 < sp -> sp <= W -> sp <= H ->
  length (rect_field x0 y0 W H sp) = ((Z.to_nat (Qfloor (W / sp)) + 1) * (Z.to_nat (Qfloor (H / sp)) + 1))%nat.
Proof. exact rect_lattice_count. Qed.
Print Assumptions C14_rect_lattice_count_partial.
Theorem C14_sweep_returns_first_max : forall counts, counts <> [] -> (exists c, In c counts /\ 0 < c)%nat ->
  let r := sweep_best counts in
  (forall c, In c counts -> c <= fst r)%nat /\ nth_error counts (snd r) = Some (fst r) /\ (forall j, j < snd r -> nth j counts 0 < fst r)%nat.
Proof. exact sweep_returns_first_max. Qed.
Print Assumptions C14_sweep_returns_first_max.
Theorem C14_convex_combination_inside : forall a b c px py qx qy t : Q, 0 <= t -> t <= 1 ->
  0 <= a * px + b * py + c -> 0 <= a * qx + b * qy + c ->
  0 <= a * (px + t * (qx - px)) + b * (py + t * (qy - py)) + c.
Proof. exact convex_combination_inside. Qed.
Print Assumptions C14_convex_combination_inside.
