(* Props/C15.v — property theorems only.  C15: the equivalent single U-tube preserves the exchanger's bulk properties. *)
From Coq Require Import ZArith QArith Qabs List.
From GHE Require Import Base.QUtil gen.Src Model.Search Proof.EquivPipeP.
Import ListNotations.
Open Scope Q_scope.

(* on the expressions REGENERATED from equivalent_single_u_tube; sqrt enters only through (sqrt y)^2 = y, ln is abstract *)
Theorem C15_fluid_volume_preserved : forall (pi_ : Q) (sqrt_ : Q -> Q), 0 < pi_ ->
  (forall y, 0 <= y -> sqrt_ y * sqrt_ y == y) -> (forall a b, a == b -> sqrt_ a == sqrt_ b) ->
  forall vf, 0 <= vf -> eq_n * pi_ * (eq_r_in pi_ sqrt_ vf eq_n * eq_r_in pi_ sqrt_ vf eq_n) == vf.
Proof. exact fluid_volume_preserved. Qed.
Print Assumptions C15_fluid_volume_preserved.
Theorem C15_pipe_volume_preserved : forall (pi_ : Q) (sqrt_ : Q -> Q), 0 < pi_ ->
  (forall y, 0 <= y -> sqrt_ y * sqrt_ y == y) -> (forall a b, a == b -> sqrt_ a == sqrt_ b) ->
  forall vf vp, 0 <= vf -> 0 <= vp ->
  eq_n * pi_ * (eq_r_out pi_ sqrt_ vf vp eq_n * eq_r_out pi_ sqrt_ vf vp eq_n - eq_r_in pi_ sqrt_ vf eq_n * eq_r_in pi_ sqrt_ vf eq_n) == vp.
Proof. exact pipe_volume_preserved. Qed.
Print Assumptions C15_pipe_volume_preserved.
Theorem C15_pipe_resistance_reproduced : forall (pi_ two_pi : Q) (ln_ : Q -> Q), 0 < pi_ -> two_pi == 2 * pi_ ->
  forall ro ri rp, ~ rp == 0 -> ~ ln_ (qdiv ro ri) == 0 ->
  ln_ (qdiv ro ri) / (two_pi * eq_n * eq_k_pipe two_pi ln_ ro ri eq_n rp) == rp.
Proof. exact pipe_resistance_reproduced. Qed.
Print Assumptions C15_pipe_resistance_reproduced.

(* the two conductivity solves: a match is obtained exactly when the root is bracketed; otherwise a bracket end is returned *)
Theorem C15_match_when_bracketed : forall (f : Q -> Q) (lo hi b eps k : Q),
  solve_root f lo hi b = Ok k -> ((f lo < 0 /\ 0 < f hi) \/ (f hi < 0 /\ 0 < f lo)) -> Qabs (f b) <= eps -> Qabs (f k) <= eps.
Proof. exact match_when_bracketed. Qed.
Print Assumptions C15_match_when_bracketed.
Theorem C15_clamp_when_not : forall (f : Q -> Q) (lo hi b k : Q),
  solve_root f lo hi b = Ok k -> ~ ((f lo < 0 /\ 0 < f hi) \/ (f hi < 0 /\ 0 < f lo)) -> k = lo \/ k = hi.
Proof. exact clamp_when_not. Qed.
Print Assumptions C15_clamp_when_not.
(* the bracket of the grout conductivity, read from the source *)
Example C15_grout_bracket : kg_lower == 1 # 100 /\ kg_upper == 7.
Proof. split; reflexivity. Qed.
