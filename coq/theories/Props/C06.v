(* Props/C06.v — property theorems only.  C06: hybrid loads conserve every month's ground energy. *)
From Coq Require Import ZArith QArith List.
From GHE Require Import Base.QUtil gen.Src Model.Hybrid Proof.HybridP Proof.SplitP Proof.SplitMonthP.
Import ListNotations.
Open Scope Q_scope.

(* one peak-retention month, ALL rational monthly data, all three peak-day orderings, pulses present or not:
   signed sum of load x breakpoint difference = rejection - extraction, plus rate x (degenerate duration of a
   pulse that is not emitted; 1e-6 h in the code) *)
Theorem C06_month_with_peaks :
  forall (m : month) (prev : Q),
  0 <= dcl m -> 0 <= dhl m ->
  0 <= fmh m + daycl m * 24 + 12 - dcl m / 2 -> 0 <= fmh m + dayhl m * 24 + 12 - dhl m / 2 ->
  lmh m - prev == Hm m ->
  ipf m = true -> 0 <= pcl m -> 0 <= phl m -> ~ Hm m - dcl m - dhl m == 0 ->
  energy prev (segments m) ==
    cl m - hl m + rate m * ((if qltb 0 (pcl m) then 0 else dcl m) + (if qltb 0 (phl m) then 0 else dhl m)).
Proof. exact month_energy_ipf. Qed.
Print Assumptions C06_month_with_peaks.

(* a month outside the retention windows: exactly the net load *)
Theorem C06_month_average_only :
  forall (m : month) (prev : Q), lmh m - prev == Hm m -> ipf m = false -> ~ Hm m == 0 ->
  energy prev (segments m) == cl m - hl m.
Proof. exact month_energy_avg_only. Qed.
Print Assumptions C06_month_average_only.

(* the whole horizon, any number of months: total = sum of the monthly nets, and the sequence ends on the last month end *)
Theorem C06_total :
  forall (ms : list month) (prev : Q), chain prev ms ->
  energy prev (flat_map segments ms) == fold_right (fun m acc => month_net m + acc) 0 ms /\
  last_hour prev (flat_map segments ms) = last_month_end prev ms.
Proof. exact horizon_energy. Qed.
Print Assumptions C06_total.

(* non-vacuity: a February with both pulses on different days *)
Example C06_nonvacuous :
  let m := {| ipf := true; Hm := 672; cl := 1000; hl := 400; pcl := 20; phl := 10; dcl := 6; dhl := 4;
              daycl := 10; dayhl := 3; fmh := 745; lmh := 1416 |} in
  energy 744 (segments m) == 600 /\ length (segments m) = 5%nat.
Proof. cbv zeta. split; [vm_compute; reflexivity | reflexivity]. Qed.

(* from the input profile to the two hourly series, split_heat_and_cool REGENERATED from ground_loads.py, for EVERY profile (W, extraction
   positive): the series have the profile's length, are non-negative kW values, never both non-zero in one hour, and extraction minus rejection
   is the profile / 1000 — "the month's net hourly ground load of the input profile (rejection minus extraction)" is therefore minus the profile in kW.
   (The monthly arrays taken from these series by the regenerated split_loads_by_month: C06_monthly_arrays_closed_form below.) *)
Theorem C06_hourly_split_lengths : forall raw : list Q,
  length (fst (split_heat_and_cool raw)) = length raw /\ length (snd (split_heat_and_cool raw)) = length raw.
Proof. exact split_lengths. Qed.
Print Assumptions C06_hourly_split_lengths.
Theorem C06_hourly_split_is_the_profile : forall (raw : list Q) (k : nat), (k < length raw)%nat ->
  let rej := nth k (fst (split_heat_and_cool raw)) 0 in
  let ext := nth k (snd (split_heat_and_cool raw)) 0 in
  0 <= rej /\ 0 <= ext /\ (rej == 0 \/ ext == 0) /\ ext - rej == nth k raw 0 / 1000.
Proof. exact split_pointwise. Qed.
Print Assumptions C06_hourly_split_is_the_profile.

(* split_loads_by_month REGENERATED from ground_loads.py (the whole method: a loop over the months with eight item-assigned arrays), on the
   non-leap calendar, for EVERY pair of hourly series: month m's total / peak / average / peak day are the sum, the maximum, sum / number of hours
   and floor(first index of the maximum / 24) of the series' hours [cum(m-1), cum(m)) — all eight arrays in closed form *)
Theorem C06_monthly_arrays_closed_form : forall R E : list Q,
  split_loads_by_month cal12 R E z13 z13 z13 z13 z13 z13 z13 z13
  = (m_total R, m_total E, m_peak R, m_peak E, m_avg R, m_avg E, m_peak_day R, m_peak_day E).
Proof. exact split_by_month_closed_form. Qed.
Print Assumptions C06_monthly_arrays_closed_form.

(* the twelve slices tile a year of 8760 hours: the monthly totals add up to the year's total of the hourly series (so, with C06_total, the energy
   of the hybrid sequence over a year is the energy of the hourly profile) *)
Theorem C06_monthly_totals_conserve_the_year : forall X : list Q, Z.of_nat (length X) = 8760%Z ->
  fold_left Qplus (m_total X) 0 == qsum X.
Proof. exact monthly_totals_conserve_the_year. Qed.
Print Assumptions C06_monthly_totals_conserve_the_year.
