(* Props/C06.v — property theorems only.  C06: hybrid loads conserve every month's ground energy. *)
From Coq Require Import ZArith QArith List.
From GHE Require Import Base.QUtil gen.Src Model.Hybrid Proof.HybridP.
Import ListNotations.
Open Scope Q_scope.

(* one peak-retention month, ALL rational monthly data, all three peak-day orderings, pulses present or not:
   signed sum of load x breakpoint difference = rejection - extraction, plus rate x (degenerate duration of a
   pulse that is not emitted; 1e-6 h in the code) *)
Theorem C06_month_with_peaks :
  forall (m : month) (prev : Q),
  0 <= dcl m -> 0 <= dhl m ->
  0 <= fmh m + daycl m * 24 + 12 - dcl m / 2 -> 0 <= fmh m + dayhl m * 24 + 12 - dhl m / 2 ->
  lmh m - prev == Hm m ->
  ipf m = true -> 0 <= pcl m -> 0 <= phl m -> ~ Hm m - dcl m - dhl m == 0 ->
  energy prev (segments m) ==
    cl m - hl m + rate m * ((if qltb 0 (pcl m) then 0 else dcl m) + (if qltb 0 (phl m) then 0 else dhl m)).
Proof. exact month_energy_ipf. Qed.
Print Assumptions C06_month_with_peaks.

(* a month outside the retention windows: exactly the net load *)
Theorem C06_month_average_only :
  forall (m : month) (prev : Q), lmh m - prev == Hm m -> ipf m = false -> ~ Hm m == 0 ->
  energy prev (segments m) == cl m - hl m.
Proof. exact month_energy_avg_only. Qed.
Print Assumptions C06_month_average_only.

(* the whole horizon, any number of months: total = sum of the monthly nets, and the sequence ends on the last month end *)
Theorem C06_total :
  forall (ms : list month) (prev : Q), chain prev ms ->
  energy prev (flat_map segments ms) == fold_right (fun m acc => month_net m + acc) 0 ms /\
  last_hour prev (flat_map segments ms) = last_month_end prev ms.
Proof. exact horizon_energy. Qed.
Print Assumptions C06_total.

(* non-vacuity: a February with both pulses on different days *)
Example C06_nonvacuous :
  let m := {| ipf := true; Hm := 672; cl := 1000; hl := 400; pcl := 20; phl := 10; dcl := 6; dhl := 4;
              daycl := 10; dayhl := 3; fmh := 745; lmh := 1416 |} in
  energy 744 (segments m) == 600 /\ length (segments m) = 5%nat.
Proof. cbv zeta. split; [vm_compute; reflexivity | reflexivity]. Qed.
