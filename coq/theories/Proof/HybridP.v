(* Proof/HybridP.v — energy conservation, pulse placement and time-axis lemmas for Model/Hybrid.v *)
From Coq Require Import ZArith QArith Qround List Bool Lia Lqa.
From GHE Require Import Base.QUtil gen.Src Model.Hybrid.
Import ListNotations.
Open Scope Q_scope.

Lemma energy_app prev l1 l2 : energy prev (l1 ++ l2) == energy prev l1 + energy (last_hour prev l1) l2.
Proof.
  revert prev; induction l1 as [|[q h] t IH]; intros prev; cbn [app energy last_hour fold_left].
  - ring.
  - rewrite IH. unfold last_hour. cbn [fold_left snd]. ring.
Qed.

Lemma clamp0_id x : 0 <= x -> clamp0 x = x.
Proof. intros H. unfold clamp0. destruct (qltb_spec x 0); [exfalso; lra | reflexivity]. Qed.

Section Month.
Variable m : month.
Variable prev : Q.
Hypothesis Hdc : 0 <= dcl m.
Hypothesis Hdh : 0 <= dhl m.
Hypothesis Hsc : 0 <= fmh m + daycl m * 24 + 12 - dcl m / 2.      (* the pulse starts are not clamped *)
Hypothesis Hsh : 0 <= fmh m + dayhl m * 24 + 12 - dhl m / 2.
Hypothesis Hspan : lmh m - prev == Hm m.

Lemma Fh : fhh m = fmh m + dayhl m * 24 + 12 - dhl m / 2. Proof. unfold fhh. apply clamp0_id. exact Hsh. Qed.
Lemma Fc : fhc m = fmh m + daycl m * 24 + 12 - dcl m / 2. Proof. unfold fhc. apply clamp0_id. exact Hsc. Qed.
Lemma Lh : lhh m = fhh m + dhl m. Proof. unfold lhh. apply clamp0_id. rewrite Fh. lra. Qed.
Lemma Lc : lhc m = fhc m + dcl m. Proof. unfold lhc. apply clamp0_id. rewrite Fc. lra. Qed.

(* C06: energy of one month of the sequence *)
Theorem month_energy_ipf :
  ipf m = true -> 0 <= pcl m -> 0 <= phl m -> ~ Hm m - dcl m - dhl m == 0 ->
  energy prev (segments m) ==
    cl m - hl m + rate m * ((if qltb 0 (pcl m) then 0 else dcl m) + (if qltb 0 (phl m) then 0 else dhl m)).
Proof.
  intros Hi Hpc Hph Hne.
  assert (R : rate m * (Hm m - dcl m - dhl m) == cl m - hl m - pcl m * dcl m + phl m * dhl m).
  { unfold rate. rewrite Hi. field. exact Hne. }
  pose proof Fh as EFh. pose proof Fc as EFc. pose proof Lh as ELh. pose proof Lc as ELc.
  unfold segments, cool_sep, heat_sep, single_peak. rewrite Hi. rewrite !andb_true_r.
  destruct (qltb_spec (daycl m - dayhl m) 0) as [D1|D1]; destruct (qeqb_spec (daycl m - dayhl m) 0) as [D0|D0];
  destruct (qltb_spec 0 (daycl m - dayhl m)) as [D2|D2];
  try (exfalso; lra);
  destruct (qltb_spec 0 (pcl m)) as [Pc|Pc]; destruct (qltb_spec 0 (phl m)) as [Ph|Ph];
  cbn [app energy andb orb negb]; rewrite ?ELh, ?ELc, ?EFh, ?EFc;
  assert (X : lmh m == prev + Hm m) by lra; rewrite X;
  try (assert (Zc : pcl m * dcl m == 0) by (assert (E : pcl m == 0) by lra; rewrite E; ring));
  try (assert (Zh : phl m * dhl m == 0) by (assert (E : phl m == 0) by lra; rewrite E; ring));
  try (assert (Ed : daycl m == dayhl m) by lra; rewrite Ed);
  unfold Qdiv; change (/ 2) with (1 # 2);
  ring_simplify; ring_simplify in R; lra.
Qed.

Theorem month_energy_avg_only :
  ipf m = false -> ~ Hm m == 0 -> energy prev (segments m) == cl m - hl m.
Proof.
  intros Hi Hne. unfold segments, cool_sep, heat_sep. rewrite Hi. rewrite !andb_false_r.
  destruct (qltb_spec 0 0) as [Y|Y]; [exfalso; lra|]. cbn [orb].
  destruct (qeqb 0 0 && single_peak m); cbn [app energy].
  all: unfold rate; rewrite Hi; assert (X : lmh m == prev + Hm m) by lra; rewrite X; field; exact Hne.
Qed.

(* C08: the month's last breakpoint is the calendar month end *)
Lemma segments_last : last_hour prev (segments m) = lmh m.
Proof.
  unfold segments, last_hour.
  destruct (qltb _ 0 || _); [rewrite !fold_left_app; reflexivity|].
  destruct (qltb 0 _); [rewrite !fold_left_app; reflexivity|].
  destruct (ipf m); [rewrite !fold_left_app; reflexivity | reflexivity].
Qed.

(* C07: pulses *)
Definition noon_c := fmh m + daycl m * 24 + 12.
Definition noon_h := fmh m + dayhl m * 24 + 12.

Theorem cooling_pulse_centred :
  ipf m = true -> 0 < pcl m -> (~ daycl m - dayhl m == 0 \/ phl m <= 0) ->
  exists l1 l2, segments m = l1 ++ [(rate m, fhc m); (pcl m, lhc m)] ++ l2 /\
                lhc m - fhc m == dcl m /\ (fhc m + lhc m) / 2 == noon_c.
Proof.
  intros Hi Pc Hd. pose proof Fc as EFc. pose proof Lc as ELc.
  assert (Ec : cool_sep m = [(rate m, fhc m); (pcl m, lhc m)]).
  { unfold cool_sep. rewrite Hi. destruct (qltb_spec 0 (pcl m)); [reflexivity | exfalso; lra]. }
  assert (G : lhc m - fhc m == dcl m /\ (fhc m + lhc m) / 2 == noon_c) by (rewrite ELc, EFc; unfold noon_c; split; field).
  unfold segments, single_peak. rewrite Hi, Ec.
  destruct (qltb_spec (daycl m - dayhl m) 0) as [D1|D1]; destruct (qeqb_spec (daycl m - dayhl m) 0) as [D0|D0];
  destruct (qltb_spec 0 (daycl m - dayhl m)) as [D2|D2]; try (exfalso; lra);
  destruct (qltb_spec 0 (pcl m)) as [P1|P1]; try (exfalso; lra);
  destruct (qltb_spec 0 (phl m)) as [P2|P2]; cbn [andb orb negb].
  all: try (exists [], (heat_sep m ++ [(rate m, lmh m)]); split; [reflexivity | exact G]).
  all: try (exists (heat_sep m), [(rate m, lmh m)]; split; [reflexivity | exact G]).
  all: exfalso; destruct Hd as [Hd|Hd]; [apply Hd; lra | lra].
Qed.

Theorem heating_pulse_centred :
  ipf m = true -> 0 < phl m -> (~ daycl m - dayhl m == 0 \/ pcl m <= 0) ->
  exists l1 l2, segments m = l1 ++ [(rate m, fhh m); (- phl m, lhh m)] ++ l2 /\
                lhh m - fhh m == dhl m /\ (fhh m + lhh m) / 2 == noon_h.
Proof.
  intros Hi Ph Hd. pose proof Fh as EFh. pose proof Lh as ELh.
  assert (Eh : heat_sep m = [(rate m, fhh m); (- phl m, lhh m)]).
  { unfold heat_sep. rewrite Hi. destruct (qltb_spec 0 (phl m)); [reflexivity | exfalso; lra]. }
  assert (G : lhh m - fhh m == dhl m /\ (fhh m + lhh m) / 2 == noon_h) by (rewrite ELh, EFh; unfold noon_h; split; field).
  unfold segments, single_peak. rewrite Hi, Eh.
  destruct (qltb_spec (daycl m - dayhl m) 0) as [D1|D1]; destruct (qeqb_spec (daycl m - dayhl m) 0) as [D0|D0];
  destruct (qltb_spec 0 (daycl m - dayhl m)) as [D2|D2]; try (exfalso; lra);
  destruct (qltb_spec 0 (pcl m)) as [P1|P1]; destruct (qltb_spec 0 (phl m)) as [P2|P2]; try (exfalso; lra); cbn [andb orb negb].
  all: try (exists (cool_sep m), [(rate m, lmh m)]; split; [reflexivity | exact G]).
  all: try (exists [], (cool_sep m ++ [(rate m, lmh m)]); split; [reflexivity | exact G]).
  all: exfalso; destruct Hd as [Hd|Hd]; [apply Hd; lra | lra].
Qed.

(* same day: the cooling pulse ends at noon and the heating pulse starts at noon *)
Theorem pulses_same_day_hours :
  ipf m = true -> daycl m - dayhl m == 0 ->
  fhc m - dcl m / 2 == noon_c - dcl m /\ lhc m - dcl m / 2 == noon_c /\
  fhh m + dhl m / 2 == noon_h /\ lhh m + dhl m / 2 == noon_h + dhl m.
Proof.
  intros Hi Hd. rewrite Lh, Lc, Fh, Fc. unfold noon_c, noon_h. repeat split; field.
Qed.

(* a month without a peak in one direction gets no pulse in it; a non-retention month carries only its average *)
Theorem no_pulse_without_peak :
  pcl m <= 0 -> phl m <= 0 -> segments m = [(rate m, lmh m)].
Proof.
  intros Pc Ph. unfold segments, cool_sep, heat_sep.
  destruct (qltb_spec 0 (pcl m)) as [A|A]; [exfalso; lra|]. destruct (qltb_spec 0 (phl m)) as [B|B]; [exfalso; lra|].
  cbn [andb app]. destruct (qltb _ 0 || _); [reflexivity|]. destruct (qltb 0 _); [reflexivity|]. destruct (ipf m); reflexivity.
Qed.

Theorem avg_only_outside_retention : ipf m = false -> segments m = [(rate m, lmh m)].
Proof.
  intros Hi. unfold segments, cool_sep, heat_sep. rewrite Hi, !andb_false_r.
  destruct (qltb_spec 0 0) as [X|X]; [exfalso; lra|]. destruct (_ || _); reflexivity.
Qed.
End Month.

(* ---------- whole horizon ---------- *)
Definition m0_ (ms : list month) : month := match ms with m :: _ => m | [] => Build_month false 0 0 0 0 0 0 0 0 0 0 0 end.
Definition month_ok (prev : Q) (m : month) : Prop :=
  0 <= dcl m /\ 0 <= dhl m /\ 0 <= fmh m + daycl m * 24 + 12 - dcl m / 2 /\ 0 <= fmh m + dayhl m * 24 + 12 - dhl m / 2 /\
  lmh m - prev == Hm m /\ 0 <= pcl m /\ 0 <= phl m /\ ~ Hm m == 0 /\ ~ Hm m - dcl m - dhl m == 0.
Definition month_net (m : month) : Q :=
  if ipf m then cl m - hl m + rate m * ((if qltb 0 (pcl m) then 0 else dcl m) + (if qltb 0 (phl m) then 0 else dhl m))
  else cl m - hl m.
Fixpoint chain (prev : Q) (ms : list month) : Prop :=
  match ms with [] => True | m :: t => month_ok prev m /\ chain (lmh m) t end.

Lemma month_energy prev m : month_ok prev m -> energy prev (segments m) == month_net m.
Proof.
  intros (A & B & C & D & E & F & G & H & I). unfold month_net. destruct (ipf m) eqn:Hi.
  - apply month_energy_ipf; assumption.
  - apply month_energy_avg_only; assumption.
Qed.

Definition last_month_end (prev : Q) (ms : list month) : Q := fold_left (fun _ m => lmh m) ms prev.

Theorem horizon_energy ms : forall prev, chain prev ms ->
  energy prev (flat_map segments ms) == fold_right (fun m acc => month_net m + acc) 0 ms /\
  last_hour prev (flat_map segments ms) = last_month_end prev ms.
Proof.
  induction ms as [|m t IH]; intros prev Hc; cbn [flat_map fold_right chain] in *.
  - split; reflexivity.
  - destruct Hc as [Hm Ht]. destruct (IH _ Ht) as [E L]. split.
    + rewrite energy_app, segments_last, E, (month_energy _ _ Hm). reflexivity.
    + assert (S : forall p l1 l2, last_hour p (l1 ++ l2) = last_hour (last_hour p l1) l2)
        by (intros; unfold last_hour; apply fold_left_app).
      rewrite S, segments_last, L. reflexivity.
Qed.

(* every month end is a breakpoint: the sequence of the first k months ends at the k-th month end *)
Corollary month_end_is_breakpoint ms1 ms2 prev : chain prev (ms1 ++ ms2) -> ms1 <> [] ->
  last_hour prev (flat_map segments ms1) = last_month_end prev ms1.
Proof.
  intros Hc _. assert (Hc1 : chain prev ms1).
  { revert prev Hc. induction ms1 as [|m t IH]; intros prev Hc; cbn [chain app] in *; [exact I|].
    destruct Hc as [A B]. split; [exact A | apply IH; exact B]. }
  apply (horizon_energy ms1 prev Hc1).
Qed.

(* C08: strictly increasing breakpoints inside a month when the windows are disjoint and inside the month *)
Fixpoint increasing (prev : Q) (l : list Q) : Prop :=
  match l with [] => True | h :: t => prev < h /\ increasing h t end.

Theorem month_hours_increasing (m : month) (prev : Q) :
  ipf m = true -> 0 < pcl m -> 0 < phl m -> ~ daycl m - dayhl m == 0 ->
  prev < fhc m -> fhc m < lhc m -> prev < fhh m -> fhh m < lhh m -> lhc m < lmh m -> lhh m < lmh m ->
  (* the two windows do not overlap (the window of the earlier peak day comes first) *)
  (daycl m - dayhl m < 0 -> lhc m < fhh m) -> (0 < daycl m - dayhl m -> lhh m < fhc m) ->
  increasing prev (map snd (segments m)).
Proof.
  intros Hi Pc Ph Hd A1 A2 A3 A4 A5 A6 A7 A8.
  unfold segments, cool_sep, heat_sep, single_peak. rewrite Hi.
  destruct (qltb_spec 0 (pcl m)); [|exfalso; lra]. destruct (qltb_spec 0 (phl m)); [|exfalso; lra]. cbn [andb negb].
  rewrite andb_false_r, orb_false_r.
  destruct (qltb_spec (daycl m - dayhl m) 0) as [D1|D1]; [|destruct (qltb_spec 0 (daycl m - dayhl m)) as [D2|D2]];
  cbn [app map snd increasing].
  - specialize (A7 D1). repeat split; lra.
  - specialize (A8 D2). repeat split; lra.
  - exfalso. apply Hd. lra.
Qed.

(* one pulse only, or none: the breakpoints are increasing as soon as the window lies inside the month *)
Theorem month_hours_increasing_cooling_only (m : month) (prev : Q) :
  ipf m = true -> 0 < pcl m -> phl m <= 0 -> ~ daycl m - dayhl m == 0 ->
  prev < fhc m -> fhc m < lhc m -> lhc m < lmh m -> increasing prev (map snd (segments m)).
Proof.
  intros Hi Pc Ph Hd A1 A2 A5.
  unfold segments, cool_sep, heat_sep, single_peak. rewrite Hi.
  destruct (qltb_spec 0 (pcl m)); [|exfalso; lra]. destruct (qltb_spec 0 (phl m)); [exfalso; lra|]. cbn [andb negb].
  rewrite andb_true_r.
  destruct (qltb_spec (daycl m - dayhl m) 0) as [D1|D1]; destruct (qeqb_spec (daycl m - dayhl m) 0) as [D0|D0];
  destruct (qltb_spec 0 (daycl m - dayhl m)) as [D2|D2];
  cbn [app map snd increasing orb]; try (repeat split; lra); try (exfalso; apply Hd; lra); try (exfalso; lra).
Qed.
