(* Proof/CalendarCompP.v — the calendar helpers regenerated from ground_loads.py against the closed form *)
From Coq Require Import ZArith QArith List Bool Lia ZifyBool.
From GHE Require Import Base.QUtil gen.Src Model.Hybrid Proof.OutputTimeP Proof.CalendarP.
Import ListNotations.
Ltac Zify.zify_post_hook ::= Z.to_euclidean_division_equations.
Open Scope Z_scope.

(* complete finite domain: every month number of a 50-year horizon *)
Lemma calendar_closed_600 : forallb cal_check (rangeZ 1 601) = true.
Proof. vm_compute. reflexivity. Qed.

Lemma calendar_closed m : 1 <= m <= 600 ->
  (last_month_hour (inject_Z m) [2019%Q] == inject_Z (closed_lmh m))%Q /\
  (first_month_hour (inject_Z m) [2019%Q] == inject_Z (closed_lmh (m - 1) + 1))%Q /\
  (monthdays (inject_Z m) 2019 * 24 == inject_Z (closed_lmh m - closed_lmh (m - 1)))%Q.
Proof.
  intros H. pose proof calendar_closed_600 as A. rewrite forallb_forall in A.
  assert (Hin : In m (rangeZ 1 601)) by (apply in_rangeZ; lia).
  specialize (A m Hin). unfold cal_check in A.
  apply andb_prop in A. destruct A as [A C]. apply andb_prop in A. destruct A as [A B].
  repeat split; apply Qeq_bool_iff; assumption.
Qed.

