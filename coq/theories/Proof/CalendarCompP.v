(* Proof/CalendarCompP.v — the calendar helpers regenerated from ground_loads.py against the closed form *)
From Coq Require Import ZArith QArith List Bool Lia ZifyBool.
From GHE Require Import Base.QUtil gen.Src Model.Hybrid Proof.OutputTimeP Proof.CalendarP.
Import ListNotations.
Ltac Zify.zify_post_hook ::= Z.to_euclidean_division_equations.
Open Scope Z_scope.

(* complete finite domain: every month number of a 50-year horizon *)
Lemma calendar_closed_600 : forallb cal_check (rangeZ 1 601) = true.
Proof. vm_compute. reflexivity. Qed.

Lemma calendar_closed m : 1 <= m <= 600 ->
  (last_month_hour (inject_Z m) [2019%Q] == inject_Z (closed_lmh m))%Q /\
  (first_month_hour (inject_Z m) [2019%Q] == inject_Z (closed_lmh (m - 1) + 1))%Q /\
  (monthdays (inject_Z m) 2019 * 24 == inject_Z (closed_lmh m - closed_lmh (m - 1)))%Q.
Proof.
  intros H. pose proof calendar_closed_600 as A. rewrite forallb_forall in A.
  assert (Hin : In m (rangeZ 1 601)) by (apply in_rangeZ; lia).
  specialize (A m Hin). unfold cal_check in A.
  apply andb_prop in A. destruct A as [A C]. apply andb_prop in A. destruct A as [A B].
  repeat split; apply Qeq_bool_iff; assumption.
Qed.


(* ---- a leap year of loads (years = [2020]): every year of the horizon has 8784 hours, February has 29 days ---- *)
Definition cum13_leap : list Z := [0; 744; 1440; 2184; 2904; 3648; 4368; 5112; 5856; 6576; 7320; 8040; 8784].
Definition closed_lmh_leap (m : Z) : Z := 8784 * ((m - 1) / 12) + nth (Z.to_nat ((m - 1) mod 12 + 1)) cum13_leap 0.
Definition cal_check_leap (m : Z) : bool :=
  qeqb (last_month_hour (inject_Z m) [2020%Q]) (inject_Z (closed_lmh_leap m)) &&
  qeqb (first_month_hour (inject_Z m) [2020%Q]) (inject_Z (closed_lmh_leap (m - 1) + 1)) &&
  qeqb (monthdays (inject_Z m) 2020 * 24)%Q (inject_Z (closed_lmh_leap m - closed_lmh_leap (m - 1))).

Lemma calendar_closed_leap_600 : forallb cal_check_leap (rangeZ 1 601) = true.
Proof. vm_compute. reflexivity. Qed.

Lemma calendar_closed_leap m : 1 <= m <= 600 ->
  (last_month_hour (inject_Z m) [2020%Q] == inject_Z (closed_lmh_leap m))%Q /\
  (first_month_hour (inject_Z m) [2020%Q] == inject_Z (closed_lmh_leap (m - 1) + 1))%Q /\
  (monthdays (inject_Z m) 2020 * 24 == inject_Z (closed_lmh_leap m - closed_lmh_leap (m - 1)))%Q.
Proof.
  intros H. pose proof calendar_closed_leap_600 as A. rewrite forallb_forall in A.
  assert (Hin : In m (rangeZ 1 601)) by (apply in_rangeZ; lia).
  specialize (A m Hin). unfold cal_check_leap in A.
  apply andb_prop in A. destruct A as [A C]. apply andb_prop in A. destruct A as [A B].
  repeat split; apply Qeq_bool_iff; assumption.
Qed.

(* ---- a LIST of load years: the helpers take the year of the month asked for and apply it to every month before it, so the start of a
   month is not the end of the previous month plus one as soon as a leap year follows a normal one (observation, section 6.3 of
   DESIGN.md: the manager never passes more than one load year) ---- *)
Lemma multi_year_calendar_breaks :
  let ys := [2019%Q; 2019%Q; 2020%Q] in
  (first_month_hour 25 ys == 17569)%Q /\ (last_month_hour 24 ys == 17520)%Q /\
  ~ (first_month_hour 25 ys == last_month_hour 24 ys + 1)%Q.
Proof. cbv zeta. repeat split; vm_compute; try reflexivity; discriminate. Qed.
