(* Proof/PolygonP.v — the ray loop of point_polygon_check computes the crossing number *)
From Coq Require Import ZArith QArith List Bool Lia Lqa Permutation.
From GHE Require Import Base.QUtil gen.Src Model.Polygon.
Import ListNotations.
Open Scope Q_scope.

Lemma between_spec p a b : between p a b = true <-> ((a <= p /\ p <= b) \/ (p <= a /\ b <= p)).
Proof.
  unfold between. destruct (qleb_spec a p), (qleb_spec p b), (qleb_spec p a), (qleb_spec b p); cbn; split; intros; try lra; try discriminate; auto.
Qed.

Lemma ppc_cross_eq v1x px v2y py v2x v1y : ppc_cross v1x px v2y py v2x v1y == (v1x - px) * (v2y - py) - (v2x - px) * (v1y - py).
Proof. unfold ppc_cross. qnorm. reflexivity. Qed.

Definition in_range (py y1 y2 : Q) : Prop := (y1 < py /\ py <= y2) \/ (y2 < py /\ py <= y1).

Lemma in_rangeb_spec py y1 y2 : in_rangeb py y1 y2 = true <-> in_range py y1 y2.
Proof.
  unfold in_rangeb, in_range. destruct (qltb_spec y1 py), (qleb_spec py y2), (qltb_spec y2 py), (qleb_spec py y1); cbn; split; intros; try lra; try discriminate; auto.
Qed.

Lemma cross_is_offset px py x1 y1 x2 y2 : ~ y2 - y1 == 0 ->
  (x1 - px) * (y2 - py) - (x2 - px) * (y1 - py) == (xint py x1 y1 x2 y2 - px) * (y2 - y1).
Proof. intros H. unfold xint. field. exact H. Qed.

(* one edge of the loop: flips exactly when the edge is crossed strictly to the right of the point *)
Theorem edge_step_spec px py x1 y1 x2 y2 :
  match edge_step (px, py) ((x1, y1), (x2, y2)) with
  | Flip => in_range py y1 y2 /\ px < xint py x1 y1 x2 y2
  | Skip => ~ (in_range py y1 y2 /\ px <= xint py x1 y1 x2 y2)
  | OnEdge => in_range py y1 y2 /\ px == xint py x1 y1 x2 y2
  end.
Proof.
  unfold edge_step, in_range.
  destruct (between py y1 y2) eqn:B.
  - apply between_spec in B.
    destruct (qeqb_spec py y1) as [E1|E1]; destruct (qleb_spec y1 y2) as [L12|L12];
    destruct (qeqb_spec py y2) as [E2|E2]; destruct (qleb_spec y2 y1) as [L21|L21]; cbn [andb orb];
    try (intros [[[? ?]|[? ?]] ?]; lra); try (exfalso; lra).
    all: assert (Hd : ~ y2 - y1 == 0) by lra;
         pose proof (cross_is_offset px py x1 y1 x2 y2 Hd) as Hc;
         pose proof (ppc_cross_eq x1 px y2 py x2 y1) as Hp;
         set (c := ppc_cross x1 px y2 py x2 y1) in *;
         set (xi := xint py x1 y1 x2 y2) in *;
         destruct (qeqb_spec c 0) as [C0|C0];
         [ split; [lra | nra]
         | destruct (qltb_spec y1 y2) as [Y|Y]; destruct (qltb_spec 0 c) as [Cp|Cp]; cbn [Bool.eqb];
           try (split; [lra | nra]); try (intros [[[? ?]|[? ?]] ?]; nra) ].
  - intros [[[? ?]|[? ?]] ?]; assert (X : between py y1 y2 = true) by (apply between_spec; lra); congruence.
Qed.

Lemma crossb_spec px py x1 y1 x2 y2 :
  crossb (px, py) ((x1, y1), (x2, y2)) = true <-> (in_range py y1 y2 /\ px < xint py x1 y1 x2 y2).
Proof.
  unfold crossb. rewrite andb_true_iff, in_rangeb_spec. destruct (qltb_spec px (xint py x1 y1 x2 y2)) as [L|L]; split; intros [A B].
  - split; assumption.
  - split; [assumption | reflexivity].
  - discriminate.
  - exfalso. apply L. exact B.
Qed.

Lemma edge_step_crossb p e : edge_step p e <> OnEdge -> (edge_step p e = Flip <-> crossb p e = true).
Proof.
  destruct p as [px py], e as [[x1 y1] [x2 y2]].
  pose proof (edge_step_spec px py x1 y1 x2 y2) as S. rewrite crossb_spec.
  generalize dependent (edge_step (px, py) (x1, y1, (x2, y2))). intros st S H.
  destruct st; split; intros X; try congruence; try discriminate; auto.
  exfalso. apply S. destruct X. split; [assumption | lra].
Qed.

(* the loop = parity of the crossing number, for every list of edges none of which carries the point *)
Theorem rays_spec p es : (forall e, In e es -> edge_step p e <> OnEdge) ->
  forall inside, rays p es inside =
    if xorb inside (Nat.odd (crossing_count p es)) then (-1)%Z else 1%Z.
Proof.
  unfold crossing_count. induction es as [|e t IH]; intros H inside; cbn [rays filter length].
  - destruct inside; reflexivity.
  - assert (He : edge_step p e <> OnEdge) by (apply H; left; reflexivity).
    assert (Ht : forall e0, In e0 t -> edge_step p e0 <> OnEdge) by (intros; apply H; right; assumption).
    pose proof (edge_step_crossb p e He) as C.
    destruct (edge_step p e) eqn:S; try congruence.
    + assert (X : crossb p e = false) by (destruct (crossb p e); [destruct C as [_ C]; specialize (C eq_refl); discriminate | reflexivity]).
      rewrite X. apply IH; assumption.
    + assert (X : crossb p e = true) by (apply C; reflexivity).
      rewrite X. cbn [length]. rewrite IH by assumption. rewrite Nat.odd_succ, <- Nat.negb_odd.
      destruct inside, (Nat.odd (length (filter (crossb p) t))); reflexivity.
Qed.

Theorem ppc_rays_eq_spec poly p : (forall e, In e (edges poly) -> edge_step p e <> OnEdge) ->
  ppc_rays poly p = crossing_spec poly p.
Proof.
  intros H. unfold ppc_rays, crossing_spec. rewrite (rays_spec p _ H). cbn [xorb].
  destruct (Nat.odd _); reflexivity.
Qed.

(* a point that the loop reports OnEdge lies on the open-below part of that edge *)
Theorem rays_on_edge_sound p es inside : rays p es inside = 0%Z -> exists e, In e es /\ edge_step p e = OnEdge.
Proof.
  revert inside. induction es as [|e t IH]; intros inside; cbn [rays].
  - destruct inside; discriminate.
  - destruct (edge_step p e) eqn:S; intros H.
    + destruct (IH _ H) as (e0 & A & B). exists e0. split; [right; exact A | exact B].
    + exists e. split; [left; reflexivity | exact S].
    + destruct (IH _ H) as (e0 & A & B). exists e0. split; [right; exact A | exact B].
Qed.

(* ---------- independence of vertex order ---------- *)
Definition swap (e : edge) : edge := (snd e, fst e).

Lemma xint_swap py x1 y1 x2 y2 : ~ y2 - y1 == 0 -> xint py x1 y1 x2 y2 == xint py x2 y2 x1 y1.
Proof. intros H. unfold xint. field. split; lra. Qed.

Lemma crossb_swap p e : crossb p (swap e) = crossb p e.
Proof.
  destruct p as [px py], e as [[x1 y1] [x2 y2]]. unfold swap. cbn [fst snd].
  destruct (crossb (px, py) ((x1, y1), (x2, y2))) eqn:A.
  - apply crossb_spec in A. destruct A as [R L]. apply crossb_spec. unfold in_range in *.
    assert (Hd : ~ y2 - y1 == 0) by lra. rewrite <- (xint_swap py x1 y1 x2 y2 Hd). split; [lra | exact L].
  - destruct (crossb (px, py) ((x2, y2), (x1, y1))) eqn:B; [|reflexivity].
    apply crossb_spec in B. destruct B as [R L]. unfold in_range in *.
    assert (Hd : ~ y1 - y2 == 0) by lra. rewrite (xint_swap py x2 y2 x1 y1 Hd) in L.
    assert (X : crossb (px, py) ((x1, y1), (x2, y2)) = true) by (apply crossb_spec; unfold in_range; split; [lra | exact L]).
    congruence.
Qed.

Lemma crossing_count_perm p es es' : Permutation es es' -> crossing_count p es = crossing_count p es'.
Proof.
  unfold crossing_count. induction 1; cbn [filter length]; auto.
  - destruct (crossb p x); cbn [length]; congruence.
  - destruct (crossb p x), (crossb p y); reflexivity.
  - congruence.
Qed.

Lemma crossing_count_swap p es : crossing_count p (map swap es) = crossing_count p es.
Proof.
  unfold crossing_count. induction es as [|e t IH]; cbn [map filter length]; [reflexivity|].
  rewrite crossb_swap. destruct (crossb p e); cbn [length]; congruence.
Qed.

(* edges of a polygon given as the cyclic list of consecutive vertex pairs *)
Fixpoint consecutive (first : pt) (l : list pt) : list edge :=
  match l with
  | [] => []
  | a :: t => match t with [] => [(a, first)] | b :: _ => (a, b) :: consecutive first t end
  end.

Lemma edges_cons_perm a l : l <> [] ->
  Permutation (edges (a :: l)) (consecutive a (a :: l)).
Proof.
  intros Hl. unfold edges.
  assert (G : forall (x : pt) (m : list pt), m <> [] ->
             Permutation (combine (last (x :: m) (0, 0) :: removelast (x :: m)) (x :: m)) (consecutive a (x :: m) ++ [])
             \/ True) by (intros; right; exact I).
  clear G.
  (* direct statement: combine (last::removelast) l  =  (last,first) :: pairs ; consecutive = pairs ++ [(last,first)] *)
  assert (P : forall (x : pt) (m : list pt) (f : pt),
             combine (removelast (x :: m)) (tl (x :: m)) ++ [(last (x :: m) (0, 0), f)] = consecutive f (x :: m)).
  { intros x m. revert x. induction m as [|y m IH]; intros x f; [reflexivity|].
    change (removelast (x :: y :: m)) with (x :: removelast (y :: m)).
    change (last (x :: y :: m) (0, 0)) with (last (y :: m) (0, 0)).
    cbn [tl combine app consecutive]. f_equal. apply IH. }
  specialize (P a l a).
  destruct l as [|b l]; [congruence|].
  change (removelast (a :: b :: l)) with (a :: removelast (b :: l)) in *.
  cbn [combine tl] in *.
  rewrite <- P. cbn [combine].
  change (last (a :: b :: l) (0, 0)) with (last (b :: l) (0, 0)).
  apply Permutation_cons_append.
Qed.

Definition pairs (l : list pt) : list edge := combine (removelast l) (tl l).
Definition hd0 (l : list pt) : pt := hd (0, 0) l.
Definition last0 (l : list pt) : pt := last l (0, 0).

Lemma edges_eq_pairs v : v <> [] -> Permutation (edges v) ((last0 v, hd0 v) :: pairs v).
Proof.
  destruct v as [|a l]; [congruence|]. intros _. unfold edges, pairs, last0, hd0.
  destruct l as [|b l]; [cbn; apply Permutation_refl|].
  change (removelast (a :: b :: l)) with (a :: removelast (b :: l)).
  cbn [combine tl hd]. apply Permutation_refl.
Qed.

Lemma removelast_app1 (l : list pt) a : removelast (l ++ [a]) = l.
Proof. rewrite removelast_app by discriminate. cbn. apply app_nil_r. Qed.

Lemma pairs_snoc l a : l <> [] -> pairs (l ++ [a]) = pairs l ++ [(last0 l, a)].
Proof.
  unfold pairs, last0. induction l as [|x m IH]; [congruence|]. intros _.
  destruct m as [|y m].
  - reflexivity.
  - change ((x :: y :: m) ++ [a]) with (x :: ((y :: m) ++ [a])).
    change (removelast (x :: (y :: m) ++ [a])) with (x :: removelast ((y :: m) ++ [a])).
    change (removelast (x :: y :: m)) with (x :: removelast (y :: m)).
    cbn [tl combine app]. f_equal.
    specialize (IH ltac:(discriminate)). cbn [tl] in IH.
    change (last (x :: y :: m) (0, 0)) with (last (y :: m) (0, 0)).
    destruct m as [|z m]; [reflexivity|].
    change ((y :: z :: m) ++ [a]) with (y :: ((z :: m) ++ [a])) in *.
    change (removelast (y :: (z :: m) ++ [a])) with (y :: removelast ((z :: m) ++ [a])) in *.
    change (removelast (y :: z :: m)) with (y :: removelast (z :: m)) in *.
    cbn [tl combine app] in *. exact IH.
Qed.

Lemma last0_snoc l a : last0 (l ++ [a]) = a.
Proof. unfold last0. apply last_last. Qed.

Theorem crossing_rotate a l p : l <> [] -> crossing_spec (l ++ [a]) p = crossing_spec (a :: l) p.
Proof.
  intros Hl. unfold crossing_spec.
  assert (N1 : l ++ [a] <> []) by (destruct l; discriminate).
  rewrite (crossing_count_perm p _ _ (edges_eq_pairs _ N1)).
  rewrite (crossing_count_perm p _ _ (edges_eq_pairs (a :: l) ltac:(discriminate))).
  rewrite last0_snoc, (pairs_snoc l a Hl).
  destruct l as [|b m]; [congruence|].
  unfold hd0, last0. cbn [hd app].
  unfold pairs at 2. change (removelast (a :: b :: m)) with (a :: removelast (b :: m)). cbn [tl combine].
  fold (pairs (b :: m)).
  change (last (a :: b :: m) (0, 0)) with (last (b :: m) (0, 0)).
  assert (P : Permutation ((a, b) :: pairs (b :: m) ++ [(last (b :: m) (0, 0), a)])
                          ((last (b :: m) (0, 0), a) :: (a, b) :: pairs (b :: m))).
  { apply Permutation_sym. apply (Permutation_cons_append ((a, b) :: pairs (b :: m)) (last (b :: m) (0, 0), a)). }
  rewrite (crossing_count_perm p _ _ P). reflexivity.
Qed.

Lemma last0_rev l : l <> [] -> last0 (rev l) = hd0 l.
Proof. destruct l as [|b m]; [congruence|]. intros _. cbn [rev]. apply last0_snoc. Qed.

Lemma hd0_rev l : l <> [] -> hd0 (rev l) = last0 l.
Proof.
  intros H. assert (R : rev l <> []) by (destruct l; [congruence | cbn; destruct (rev l); discriminate]).
  rewrite <- (last0_rev (rev l) R). rewrite rev_involutive. reflexivity.
Qed.

Lemma pairs_rev v : pairs (rev v) = map swap (rev (pairs v)).
Proof.
  induction v as [|a l IH]; [reflexivity|].
  destruct l as [|b m]; [reflexivity|].
  assert (R : rev (b :: m) <> []) by (cbn; destruct (rev m); discriminate).
  change (rev (a :: b :: m)) with (rev (b :: m) ++ [a]).
  rewrite (pairs_snoc _ a R), IH, (last0_rev (b :: m) ltac:(discriminate)).
  unfold pairs at 2. change (removelast (a :: b :: m)) with (a :: removelast (b :: m)). cbn [tl combine].
  fold (pairs (b :: m)). cbn [rev]. rewrite map_app. reflexivity.
Qed.

Theorem crossing_reverse v p : crossing_spec (rev v) p = crossing_spec v p.
Proof.
  destruct v as [|a l]; [reflexivity|].
  assert (N : a :: l <> []) by discriminate.
  assert (R : rev (a :: l) <> []) by (cbn; destruct (rev l); discriminate).
  unfold crossing_spec.
  rewrite (crossing_count_perm p _ _ (edges_eq_pairs _ R)).
  rewrite (crossing_count_perm p _ _ (edges_eq_pairs _ N)).
  rewrite (last0_rev _ N), (hd0_rev _ N), pairs_rev.
  change ((hd0 (a :: l), last0 (a :: l)) :: map swap (rev (pairs (a :: l))))
    with (map swap ((last0 (a :: l), hd0 (a :: l)) :: rev (pairs (a :: l)))).
  rewrite crossing_count_swap.
  assert (P : Permutation ((last0 (a :: l), hd0 (a :: l)) :: rev (pairs (a :: l)))
                          ((last0 (a :: l), hd0 (a :: l)) :: pairs (a :: l)))
    by (apply perm_skip; apply Permutation_sym; apply Permutation_rev).
  rewrite (crossing_count_perm p _ _ P). reflexivity.
Qed.

(* ---------- remove_cutout ---------- *)
Theorem cutout_keep_inside_spec cls coords bs keep c :
  In c (remove_cutout cls coords bs false keep) <->
  In c coords /\ ((exists b, In b bs /\ cls b c = 1%Z) \/ (keep = true /\ exists b, In b bs /\ cls b c = 0%Z)).
Proof.
  unfold remove_cutout. rewrite filter_In. split; intros [Hc H]; split; auto.
  - apply orb_true_iff in H. destruct H as [H|H].
    + left. apply existsb_exists in H. destruct H as (r & Hr & E). apply in_map_iff in Hr. destruct Hr as (b & Eb & Hb).
      exists b. split; [exact Hb|]. subst r. apply Z.eqb_eq in E. symmetry. exact E.
    + right. apply andb_true_iff in H. destruct H as [H K]. split; [exact K|].
      apply existsb_exists in H. destruct H as (r & Hr & E). apply in_map_iff in Hr. destruct Hr as (b & Eb & Hb).
      exists b. split; [exact Hb|]. subst r. apply Z.eqb_eq in E. symmetry. exact E.
  - apply orb_true_iff. destruct H as [(b & Hb & E)|[K (b & Hb & E)]].
    + left. apply existsb_exists. exists (cls b c). split; [apply in_map_iff; exists b; auto | rewrite E; reflexivity].
    + right. apply andb_true_iff. split; [|exact K].
      apply existsb_exists. exists (cls b c). split; [apply in_map_iff; exists b; auto | rewrite E; reflexivity].
Qed.

Theorem cutout_remove_inside_spec cls coords bs keep c :
  In c (remove_cutout cls coords bs true keep) <->
  In c coords /\ (forall b, In b bs -> cls b c <> 1%Z) /\ (keep = false -> forall b, In b bs -> cls b c <> 0%Z).
Proof.
  unfold remove_cutout. rewrite filter_In. split.
  - intros [Hc H]. split; [exact Hc|]. apply andb_true_iff in H. destruct H as [H1 H2]. split.
    + intros b Hb E. apply negb_true_iff in H1.
      assert (X : existsb (Z.eqb 1) (map (fun b0 => cls b0 c) bs) = true)
        by (apply existsb_exists; exists (cls b c); split; [apply in_map_iff; exists b; auto | rewrite E; reflexivity]).
      congruence.
    + intros K b Hb E. subst keep. apply negb_true_iff in H2. cbn [negb] in H2. rewrite andb_true_r in H2.
      assert (X : existsb (Z.eqb 0) (map (fun b0 => cls b0 c) bs) = true)
        by (apply existsb_exists; exists (cls b c); split; [apply in_map_iff; exists b; auto | rewrite E; reflexivity]).
      congruence.
  - intros [Hc [H1 H2]]. split; [exact Hc|]. apply andb_true_iff. split.
    + apply negb_true_iff. destruct (existsb (Z.eqb 1) _) eqn:X; [|reflexivity]. exfalso.
      apply existsb_exists in X. destruct X as (r & Hr & E). apply in_map_iff in Hr. destruct Hr as (b & Eb & Hb).
      apply (H1 b Hb). subst r. apply Z.eqb_eq in E. symmetry. exact E.
    + apply negb_true_iff. destruct keep; [apply andb_false_r|]. cbn [negb]. rewrite andb_true_r.
      destruct (existsb (Z.eqb 0) _) eqn:X; [|reflexivity]. exfalso.
      apply existsb_exists in X. destruct X as (r & Hr & E). apply in_map_iff in Hr. destruct Hr as (b & Eb & Hb).
      apply (H2 eq_refl b Hb). subst r. apply Z.eqb_eq in E. symmetry. exact E.
Qed.

(* order of the kept points is the order of the grid: the result is a sub-list *)
Lemma cutout_sublist cls coords bs ri keep : exists f, remove_cutout cls coords bs ri keep = filter f coords.
Proof. eexists. reflexivity. Qed.
