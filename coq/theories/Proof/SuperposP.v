From Coq Require Import ZArith QArith List Bool Lia Lqa.
From GHE Require Import Base.QUtil Model.Superpos.
Import ListNotations.
Open Scope Q_scope.

Lemma fold_plus_ext (f g : nat -> Q) l : (forall k, In k l -> f k == g k) ->
  forall a b, a == b -> fold_left Qplus (map f l) a == fold_left Qplus (map g l) b.
Proof.
  induction l as [|x t IH]; intros H a b E; cbn [map fold_left]; [exact E|].
  apply IH; [intros k Hk; apply H; right; exact Hk|]. rewrite E, (H x (or_introl eq_refl)). reflexivity.
Qed.

Lemma fold_plus_scale (f : nat -> Q) (c : Q) l : forall a,
  fold_left Qplus (map (fun k => c * f k) l) (c * a) == c * fold_left Qplus (map f l) a.
Proof.
  induction l as [|x t IH]; intros a; cbn [map fold_left]; [reflexivity|].
  rewrite <- IH. apply fold_plus_ext; [intros; reflexivity | ring].
Qed.

Lemma fold_plus_add (f g : nat -> Q) l : forall a b,
  fold_left Qplus (map (fun k => f k + g k) l) (a + b) == fold_left Qplus (map f l) a + fold_left Qplus (map g l) b.
Proof.
  induction l as [|x t IH]; intros a b; cbn [map fold_left]; [reflexivity|].
  rewrite <- IH. apply fold_plus_ext; [intros; reflexivity | ring].
Qed.

Lemma fold_plus_zero (f : nat -> Q) l : (forall k, In k l -> f k == 0) -> fold_left Qplus (map f l) 0 == 0.
Proof.
  intros H. rewrite (fold_plus_ext f (fun _ => 0) l H 0 0 (Qeq_refl 0)).
  induction l as [|x t IH]; cbn [map fold_left]; [reflexivity|].
  assert (E : 0 + 0 == 0) by ring. rewrite (fold_plus_ext (fun _ => 0) (fun _ => 0) t (fun _ _ => Qeq_refl 0) (0 + 0) 0 E). apply IH.
  intros k Hk. apply H. right. exact Hk.
Qed.

Lemma fold_plus_nonneg (f : nat -> Q) l : (forall k, In k l -> 0 <= f k) -> forall a, 0 <= a -> 0 <= fold_left Qplus (map f l) a.
Proof.
  induction l as [|x t IH]; intros H a Ha; cbn [map fold_left]; [exact Ha|].
  apply IH; [intros k Hk; apply H; right; exact Hk|]. specialize (H x (or_introl eq_refl)). lra.
Qed.

Lemma nth_diffs (l : list Q) k : (S k < length l)%nat -> nth k (diffs l) 0 = nth (S k) l 0 - nth k l 0.
Proof.
  revert k. induction l as [|a t IH]; intros k Hk; [cbn in Hk; lia|].
  destruct t as [|b t']; [cbn in Hk; lia|].
  destruct k as [|k]; [reflexivity|]. cbn [diffs nth]. rewrite IH by (cbn in *; lia). reflexivity.
Qed.

Lemma nth_map_lt {A B} (f : A -> B) l j d d' : (j < length l)%nat -> nth j (map f l) d = f (nth j l d').
Proof. revert j; induction l as [|a t IH]; intros [|j] H; cbn in *; try lia; auto. apply IH; lia. Qed.

Lemma nth_qb s q i : (i <= length q)%nat -> nth i (qb s q) 0 == (match i with O => 0 | S j => nth j q 0 end) / nbh s.
Proof.
  intros Hi. unfold qb. destruct i as [|j]; [cbn; unfold Qdiv; ring|]. cbn [nth].
  rewrite (nth_map_lt (fun x => x / nbh s) q j 0 0) by lia. reflexivity.
Qed.

(* C09: the simulated temperature IS the documented superposition formula, every step of every load sequence *)
Theorem sim_eq_formula s K q n : (1 <= n <= length q)%nat ->
  ~ nbh s == 0 -> ~ Hh s == 0 -> ~ two_pi_k s == 0 -> ~ mdot s == 0 -> ~ cp s == 0 ->
  fst (step s K q n) == formula s K q n.
Proof.
  intros Hn N0 H0 P0 M0 C0. unfold step, formula. cbn [fst].
  rewrite (nth_qb s q n) by lia.
  destruct n as [|m]; [lia|].
  assert (D : delta_tb s K (diffs (qb s q)) (S m) ==
              fold_left Qplus (map (fun i => ((match S i with O => 0 | S j => nth j q 0 end) - (match i with O => 0 | S j => nth j q 0 end)) * K (S m) i) (seq 0 (S m))) 0
              / (two_pi_k s * Hh s * nbh s)).
  { unfold delta_tb.
    set (c := / (two_pi_k s * Hh s * nbh s)).
    assert (E : forall k, In k (seq 0 (S m)) ->
                nth k (diffs (qb s q)) 0 / Hh s / two_pi_k s * K (S m) k ==
                c * (((match S k with O => 0 | S j => nth j q 0 end) - (match k with O => 0 | S j => nth j q 0 end)) * K (S m) k)).
    { intros k Hk. apply in_seq in Hk.
      rewrite nth_diffs by (unfold qb; cbn [length]; rewrite map_length; lia).
      rewrite (nth_qb s q (S k)) by lia. rewrite (nth_qb s q k) by lia. unfold c. field. repeat split; assumption. }
    rewrite (fold_plus_ext _ _ _ E 0 (c * 0)) by ring.
    rewrite fold_plus_scale. unfold c, Qdiv. ring. }
  rewrite D. field. repeat split; assumption.
Qed.

(* zero load returns exactly the ground temperature *)
Theorem zero_load_is_Tg s K q n : (1 <= n <= length q)%nat -> (forall k, nth k q 0 == 0) ->
  ~ nbh s == 0 -> ~ Hh s == 0 -> ~ two_pi_k s == 0 -> ~ mdot s == 0 -> ~ cp s == 0 ->
  fst (step s K q n) == Tg s.
Proof.
  intros Hn Z N0 H0 P0 M0 C0. rewrite sim_eq_formula by assumption. unfold formula.
  destruct n as [|m]; [lia|].
  rewrite fold_plus_zero.
  - rewrite (Z m). field. repeat split; assumption.
  - intros k _. destruct k; rewrite ?Z; ring.
Qed.

(* the departure from the ground temperature is linear in the loads, and the ground temperature only shifts the result *)
Theorem linear_in_load s K q c n : (1 <= n <= length q)%nat ->
  ~ nbh s == 0 -> ~ Hh s == 0 -> ~ two_pi_k s == 0 -> ~ mdot s == 0 -> ~ cp s == 0 ->
  formula s K (map (Qmult c) q) n - Tg s == c * (formula s K q n - Tg s).
Proof.
  intros Hn N0 H0 P0 M0 C0. unfold formula.
  assert (Nq : forall j, nth j (map (Qmult c) q) 0 == c * nth j q 0).
  { intros j. destruct (Nat.lt_ge_cases j (length q)) as [L|L].
    - rewrite (nth_map_lt (Qmult c) q j 0 0) by lia. reflexivity.
    - rewrite !nth_overflow by (rewrite ?map_length; lia). ring. }
  destruct n as [|m]; [lia|].
  set (F := fun i => ((match S i with O => 0 | S j => nth j q 0 end) - (match i with O => 0 | S j => nth j q 0 end)) * K (S m) i).
  assert (E : fold_left Qplus (map (fun i => ((match S i with O => 0 | S j => nth j (map (Qmult c) q) 0 end) - (match i with O => 0 | S j => nth j (map (Qmult c) q) 0 end)) * K (S m) i) (seq 0 (S m))) 0
              == c * fold_left Qplus (map F (seq 0 (S m))) 0).
  { rewrite <- fold_plus_scale. apply fold_plus_ext; [|ring].
    intros k _. unfold F. destruct k; rewrite ?Nq; ring. }
  rewrite E, (Nq m). fold F. field. repeat split; assumption.
Qed.

Theorem shift_in_Tg s K q n d :
  formula {| nbh := nbh s; Hh := Hh s; two_pi_k := two_pi_k s; Tg := Tg s + d; Rb := Rb s; mdot := mdot s; cp := cp s |} K q n
  == formula s K q n + d.
Proof. unfold formula. cbn. ring. Qed.

(* heat rejection raises the temperature: non-negative loads, a non-negative kernel that does not decrease with elapsed time,
   and a borehole resistance term that dominates the advective term *)
Theorem rejection_raises s K q n : (1 <= n <= length q)%nat ->
  0 < nbh s -> 0 < Hh s -> 0 < two_pi_k s -> 0 < mdot s -> 0 < cp s ->
  (forall k, 0 <= nth k q 0) ->
  (forall i k, (k < i)%nat -> 0 <= K i k) -> (forall i k, (S k < i)%nat -> K i (S k) <= K i k) ->
  1 / (2 * mdot s * cp s) <= Rb s / Hh s ->
  Tg s <= formula s K q n.
Proof.
  intros Hn N0 H0 P0 M0 C0 Qp Kp Km Hr. unfold formula. cbv zeta.
  destruct n as [|m]; [lia|].
  (* Abel summation: sum_{i<=m} (q_{i+1} - q_i) K_i = q_{m+1} K_m + sum_{i<m} q_{i+1} (K_i - K_{i+1}) >= 0 *)
  set (qf := fun i => match i with O => 0 | S j => nth j q 0 end).
  assert (SumS : forall (f : nat -> Q) r, fold_left Qplus (map f (seq 0 (S r))) 0 == fold_left Qplus (map f (seq 0 r)) 0 + f r).
  { intros f r. rewrite seq_S, map_app, fold_left_app. cbn [map fold_left plus]. reflexivity. }
  assert (A : forall r, fold_left Qplus (map (fun i => (qf (S i) - qf i) * K (S m) i) (seq 0 (S r))) 0 ==
              qf (S r) * K (S m) r + fold_left Qplus (map (fun i => qf (S i) * (K (S m) i - K (S m) (S i))) (seq 0 r)) 0).
  { induction r as [|r IH].
    - cbn. unfold qf. ring.
    - rewrite SumS, IH, (SumS (fun i => qf (S i) * (K (S m) i - K (S m) (S i))) r). ring. }
  assert (S1 : 0 <= fold_left Qplus (map (fun i => (qf (S i) - qf i) * K (S m) i) (seq 0 (S m))) 0).
  { rewrite (A m).
    assert (X : 0 <= fold_left Qplus (map (fun i => qf (S i) * (K (S m) i - K (S m) (S i))) (seq 0 m)) 0).
    { apply fold_plus_nonneg; [|lra]. intros k Hk. apply in_seq in Hk.
      assert (0 <= qf (S k)) by (unfold qf; apply Qp). assert (K (S m) (S k) <= K (S m) k) by (apply Km; lia). nra. }
    assert (0 <= qf (S m)) by (unfold qf; apply Qp). assert (0 <= K (S m) m) by (apply Kp; lia). nra. }
  set (S0 := fold_left Qplus _ 0) in *.
  assert (Q0 : 0 <= qf (S m)) by (unfold qf; apply Qp).
  assert (T1 : 0 <= S0 / (two_pi_k s * Hh s * nbh s)).
  { assert (P1 : 0 < two_pi_k s * Hh s) by (apply Qmult_lt_0_compat; assumption).
    assert (P2 : 0 < two_pi_k s * Hh s * nbh s) by (apply Qmult_lt_0_compat; assumption).
    apply Qle_shift_div_l; [exact P2 | lra]. }
  assert (T2 : qf (S m) / (2 * mdot s * cp s * nbh s) <= qf (S m) * Rb s / (Hh s * nbh s)).
  { assert (E1 : qf (S m) / (2 * mdot s * cp s * nbh s) == (qf (S m) / nbh s) * (1 / (2 * mdot s * cp s))) by (field; repeat split; lra).
    assert (E2 : qf (S m) * Rb s / (Hh s * nbh s) == (qf (S m) / nbh s) * (Rb s / Hh s)) by (field; split; lra).
    rewrite E1, E2. assert (0 <= qf (S m) / nbh s) by (apply Qle_shift_div_l; lra). nra. }
  change (nth m q 0) with (qf (S m)). lra.
Qed.
