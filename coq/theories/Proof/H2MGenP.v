From Coq Require Import ZArith QArith Qround List Bool Lia Lqa.
From GHE Require Import Base.QUtil gen.Src Model.OutputTime Proof.OutputTimeSpecP.
(* Proof/H2MGenP.v — the hours_to_month REGENERATED from output.py equals the reference conversion for EVERY rational hour count *)
Import ListNotations.
Open Scope Q_scope.

Lemma brk_stuck {U} (f : bool * Q -> Q * U -> bool * Q) (L : list (Q * U)) s :
  (forall st p, fst st = true -> f st p = st) -> fst s = true -> fold_left f L s = s.
Proof. intros Hf. induction L as [|p t IH]; intros Hs; cbn [fold_left]; [reflexivity|]. rewrite Hf by exact Hs. apply IH. exact Hs. Qed.

Lemma brk_fold {U} (P : Q -> bool) (L : list (Q * U)) (m0 : Q) :
  fold_left (fun (st_ : bool * Q) '(idx, _u) => let '(brk_, miy) := st_ in if (brk_ : bool) then st_ else if P idx then (true, idx) else (false, miy)) L (false, m0)
  = match find (fun p => P (fst p)) L with Some p => (true, fst p) | None => (false, m0) end.
Proof.
  induction L as [|[i u] t IH]; cbn [fold_left find fst]; [reflexivity|].
  destruct (P i) eqn:E.
  - apply brk_stuck; [|reflexivity]. intros [b m] [j v] Hb. cbn in Hb. subst b. reflexivity.
  - apply IH.
Qed.


Definition HIY : list Q := map (fun x : Q => qmul HRS_IN_DAY x) [31; 28; 31; 30; 31; 30; 31; 31; 30; 31; 30; 31].
Lemma hiy_sum : qsum HIY = 8760. Proof. vm_compute. reflexivity. Qed.


Lemma qfloor_n hours : qfloor (qdiv hours 8760) = inject_Z (Qfloor (hours / 8760)).
Proof. unfold qfloor. f_equal. apply Qfloor_comp. rewrite qdiv_eq. reflexivity. Qed.

Lemma gen_char hours : let N := Qfloor (hours / 8760) in let r' := hours - inject_Z N * 8760 in
  exists k, (k <= 11)%nat /\ hours_to_month hours == 12 * inject_Z N + Fk k r' /\ inject_Z (cal_cum k) <= r' /\ r' <= inject_Z (cal_cum (S k)).
Proof.
  intros N r'. destruct (floor_decomp hours) as [R0 R1]. fold N in R0, R1. fold r' in R0, R1.
  unfold hours_to_month. cbv zeta. fold HIY. rewrite hiy_sum. rewrite qfloor_n. fold N.
  set (r := qsub hours (qmul (inject_Z N) 8760)).
  assert (Hr : r == r') by (unfold r, r'; qnorm; reflexivity).
  match goal with |- context [fold_left ?f ?L ?s] =>
    assert (E : fold_left f L s = match find (fun p : Q * Q => qleb r (qsum (sliceD HIY 0 (qadd (fst p) 1)))) L with Some p => (true, fst p) | None => (false, 0) end)
      by (exact (brk_fold (fun idx => qleb r (qsum (sliceD HIY 0 (qadd idx 1)))) L 0)); rewrite E; clear E end.
  match goal with |- context [qenumerate ?l] => let v := eval vm_compute in (qenumerate l) in change (qenumerate l) with v end.
  match goal with |- context [qlen ?l] => let v := eval vm_compute in (qlen l) in change (qlen l) with v end.
  cbn [find fst].
  repeat match goal with |- context [qsum (sliceD HIY 0 (qadd ?a 1))] =>
    let v := eval vm_compute in (qsum (sliceD HIY 0 (qadd a 1))) in change (qsum (sliceD HIY 0 (qadd a 1))) with v end.
  Ltac fin k := exists k; cbv iota beta; cbn [fst];
    repeat match goal with |- context [qsum (sliceD HIY 0 ?a)] =>
      let v := eval vm_compute in (qsum (sliceD HIY 0 a)) in change (qsum (sliceD HIY 0 a)) with v end;
    repeat match goal with |- context [nthD HIY ?a] =>
      let v := eval vm_compute in (nthD HIY a) in change (nthD HIY a) with v end;
    split; [lia|]; qnorm; calc; split; [|split]; lra.
  destruct (qleb_spec r 744) as [L0|L0]; [fin 0%nat|].
  destruct (qleb_spec r 1416) as [L1|L1]; [fin 1%nat|].
  destruct (qleb_spec r 2160) as [L2|L2]; [fin 2%nat|].
  destruct (qleb_spec r 2880) as [L3|L3]; [fin 3%nat|].
  destruct (qleb_spec r 3624) as [L4|L4]; [fin 4%nat|].
  destruct (qleb_spec r 4344) as [L5|L5]; [fin 5%nat|].
  destruct (qleb_spec r 5088) as [L6|L6]; [fin 6%nat|].
  destruct (qleb_spec r 5832) as [L7|L7]; [fin 7%nat|].
  destruct (qleb_spec r 6552) as [L8|L8]; [fin 8%nat|].
  destruct (qleb_spec r 7296) as [L9|L9]; [fin 9%nat|].
  destruct (qleb_spec r 8016) as [L10|L10]; [fin 10%nat|].
  destruct (qleb_spec r 8760) as [L11|L11]; [fin 11%nat|].
  exfalso. lra.
Qed.

Theorem hours_to_month_is_spec hours : hours_to_month hours == h2m_spec hours.
Proof.
  destruct (gen_char hours) as (k & K & E & A & B). rewrite E, h2m_spec_eq.
  destruct (floor_decomp hours) as [R0 R1].
  set (r := hours - inject_Z (Qfloor (hours / 8760)) * 8760) in *.
  destruct (F_char r) as (k' & K' & E' & A' & B'); [lra|lra|]. rewrite E'.
  destruct (Fk_lip k k' r r K K' (Qle_refl r) A B A' B') as [P1 P2].
  unfold Qdiv in P2. lra.
Qed.

(* the theorems about the reference conversion, transported to the generated function *)
Theorem gen_h2m_lipschitz h1 h2 : h1 <= h2 ->
  0 <= hours_to_month h2 - hours_to_month h1 /\ hours_to_month h2 - hours_to_month h1 <= (h2 - h1) / 672.
Proof. intros H. rewrite !hours_to_month_is_spec. apply h2m_spec_lipschitz. exact H. Qed.

Theorem gen_h2m_month_end (n : Z) (k : nat) : (1 <= k <= 12)%nat ->
  hours_to_month (inject_Z (8760 * n + cal_cum k)) == inject_Z (12 * n + Z.of_nat k).
Proof. intros K. rewrite hours_to_month_is_spec. apply h2m_spec_month_end. exact K. Qed.
