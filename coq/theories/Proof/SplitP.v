(* Proof/SplitP.v — HybridLoad.split_heat_and_cool REGENERATED from ground_loads.py: the hourly profile (W, heating positive) becomes two
   non-negative kW series of the same length, never both non-zero in one hour, whose difference is the profile *)
From Coq Require Import ZArith QArith Qabs List Bool Lqa.
From GHE Require Import Base.QUtil gen.Src.
Import ListNotations.
Open Scope Q_scope.

Lemma split_lengths raw : length (fst (split_heat_and_cool raw)) = length raw /\ length (snd (split_heat_and_cool raw)) = length raw.
Proof. unfold split_heat_and_cool. cbn [fst snd]. rewrite !map_length. split; reflexivity. Qed.

Lemma split_pointwise raw k : (k < length raw)%nat ->
  let rej := nth k (fst (split_heat_and_cool raw)) 0 in
  let ext := nth k (snd (split_heat_and_cool raw)) 0 in
  0 <= rej /\ 0 <= ext /\ (rej == 0 \/ ext == 0) /\ ext - rej == nth k raw 0 / 1000.
Proof.
  intros L. unfold split_heat_and_cool. cbn [fst snd]. cbv zeta.
  set (fe := fun x : Q => if qleb 0 x then qdiv x 1000 else 0).
  set (fr := fun x : Q => if qltb x 0 then qdiv (qabs x) 1000 else 0).
  rewrite (nth_indep (map fr raw) 0 (fr 0)) by (rewrite map_length; exact L).
  rewrite (nth_indep (map fe raw) 0 (fe 0)) by (rewrite map_length; exact L).
  rewrite !map_nth. set (x := nth k raw 0). unfold fe, fr, qabs.
  destruct (qleb_spec 0 x) as [P|P]; destruct (qltb_spec x 0) as [N|N]; try lra; rewrite ?qdiv_eq.
  - assert (E : x / 1000 == x * (1 # 1000)) by (field). rewrite E. repeat split; try lra; try (left; reflexivity).
  - assert (A : Qabs x == - x) by (apply Qabs_neg; lra). rewrite A.
    assert (E : - x / 1000 == - x * (1 # 1000)) by (field). assert (E2 : x / 1000 == x * (1 # 1000)) by (field). rewrite E, E2.
    repeat split; try lra; try (right; reflexivity).
Qed.
