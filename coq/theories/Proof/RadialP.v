(* Proof/RadialP.v — conservation, discrete minimum principle (positivity), fixed point, geometry of the radial model *)
From Coq Require Import ZArith QArith List Bool Lia Lqa.
From GHE Require Import Base.QUtil Model.Radial.
Import ListNotations.
Open Scope Q_scope.

(* ---------- one implicit step, for ANY number of cells and ANY positive coefficients ---------- *)
Section Step.
Variable n : nat.                               (* index of the last (far-field) cell *)
Variables cond cap told x : nat -> Q.           (* conductance i <-> i+1, capacity/dt, old and new temperatures *)
Variable q : Q.
Hypothesis cap_pos : forall i, 0 < cap i.
Hypothesis cond_nonneg : forall i, 0 <= cond i.
(* the rows of the code's system, multiplied by -1 (see Model/Radial.assemble):
   row 0:   (1 + c0/ad0) x0 - (c0/ad0) x1 = T0 + q/ad0
   row i:  -(c(i-1)/adi) x(i-1) + (1 + c(i-1)/adi + ci/adi) xi - (ci/adi) x(i+1) = Ti
   row n:   xn = Tn *)
Hypothesis row0 : (0 < n)%nat -> (1 + cond 0%nat / cap 0%nat) * x 0%nat - cond 0%nat / cap 0%nat * x 1%nat == told 0%nat + q / cap 0%nat.
Hypothesis rowi : forall i, (0 < i < n)%nat ->
  - (cond (i - 1)%nat / cap i) * x (i - 1)%nat + (1 + cond (i - 1)%nat / cap i + cond i / cap i) * x i - cond i / cap i * x (S i) == told i.
Hypothesis rown : x n == told n.

Fixpoint stored (m : nat) : Q := match m with O => 0 | S k => stored k + cap k * (x k - told k) end.     (* sum_{i<m} *)

(* telescoping: the heat stored in cells 0..m-1 equals the injected heat minus what crosses the face m-1 | m *)
Lemma stored_flux m : (0 < m <= n)%nat -> stored m == q - cond (m - 1)%nat * (x (m - 1)%nat - x m).
Proof.
  induction m as [|m IH]; intros Hm; [lia|].
  destruct m as [|m].
  - cbn [stored]. pose proof (row0 ltac:(lia)) as R. pose proof (cap_pos 0%nat) as P.
    assert (E : cap 0%nat * (x 0%nat - told 0%nat) == q - cond 0%nat * (x 0%nat - x 1%nat)).
    { assert (R' : cap 0%nat * ((1 + cond 0%nat / cap 0%nat) * x 0%nat - cond 0%nat / cap 0%nat * x 1%nat) == cap 0%nat * (told 0%nat + q / cap 0%nat)) by (rewrite R; reflexivity).
      assert (L : cap 0%nat * ((1 + cond 0%nat / cap 0%nat) * x 0%nat - cond 0%nat / cap 0%nat * x 1%nat) == cap 0%nat * x 0%nat + cond 0%nat * x 0%nat - cond 0%nat * x 1%nat) by (field; lra).
      assert (Rr : cap 0%nat * (told 0%nat + q / cap 0%nat) == cap 0%nat * told 0%nat + q) by (field; lra).
      lra. }
    cbn [Nat.sub]. lra.
  - cbn [stored] in *. rewrite (IH ltac:(lia)).
    pose proof (rowi (S m) ltac:(lia)) as R. pose proof (cap_pos (S m)) as P.
    replace (S m - 1)%nat with m in * by lia. replace (S (S m) - 1)%nat with (S m) by lia.
    set (a := cond m) in *. set (c := cond (S m)) in *. set (d := cap (S m)) in *.
    assert (E : d * (x (S m) - told (S m)) == a * (x m - x (S m)) - c * (x (S m) - x (S (S m)))).
    { assert (R' : d * (- (a / d) * x m + (1 + a / d + c / d) * x (S m) - c / d * x (S (S m))) == d * told (S m)) by (rewrite R; reflexivity).
      assert (L : d * (- (a / d) * x m + (1 + a / d + c / d) * x (S m) - c / d * x (S (S m))) == - a * x m + d * x (S m) + a * x (S m) + c * x (S m) - c * x (S (S m))) by (field; lra).
      lra. }
    lra.
Qed.

(* C10 conservation: the heat stored in all cells but the far-field one = injected heat - heat leaving into the far-field cell *)
Theorem step_conserves : (0 < n)%nat -> stored n == q - cond (n - 1)%nat * (x (n - 1)%nat - x n).
Proof. intros H. apply stored_flux. lia. Qed.

(* discrete minimum principle: non-negative data give a non-negative solution *)
Lemma argmin : forall m, exists j, (j <= m)%nat /\ forall i, (i <= m)%nat -> x j <= x i.
Proof.
  induction m as [|m [j [Hj Hmin]]].
  - exists 0%nat. split; [lia|]. intros i Hi. assert (i = 0)%nat by lia. subst. lra.
  - destruct (Qlt_le_dec (x (S m)) (x j)) as [Hlt|Hge].
    + exists (S m). split; [lia|]. intros i Hi. destruct (Nat.eq_dec i (S m)) as [->|Hne]; [lra|]. specialize (Hmin i ltac:(lia)). lra.
    + exists j. split; [lia|]. intros i Hi. destruct (Nat.eq_dec i (S m)) as [->|Hne]; [lra|]. apply Hmin. lia.
Qed.

Theorem step_positive : 0 <= q -> (forall i, (i <= n)%nat -> 0 <= told i) -> forall i, (i <= n)%nat -> 0 <= x i.
Proof.
  intros Hq Ht. destruct (argmin n) as [j [Hj Hmin]].
  assert (Hxj : 0 <= x j).
  { destruct (Nat.eq_dec j n) as [->|Hne]; [rewrite rown; apply Ht; lia|].
    assert (Hjn : (j < n)%nat) by lia.
    pose proof (cap_pos j) as P. pose proof (cond_nonneg j) as C. pose proof (Ht j ltac:(lia)) as T.
    assert (Hnext : x j <= x (S j)) by (apply Hmin; lia).
    destruct j as [|j'].
    - pose proof (row0 ltac:(lia)) as R.
      assert (K : 0 <= cond 0%nat / cap 0%nat) by (apply Qle_shift_div_l; lra).
      assert (Q0 : 0 <= q / cap 0%nat) by (apply Qle_shift_div_l; lra).
      nra.
    - pose proof (rowi (S j') ltac:(lia)) as R. replace (S j' - 1)%nat with j' in R by lia.
      pose proof (cond_nonneg j') as C'.
      assert (Hprev : x (S j') <= x j') by (apply Hmin; lia).
      assert (K1 : 0 <= cond j' / cap (S j')) by (apply Qle_shift_div_l; lra).
      assert (K2 : 0 <= cond (S j') / cap (S j')) by (apply Qle_shift_div_l; lra).
      nra. }
  intros i Hi. specialize (Hmin i Hi). lra.
Qed.
End Step.

(* a uniform temperature field with no injected heat is a fixed point of the step: A * const = const *)
Theorem uniform_is_fixed_point (n : nat) (cond cap : nat -> Q) (T0 : Q) : (forall i, 0 < cap i) ->
  let x := fun _ : nat => T0 in
  ((1 + cond 0%nat / cap 0%nat) * x 0%nat - cond 0%nat / cap 0%nat * x 1%nat == T0 + 0 / cap 0%nat) /\
  (forall i, - (cond (i - 1)%nat / cap i) * x (i - 1)%nat + (1 + cond (i - 1)%nat / cap i + cond i / cap i) * x i - cond i / cap i * x (S i) == T0).
Proof. intros P x. subst x. split; [|intros i]; field; pose proof (P 0%nat); try pose proof (P i); lra. Qed.

(* the step is linear: the difference of two solutions solves the system with the difference of the data.  With
   step_positive this gives monotonicity: more injected heat / warmer start => warmer everywhere *)
Theorem step_monotone (n : nat) (cond cap t1 t2 x1 x2 : nat -> Q) (q1 q2 : Q) :
  (forall i, 0 < cap i) -> (forall i, 0 <= cond i) ->
  ((0 < n)%nat -> (1 + cond 0%nat / cap 0%nat) * x1 0%nat - cond 0%nat / cap 0%nat * x1 1%nat == t1 0%nat + q1 / cap 0%nat) ->
  ((0 < n)%nat -> (1 + cond 0%nat / cap 0%nat) * x2 0%nat - cond 0%nat / cap 0%nat * x2 1%nat == t2 0%nat + q2 / cap 0%nat) ->
  (forall i, (0 < i < n)%nat -> - (cond (i - 1)%nat / cap i) * x1 (i - 1)%nat + (1 + cond (i - 1)%nat / cap i + cond i / cap i) * x1 i - cond i / cap i * x1 (S i) == t1 i) ->
  (forall i, (0 < i < n)%nat -> - (cond (i - 1)%nat / cap i) * x2 (i - 1)%nat + (1 + cond (i - 1)%nat / cap i + cond i / cap i) * x2 i - cond i / cap i * x2 (S i) == t2 i) ->
  x1 n == t1 n -> x2 n == t2 n ->
  q1 <= q2 -> (forall i, (i <= n)%nat -> t1 i <= t2 i) -> forall i, (i <= n)%nat -> x1 i <= x2 i.
Proof.
  intros P C R01 R02 Ri1 Ri2 Rn1 Rn2 Hq Ht i Hi.
  assert (D : 0 <= (fun k => x2 k - x1 k) i).
  { apply (step_positive n cond cap (fun k => t2 k - t1 k) (fun k => x2 k - x1 k) (q2 - q1) P C).
    - intros Hn. specialize (R01 Hn). specialize (R02 Hn). cbv beta.
      assert (E : (q2 - q1) / cap 0%nat == q2 / cap 0%nat - q1 / cap 0%nat) by (field; pose proof (P 0%nat); lra). rewrite E. lra.
    - intros k Hk. specialize (Ri1 k Hk). specialize (Ri2 k Hk). cbv beta. lra.
    - cbv beta. lra.
    - lra.
    - intros k Hk. specialize (Ht k Hk). cbv beta. lra.
    - exact Hi. }
  cbv beta in D. lra.
Qed.

(* ---------- geometry ---------- *)
(* consecutive cells of a region tile it without gaps; the region ends at r0 + count * thickness *)
Theorem cells_tile r0 thick j : cell_out r0 thick j == cell_in r0 thick (S j).
Proof.
  unfold cell_out, cell_in, natQ. rewrite Nat2Z.inj_succ, <- Z.add_1_r, inject_Z_plus. change (inject_Z 1) with 1. ring.
Qed.
Theorem region_ends r0 thick (count : nat) r1 : ~ natQ count == 0 -> thick == (r1 - r0) / natQ count -> cell_in r0 thick count == r1.
Proof. intros N E. unfold cell_in. rewrite E. field. exact N. Qed.

(* total volume of a region = pi (r_end^2 - r0^2): telescoping sum over its cells *)
Fixpoint region_vol (pi_ r0 thick : Q) (count : nat) : Q := match count with O => 0 | S k => region_vol pi_ r0 thick k + cell_vol pi_ r0 thick k end.
Theorem region_volume pi_ r0 thick count :
  region_vol pi_ r0 thick count == pi_ * (cell_in r0 thick count * cell_in r0 thick count - r0 * r0).
Proof.
  induction count as [|k IH]; cbn [region_vol].
  - unfold cell_in, natQ. cbn. ring.
  - rewrite IH. unfold cell_vol. rewrite (cells_tile r0 thick k). ring.
Qed.

(* the fluid cells carry exactly the thermal mass of the fluid in both pipe legs:
   rho_cp_eq = 2 r_p_in^2 C_f / (r_conv^2 - r_fluid^2), so  sum rho_cp_eq * vol = 2 pi r_p_in^2 C_f *)
Theorem fluid_thermal_mass pi_ r_fluid r_conv r_p_in c_f thick (count : nat) :
  cell_in r_fluid thick count == r_conv -> ~ r_conv * r_conv - r_fluid * r_fluid == 0 ->
  (2 * (r_p_in * r_p_in) * c_f / (r_conv * r_conv - r_fluid * r_fluid)) * region_vol pi_ r_fluid thick count == 2 * pi_ * (r_p_in * r_p_in) * c_f.
Proof. intros E N. rewrite region_volume, E. field. exact N. Qed.

(* a layer whose conductivity is defined as ln(ro/ri)/(2 pi R) has exactly the resistance R (L stands for the logarithm) *)
Theorem layer_resistance two_pi L R : ~ L == 0 -> ~ R == 0 -> ~ two_pi == 0 ->
  let k := L / (two_pi * R) in L / (two_pi * k) == R.
Proof. intros A B C k. subst k. field. repeat split; assumption. Qed.
(* convection layer R_f/2 plus pipe+grout layers R_b - R_f/2 add up to the effective borehole resistance *)
Theorem layers_sum_to_Rb two_pi L1 L2 Rb Rf : ~ L1 == 0 -> ~ L2 == 0 -> ~ two_pi == 0 -> ~ Rf / 2 == 0 -> ~ Rb - Rf / 2 == 0 ->
  L1 / (two_pi * (L1 / (two_pi * (Rf / 2)))) + L2 / (two_pi * (L2 / (two_pi * (Rb - Rf / 2)))) == Rb.
Proof.
  intros A B C D E. rewrite (layer_resistance two_pi L1 (Rf / 2) A D C). rewrite (layer_resistance two_pi L2 (Rb - Rf / 2) B E C). ring.
Qed.

(* g-function definitions: g >= -2 pi k Rb whenever the fluid cell is not colder than the initial temperature *)
Theorem g_lower_bound c0 rb q init t0 : 0 < q -> 0 <= c0 -> init <= t0 -> - c0 * rb <= g_value c0 rb q init t0.
Proof.
  intros Hq Hc Ht. unfold g_value. assert (0 <= (t0 - init) / q) by (apply Qle_shift_div_l; lra). nra.
Qed.
Theorem g_bhw_nonneg c0 q init tw : 0 < q -> 0 <= c0 -> init <= tw -> 0 <= g_bhw_value c0 q init tw.
Proof.
  intros Hq Hc Ht. unfold g_bhw_value. assert (0 <= (tw - init) / q) by (apply Qle_shift_div_l; lra). nra.
Qed.

(* ---------- the whole time march ---------- *)
Definition solves (n : nat) (cond cap told x : nat -> Q) (q : Q) : Prop :=
  ((0 < n)%nat -> (1 + cond 0%nat / cap 0%nat) * x 0%nat - cond 0%nat / cap 0%nat * x 1%nat == told 0%nat + q / cap 0%nat) /\
  (forall i, (0 < i < n)%nat -> - (cond (i - 1)%nat / cap i) * x (i - 1)%nat + (1 + cond (i - 1)%nat / cap i + cond i / cap i) * x i - cond i / cap i * x (S i) == told i) /\
  x n == told n.

(* every time step warms every cell a little more (or leaves it): temperatures, hence g and g at the wall, never decrease in time,
   and never fall below the initial temperature.  For ANY number of cells, ANY positive capacities, ANY non-negative conductances,
   ANY number of steps, ANY sequence of solutions of the step equations. *)
Theorem march_nondecreasing (n : nat) (cond cap : nat -> Q) (T : nat -> nat -> Q) (init q : Q) :
  (forall i, 0 < cap i) -> (forall i, 0 <= cond i) -> 0 <= q ->
  (forall i, T 0%nat i == init) -> (forall k, solves n cond cap (T k) (T (S k)) q) ->
  forall k i, (i <= n)%nat -> T k i <= T (S k) i.
Proof.
  intros P C Hq H0 Hs. induction k as [|k IH]; intros i Hi.
  - destruct (Hs 0%nat) as (R0 & Ri & Rn).
    destruct (uniform_is_fixed_point n cond cap init P) as [U0 Ui]. cbv beta in U0, Ui.
    assert (M : (fun _ : nat => init) i <= T 1%nat i).
    { apply (step_monotone n cond cap (fun _ => init) (T 0%nat) (fun _ => init) (T 1%nat) 0 q P C (fun _ => U0) R0 (fun j _ => Ui j) Ri (Qeq_refl _) Rn Hq);
      [intros j _; rewrite H0; lra | exact Hi]. }
    cbv beta in M. rewrite H0. exact M.
  - destruct (Hs k) as (A0 & Ai & An). destruct (Hs (S k)) as (B0 & Bi & Bn).
    apply (step_monotone n cond cap (T k) (T (S k)) (T (S k)) (T (S (S k))) q q P C A0 B0 Ai Bi An Bn (Qle_refl q)); [exact IH | exact Hi].
Qed.

Corollary march_above_initial (n : nat) (cond cap : nat -> Q) (T : nat -> nat -> Q) (init q : Q) :
  (forall i, 0 < cap i) -> (forall i, 0 <= cond i) -> 0 <= q ->
  (forall i, T 0%nat i == init) -> (forall k, solves n cond cap (T k) (T (S k)) q) ->
  forall k i, (i <= n)%nat -> init <= T k i.
Proof.
  intros P C Hq H0 Hs. induction k as [|k IH]; intros i Hi; [rewrite H0; lra|].
  pose proof (march_nondecreasing n cond cap T init q P C Hq H0 Hs k i Hi). specialize (IH i Hi). lra.
Qed.
