From Coq Require Import ZArith QArith List Bool Lia Lqa.
From GHE Require Import Base.QUtil gen.Src Model.GJoin.
Import ListNotations.
Open Scope Q_scope.

Lemma si_cons a l : strictly_increasing (a :: l) -> strictly_increasing l.
Proof. destruct l; cbn; tauto. Qed.

Lemma si_head_lt a l x : strictly_increasing (a :: l) -> In x l -> a < x.
Proof.
  revert a. induction l as [|b t IH]; intros a H Hin; [destruct Hin|].
  cbn in H. destruct H as [Hab Ht]. destruct Hin as [E|Hin]; [subst; exact Hab|]. specialize (IH b Ht Hin). lra.
Qed.

Lemma firstn_count_le_all x l : forall y, In y (firstn (count_le x l) l) -> y <= x.
Proof.
  induction l as [|h t IH]; cbn [count_le]; intros y Hy; [destruct Hy|].
  destruct (qleb_spec h x) as [L|L]; cbn [firstn] in Hy; [|destruct Hy].
  destruct Hy as [E|Hy]; [subst; exact L | apply IH; exact Hy].
Qed.

Lemma in_firstn {A} (l : list A) k y : In y (firstn k l) -> In y l.
Proof. revert k. induction l as [|a t IH]; intros [|k] H; cbn in *; try tauto. destruct H as [E|H]; [left; exact E | right; apply (IH k); exact H]. Qed.

Lemma si_firstn l k : strictly_increasing l -> strictly_increasing (firstn k l).
Proof.
  revert k. induction l as [|a t IH]; intros k H; [destruct k; exact I|].
  destruct k as [|k]; [exact I|]. cbn [firstn].
  destruct t as [|b t']; [destruct k; exact I|].
  destruct k as [|k]; [exact I|]. cbn [firstn]. cbn in H. destruct H as [Hab Ht]. split; [exact Hab|].
  apply (IH (S k) Ht).
Qed.

Lemma si_app l1 l2 : strictly_increasing l1 -> strictly_increasing l2 ->
  (forall a b, In a l1 -> In b l2 -> a < b) -> strictly_increasing (l1 ++ l2).
Proof.
  induction l1 as [|a t IH]; intros H1 H2 Hc; [exact H2|].
  destruct t as [|b t'].
  - cbn [app]. destruct l2 as [|c l2']; [exact I|]. split; [apply Hc; left; reflexivity | exact H2].
  - cbn [app]. cbn in H1. destruct H1 as [Hab Ht]. split; [exact Hab|].
    apply IH; [exact Ht | exact H2 | intros x y Hx Hy; apply Hc; [right; exact Hx | exact Hy]].
Qed.

(* C11: for strictly increasing axes where no short-time point equals the first long-time point, the joined axis is strictly
   increasing, ends with the whole long-time curve, and starts with exactly the short-time points below the first long-time point *)
Theorem combine_axis t_lts g_lts t_sts g_sts : strictly_increasing t_lts -> strictly_increasing t_sts -> t_lts <> [] ->
  (forall y, In y t_sts -> ~ y == hd 0 t_lts) ->
  let r := combine_spec t_lts g_lts t_sts g_sts in
  strictly_increasing (fst r) /\
  (forall y, In y (firstn (count_le (hd 0 t_lts) t_sts) t_sts) -> y < hd 0 t_lts) /\
  fst r = firstn (count_le (hd 0 t_lts) t_sts) t_sts ++ t_lts /\ snd r = firstn (count_le (hd 0 t_lts) t_sts) g_sts ++ g_lts.
Proof.
  intros Hl Hs Hne Hno r. subst r. unfold combine_spec. cbn [fst snd].
  assert (Hb : forall y, In y (firstn (count_le (hd 0 t_lts) t_sts) t_sts) -> y < hd 0 t_lts).
  { intros y Hy. pose proof (firstn_count_le_all _ _ _ Hy) as L.
    pose proof (in_firstn _ _ _ Hy) as Hin. specialize (Hno y Hin).
    destruct (Qlt_le_dec y (hd 0 t_lts)); [assumption | exfalso; apply Hno; lra]. }
  split; [|split; [exact Hb | split; reflexivity]].
  apply si_app; [apply si_firstn; exact Hs | exact Hl|].
  intros a b Ha Hbb. specialize (Hb a Ha). destruct t_lts as [|c t]; [congruence|]. cbn [hd] in *.
  destruct Hbb as [E|Hbb]; [subst; exact Hb|]. pose proof (si_head_lt c t b Hl Hbb). lra.
Qed.

(* radius correction with an abstract logarithm: the identity for equal radii and additive in ln(radius ratio) — the two
   laws of ln used are premises (ln 1 = 0, ln(a/b) + ln(b/c) = ln(a/c)) *)
Lemma brc_eq g rb rbs ln_ : borehole_radius_correction g rb rbs ln_ = map (fun x => qsub x (ln_ (qdiv rbs rb))) g.
Proof.
  unfold borehole_radius_correction.
  assert (F : forall (l init : list Q), fold_left (fun st_ x => st_ ++ [qsub x (ln_ (qdiv rbs rb))]) l init = init ++ map (fun x => qsub x (ln_ (qdiv rbs rb))) l).
  { induction l as [|h t IH]; intros init; cbn [fold_left map]; [rewrite app_nil_r; reflexivity | rewrite IH, <- app_assoc; reflexivity]. }
  apply (F g []).
Qed.

Theorem correction_identity g rb ln_ : ~ rb == 0 -> (forall x, x == 1 -> ln_ x == 0) ->
  Forall2 Qeq (borehole_radius_correction g rb rb ln_) g.
Proof.
  intros N L1. rewrite brc_eq. induction g as [|h t IH]; cbn [map]; constructor; [|exact IH].
  rewrite qsub_eq, (L1 (qdiv rb rb)); [ring|]. rewrite qdiv_eq. field. exact N.
Qed.

Theorem correction_additive g r0 r1 r2 ln_ :
  (ln_ (qdiv r1 r0) + ln_ (qdiv r2 r1) == ln_ (qdiv r2 r0)) ->
  Forall2 Qeq (borehole_radius_correction (borehole_radius_correction g r0 r1 ln_) r1 r2 ln_) (borehole_radius_correction g r0 r2 ln_).
Proof.
  intros A. rewrite !brc_eq, map_map. induction g as [|h t IH]; cbn [map]; constructor; [|exact IH].
  rewrite !qsub_eq. rewrite <- A. ring.
Qed.

(* interpolating at a stored height asks the table for exactly that height *)
Theorem h_eq_at_stored_height B H : ~ B == 0 -> ~ H == 0 -> h_eq_of (B / H) B == H.
Proof. intros NB NH. unfold h_eq_of. rewrite qmul_eq, qdiv_eq. field. split; assumption. Qed.
