From Coq Require Import ZArith Ascii String List Bool Lia.
From GHE Require Import Model.Cli.
Import ListNotations.

Lemma accepted_iff v : accepted v = true <-> forall b, In b v -> b = true.
Proof.
  unfold accepted, error_count. rewrite Nat.eqb_eq. split.
  - intros H b Hb. destruct b; [reflexivity|]. exfalso.
    assert (X : In false (filter negb v)) by (apply filter_In; split; [exact Hb | reflexivity]).
    destruct (filter negb v); [destruct X | discriminate].
  - intros H. induction v as [|b t IH]; [reflexivity|]. cbn [filter].
    rewrite (H b (or_introl eq_refl)). cbn. apply IH. intros c Hc. apply H. right. exact Hc.
Qed.

Theorem exit0_only_if_output a v idf w : exit_code (cli a v idf w) = 0 ->
  outputs_written (cli a v idf w) = true \/ (validate_only a = true /\ accepted v = true) \/
  (validate_only a = false /\ convert a = ConvertIDF /\ idf = true).
Proof.
  unfold cli. destruct (validate_only a) eqn:V.
  - destruct (accepted v); cbn; intros H; [right; left; auto | discriminate].
  - destruct (convert a) eqn:C.
    + destruct (has_outdir a); cbn [negb]; [|cbn; discriminate].
      destruct (accepted v); cbn [negb]; [|cbn; discriminate]. destruct w; cbn; intros H; [left; reflexivity | discriminate].
    + destruct idf; cbn; intros H; [right; right; auto | discriminate].
    + cbn. discriminate.
Qed.

Theorem invalid_nonzero a v idf w : convert a = NoConvert -> accepted v = false -> exit_code (cli a v idf w) <> 0.
Proof.
  intros C A. unfold cli. rewrite C, A. destruct (validate_only a); cbn; [discriminate|]. destruct (has_outdir a); cbn; discriminate.
Qed.

Theorem unsupported_nonzero a v idf w : validate_only a = false -> convert a = ConvertOther -> exit_code (cli a v idf w) <> 0.
Proof. intros V C. unfold cli. rewrite V, C. cbn. discriminate. Qed.

Theorem no_output_dir_nonzero a v idf w : validate_only a = false -> convert a = NoConvert -> has_outdir a = false ->
  exit_code (cli a v idf w) <> 0.
Proof. intros V C H. unfold cli. rewrite V, C, H. cbn. discriminate. Qed.

Theorem no_design_nonzero a v idf : validate_only a = false -> convert a = NoConvert -> exit_code (cli a v idf Raised) <> 0.
Proof. intros V C. unfold cli. rewrite V, C. destruct (has_outdir a); cbn; [|discriminate]. destruct (accepted v); cbn; discriminate. Qed.

Theorem accept_iff_all_sections v : accepted v = true <-> forall b, In b v -> b = true.
Proof. exact (accepted_iff v). Qed.

(* upper-casing is idempotent and insensitive to the case of its input *)
Lemma upper_ascii_idem c : upper_ascii (upper_ascii c) = upper_ascii c.
Proof.
  assert (H : forallb (fun n => Ascii.eqb (upper_ascii (upper_ascii (ascii_of_nat n))) (upper_ascii (ascii_of_nat n))) (seq 0 256) = true) by (vm_compute; reflexivity).
  rewrite forallb_forall in H. specialize (H (nat_of_ascii c)).
  rewrite ascii_nat_embedding in H. apply Ascii.eqb_eq. apply H. apply in_seq. pose proof (nat_ascii_bounded c). lia.
Qed.
Theorem upper_idempotent s : upper (upper s) = upper s.
Proof. induction s as [|c t IH]; cbn [upper]; [reflexivity|]. rewrite upper_ascii_idem, IH. reflexivity. Qed.

Definition lower_ascii (c : ascii) : ascii :=
  let n := nat_of_ascii c in if (Nat.leb 65 n && Nat.leb n 90)%bool then ascii_of_nat (n + 32) else c.
Lemma upper_lower_ascii c : upper_ascii (lower_ascii c) = upper_ascii c.
Proof.
  assert (H : forallb (fun n => Ascii.eqb (upper_ascii (lower_ascii (ascii_of_nat n))) (upper_ascii (ascii_of_nat n))) (seq 0 256) = true) by (vm_compute; reflexivity).
  rewrite forallb_forall in H. specialize (H (nat_of_ascii c)).
  rewrite ascii_nat_embedding in H. apply Ascii.eqb_eq. apply H. apply in_seq. pose proof (nat_ascii_bounded c). lia.
Qed.
(* re-casing any letters of a name does not change what is validated *)
Inductive recased : string -> string -> Prop :=
| rc_nil : recased EmptyString EmptyString
| rc_keep c s t : recased s t -> recased (String c s) (String c t)
| rc_up c s t : recased s t -> recased (String c s) (String (upper_ascii c) t)
| rc_low c s t : recased s t -> recased (String c s) (String (lower_ascii c) t).
Theorem verdict_case_insensitive s t : recased s t -> upper s = upper t.
Proof.
  induction 1; cbn [upper]; try rewrite IHrecased; try reflexivity.
  - rewrite upper_ascii_idem. reflexivity.
  - rewrite upper_lower_ascii. reflexivity.
Qed.
