(* Proof/SearchP.v — lemmas about Model/Search.v: leaf specifications (from the regenerated source),
   the bisection loop invariant, the final pick, the decision table, solve_root. *)
From Coq Require Import ZArith QArith Qround Qabs List Bool Lia Lqa ZifyBool Sorting.Sorted Permutation.
From GHE Require Import Base.QUtil gen.Src Model.Search.
Import ListNotations.
Ltac Zify.zify_post_hook ::= Z.to_euclidean_division_equations.
Open Scope Z_scope.

(* ---------- leaf specifications: these are the only lemmas that look inside gen/Src.v ---------- *)
Lemma Qfloor_inject z : Qfloor (inject_Z z) = z.
Proof. apply Qfloor_Z. Qed.

Lemma midZ_eq l r : midZ l r = (l + r + 1) / 2.
Proof.
  unfold midZ, midpoint, qceil, qdiv, qadd. rewrite Qfloor_inject.
  assert (E : (Qred (Qred (inject_Z l + inject_Z r) / (2 # 1)) == (l + r) # 2)%Q).
  { rewrite !Qred_correct. unfold Qeq, Qdiv, Qmult, Qplus, Qinv, inject_Z. simpl. lia. }
  rewrite (Qceiling_comp _ _ E). unfold Qceiling, Qfloor, Qopp. simpl. lia.
Qed.

Lemma midZ_spec l r : l < r ->
  (l + 1 < r -> l < midZ l r < r) /\ (r = l + 1 -> midZ l r = r) /\
  (midZ l r - l <= (r - l + 1) / 2) /\ (r - midZ l r <= (r - l + 1) / 2).
Proof. intros H. rewrite midZ_eq. repeat split; lia. Qed.

Lemma sign_pos x : (0 < x)%Q -> (sign x == 1)%Q.
Proof.
  intros H. unfold sign, qdiv, qabs, qtrunc.
  assert (E : (Qred (Qabs x / x) == 1)%Q).
  { rewrite Qred_correct, Qabs_pos by lra. field. lra. }
  destruct (qltb_spec (Qred (Qabs x / x)) 0) as [L|L]; [exfalso; lra|].
  unfold qfloor. rewrite (Qfloor_comp _ _ E). reflexivity.
Qed.

Lemma sign_neg x : (x < 0)%Q -> (sign x == -1)%Q.
Proof.
  intros H. unfold sign, qdiv, qabs, qtrunc.
  assert (E : (Qred (Qabs x / x) == -1)%Q).
  { rewrite Qred_correct, Qabs_neg by lra. field. lra. }
  destruct (qltb_spec (Qred (Qabs x / x)) 0) as [L|L]; [|exfalso; lra].
  unfold qceil. rewrite (Qceiling_comp _ _ E). reflexivity.
Qed.

Lemma check_bracket_spec a b : check_bracket a b = true <-> ((a < 0 /\ 0 < b) \/ (b < 0 /\ 0 < a))%Q.
Proof.
  unfold check_bracket.
  destruct (qltb_spec a 0), (qltb_spec 0 b), (qltb_spec b 0), (qltb_spec 0 a); simpl; split; intros; try lra; try discriminate; auto.
Qed.

Lemma root_sign_pos x : (0 < x)%Q -> (root_sign x == 1)%Q /\ (root_sign_plus x == 1)%Q.
Proof.
  intros H. unfold root_sign, root_sign_plus, qdiv, qabs, qtrunc.
  assert (E : (Qred (x / Qabs x) == 1)%Q).
  { rewrite Qred_correct, Qabs_pos by lra. field. lra. }
  destruct (qltb_spec (Qred (x / Qabs x)) 0) as [L|L]; [exfalso; lra|].
  unfold qfloor. rewrite (Qfloor_comp _ _ E). split; reflexivity.
Qed.

Lemma root_sign_neg x : (x < 0)%Q -> (root_sign x == -1)%Q /\ (root_sign_plus x == -1)%Q.
Proof.
  intros H. unfold root_sign, root_sign_plus, qdiv, qabs, qtrunc.
  assert (E : (Qred (x / Qabs x) == -1)%Q).
  { rewrite Qred_correct, Qabs_neg by lra. field. intro Z. lra. }
  destruct (qltb_spec (Qred (x / Qabs x)) 0) as [L|L]; [|exfalso; lra].
  unfold qceil. rewrite (Qceiling_comp _ _ E). split; reflexivity.
Qed.

Lemma max_iter_1d_val : Qnat max_iter_1d = 15%nat.
Proof. vm_compute. reflexivity. Qed.

(* ---------- dict ---------- *)
Definition keys (d : dict) : list Z := map fst d.

Lemma dict_set_in d k v : In (k, v) (dict_set d k v).
Proof.
  induction d as [|[k' v'] t IH]; cbn [dict_set]; [left; reflexivity|].
  destruct (k =? k') eqn:E; [left; reflexivity | right; exact IH].
Qed.

Lemma dict_set_inv d k v k' v' : In (k', v') (dict_set d k v) -> (k' = k /\ v' = v) \/ In (k', v') d.
Proof.
  induction d as [|[k0 v0] t IH]; cbn [dict_set]; intros H.
  - destruct H as [H|[]]. inversion H. left; split; reflexivity.
  - destruct (k =? k0) eqn:E.
    + destruct H as [H|H]; [inversion H; left; split; reflexivity | right; right; exact H].
    + destruct H as [H|H]; [right; left; exact H|].
      destruct (IH H) as [A|A]; [left; exact A | right; right; exact A].
Qed.

Lemma dict_set_keep d k v k' : In k' (keys d) -> In k' (keys (dict_set d k v)).
Proof.
  unfold keys. induction d as [|[k0 v0] t IH]; cbn [dict_set map fst]; intros H; [destruct H|].
  destruct (k =? k0) eqn:E; cbn [map fst].
  - destruct H as [H|H]; [left; lia | right; exact H].
  - destruct H as [H|H]; [left; exact H | right; apply IH; exact H].
Qed.

Lemma dict_set_key d k v : In k (keys (dict_set d k v)).
Proof. unfold keys. apply in_map_iff. exists (k, v). split; [reflexivity | apply dict_set_in]. Qed.

Lemma dict_set_keys_inv d k v k' : In k' (keys (dict_set d k v)) -> k' = k \/ In k' (keys d).
Proof.
  unfold keys. intros H. apply in_map_iff in H. destruct H as [[a b] [E H]]. cbn in E. subst a.
  destruct (dict_set_inv _ _ _ _ _ H) as [[A _]|A]; [left; exact A | right; apply in_map_iff; exists (k', b); split; auto].
Qed.

(* ---------- signs ---------- *)
Definition nz (x : Q) : Prop := ~ (x == 0)%Q.

Lemma sign_r_ok x : nz x -> exists s, sign_r x = Ok s /\ ((0 < x)%Q -> (s == 1)%Q) /\ ((x < 0)%Q -> (s == -1)%Q).
Proof.
  intros H. unfold sign_r. destruct (qeqb_spec x 0) as [E|E]; [exfalso; exact (H E)|].
  exists (sign x). split; [reflexivity|]. split; [apply sign_pos | apply sign_neg].
Qed.

Lemma sign_r_nz x s : sign_r x = Ok s -> nz x.
Proof. unfold sign_r. destruct (qeqb_spec x 0) as [E|E]; [discriminate | intros _; exact E]. Qed.

Lemma sign_r_val x s : sign_r x = Ok s -> ((0 < x)%Q /\ (s == 1)%Q) \/ ((x < 0)%Q /\ (s == -1)%Q).
Proof.
  intros H. pose proof (sign_r_nz _ _ H) as N. destruct (sign_r_ok x N) as (s' & E & P & M).
  rewrite H in E. inversion E; subst s'. unfold nz in N.
  destruct (Qlt_le_dec 0 x) as [L|L]; [left; split; auto|].
  right. assert (x < 0)%Q by (destruct (Qlt_le_dec x 0); [assumption | exfalso; apply N; lra]). split; auto.
Qed.

(* "same sign" of two non-zero numbers, as the code computes it: sign(v) == sign(t) *)
Definition same (x y : Q) : Prop := ((0 < x /\ 0 < y) \/ (x < 0 /\ y < 0))%Q.

Lemma sign_cmp v t s st : sign_r v = Ok s -> sign_r t = Ok st -> (qeqb s st = true <-> same v t).
Proof.
  intros Hv Ht. destruct (sign_r_val _ _ Hv) as [[A B]|[A B]], (sign_r_val _ _ Ht) as [[C D]|[C D]];
  destruct (qeqb_spec s st) as [E|E]; unfold same; split; intros; try lra; try discriminate; auto;
  try (exfalso; apply E; lra); try (exfalso; lra).
Qed.

(* ---------- the bisection loop ---------- *)
Definition sorig (e : oracle) (ls : Q) (k : Z) : Prop :=      (* candidate k has the sign of the left end *)
  exists s, sign_r (e k Hmax) = Ok s /\ qeqb s ls = true.
Definition sother (e : oracle) (ls : Q) (k : Z) : Prop :=
  exists s, sign_r (e k Hmax) = Ok s /\ qeqb s ls = false.

Definition calc_sound (e : oracle) (d : dict) : Prop := forall k v, In (k, v) d -> v = e k Hmax.

Lemma bis_loop_bounds fuel : forall nd e ls l r i calc tr l' r' i' calc' tr',
  l < r -> bis_loop fuel nd e ls l r i calc tr = Ok (l', r', i', calc', tr') ->
  l <= l' /\ l' < r' /\ r' <= r /\ i <= i' /\ (i' - i) + (r' - l') <= r - l /\
  (r - l <= 2 ^ Z.of_nat fuel -> r' = l' + 1).
Proof.
  induction fuel as [|f IH]; intros nd e ls l r i calc tr l' r' i' calc' tr' Hlr H; cbn [bis_loop] in H.
  - inversion H; subst. repeat split; try lia; try (intros Hd; change (2 ^ Z.of_nat 0) with 1 in Hd; lia).
  - pose proof (midZ_spec l r Hlr) as (M1 & M2 & M3 & M4).
    set (c := midZ l r) in *.
    destruct ((c =? l) || (c =? r)) eqn:E.
    + inversion H; subst. repeat split; try lia; try (intros _; lia).
    + assert (Hc : l < c < r) by lia.
      assert (Hp : 2 ^ Z.of_nat (S f) = 2 * 2 ^ Z.of_nat f) by (rewrite Nat2Z.inj_succ, Z.pow_succ_r; lia).
      destruct (nd <=? c) eqn:En; [discriminate|].
      destruct (sign_r (e c Hmax)) as [s|x] eqn:Es; [|discriminate].
      destruct (qeqb s ls) eqn:Eq; apply IH in H; try lia;
      destruct H as (A & B & C & D & F & G); repeat split; try lia; try (intros Hd; apply G; lia).
Qed.

Lemma bis_loop_calc fuel : forall nd e ls l r i calc tr l' r' i' calc' tr',
  l < r -> bis_loop fuel nd e ls l r i calc tr = Ok (l', r', i', calc', tr') ->
  calc_sound e calc -> In l (keys calc) -> In r (keys calc) -> sorig e ls l -> sother e ls r ->
  calc_sound e calc' /\ In l' (keys calc') /\ In r' (keys calc') /\ sorig e ls l' /\ sother e ls r' /\
  (forall k, In k (keys calc) -> In k (keys calc')) /\
  (forall k, In k (keys calc') -> In k (keys calc) \/ (l < k < r /\ ((sorig e ls k /\ k <= l') \/ (sother e ls k /\ r' <= k)))).
Proof.
  induction fuel as [|f IH]; intros nd e ls l r i calc tr l' r' i' calc' tr' Hlr H Hs Hl Hr Sl Sr; cbn [bis_loop] in H.
  - inversion H; subst. repeat split; auto.
  - pose proof (midZ_spec l r Hlr) as (M1 & M2 & M3 & M4).
    set (c := midZ l r) in *.
    destruct ((c =? l) || (c =? r)) eqn:E.
    + inversion H; subst. repeat split; auto.
    + assert (Hc : l < c < r) by lia.
      destruct (nd <=? c) eqn:En; [discriminate|].
      destruct (sign_r (e c Hmax)) as [s|x] eqn:Es; [|discriminate].
      assert (Hs' : calc_sound e (dict_set calc c (e c Hmax))).
      { intros k v Hin. destruct (dict_set_inv _ _ _ _ _ Hin) as [[A B]|A]; [subst; reflexivity | apply Hs; exact A]. }
      destruct (qeqb s ls) eqn:Eq.
      * pose proof (bis_loop_bounds _ _ _ _ _ _ _ _ _ _ _ _ _ _ (proj2 Hc) H) as (B1 & B2 & B3 & _).
        apply IH in H; auto; try lia.
        -- destruct H as (A1 & A2 & A3 & A4 & A5 & A6 & A7).
           repeat split; auto.
           ++ intros k Hk. apply A6. apply dict_set_keep. exact Hk.
           ++ intros k Hk. destruct (A7 k Hk) as [K|[K1 K2]].
              ** destruct (dict_set_keys_inv _ _ _ _ K) as [K'|K']; [|left; exact K'].
                 subst k. right. split; [lia|]. left. split; [exists s; auto | lia].
              ** right. split; [lia|]. exact K2.
        -- apply dict_set_key.
        -- apply dict_set_keep. exact Hr.
        -- exists s. auto.
      * pose proof (bis_loop_bounds _ _ _ _ _ _ _ _ _ _ _ _ _ _ (proj1 Hc) H) as (B1 & B2 & B3 & _).
        apply IH in H; auto; try lia.
        -- destruct H as (A1 & A2 & A3 & A4 & A5 & A6 & A7).
           repeat split; auto.
           ++ intros k Hk. apply A6. apply dict_set_keep. exact Hk.
           ++ intros k Hk. destruct (A7 k Hk) as [K|[K1 K2]].
              ** destruct (dict_set_keys_inv _ _ _ _ K) as [K'|K']; [|left; exact K'].
                 subst k. right. split; [lia|]. right. split; [exists s; auto | lia].
              ** right. split; [lia|]. exact K2.
        -- apply dict_set_keep. exact Hl.
        -- apply dict_set_key.
        -- exists s. auto.
Qed.

(* ---------- final pick ---------- *)
Lemma qmax_cases a b : qmax a b = a \/ qmax a b = b.
Proof. unfold qmax. destruct (qltb a b); auto. Qed.

Lemma fold_qmax_in l a : In (fold_left qmax l a) (a :: l).
Proof.
  revert a. induction l as [|h t IH]; intros a; cbn [fold_left]; [left; reflexivity|].
  destruct (IH (qmax a h)) as [H|H].
  - destruct (qmax_cases a h) as [E|E]; rewrite E in H at 1; [left; exact H | right; left; exact H].
  - right; right; exact H.
Qed.

Lemma qmaxl_in l : l <> [] -> In (qmaxl l) l.
Proof. destruct l as [|h t]; [congruence|]. intros _. unfold qmaxl. apply fold_qmax_in. Qed.

Lemma index_of_value_some d v k : index_of_value d v = Some k -> exists v', In (k, v') d /\ (v' == v)%Q.
Proof.
  induction d as [|[k0 v0] t IH]; cbn [index_of_value]; [discriminate|].
  destruct (qeqb_spec v0 v) as [E|E]; intros H.
  - inversion H; subst. exists v0. split; [left; reflexivity | exact E].
  - destruct (IH H) as (v' & A & B). exists v'. split; [right; exact A | exact B].
Qed.

Lemma index_of_value_exists d v k v' : In (k, v') d -> (v' == v)%Q -> exists k', index_of_value d v = Some k'.
Proof.
  induction d as [|[k0 v0] t IH]; cbn [index_of_value]; intros H E; [destruct H|].
  destruct (qeqb_spec v0 v) as [E0|E0]; [eexists; reflexivity|].
  destruct H as [H|H]; [inversion H; subst; exfalso; exact (E0 E) | exact (IH H E)].
Qed.

Definition pair_le (a b : Z * Q) : Prop := fst a < fst b \/ (fst a = fst b /\ (snd a <= snd b)%Q).
Lemma pair_leb_spec a b : pair_leb a b = true <-> pair_le a b.
Proof.
  unfold pair_leb, pair_le. destruct (qleb_spec (snd a) (snd b)) as [L|L].
  - rewrite andb_true_r. split; [intros H; destruct (Z.ltb_spec (fst a) (fst b)); [left; assumption | right; split; [lia | exact L]] | intros [H|[H _]]; lia].
  - rewrite andb_false_r, orb_false_r. split; [intros H; left; lia | intros [H|[_ H]]; [lia | exfalso; exact (L H)]].
Qed.
Lemma pair_le_total a b : pair_le a b \/ pair_le b a.
Proof. unfold pair_le. destruct (Z.lt_trichotomy (fst a) (fst b)) as [H|[H|H]]; try lia.
  destruct (Qlt_le_dec (snd b) (snd a)); [right; right; split; [lia|lra] | left; right; split; [lia|lra]]. Qed.
Lemma pair_le_trans a b c : pair_le a b -> pair_le b c -> pair_le a c.
Proof. unfold pair_le. intros [H|[H1 H2]] [G|[G1 G2]]; try lia. right. split; [lia|lra]. Qed.

Lemma insert_sorted_in x y l : In x (insert_sorted y l) <-> x = y \/ In x l.
Proof.
  induction l as [|h t IH]; cbn [insert_sorted]; [simpl; intuition|].
  destruct (pair_leb y h); simpl; [intuition|]. rewrite IH. simpl. intuition.
Qed.

Lemma sort_pairs_in x l : In x (sort_pairs l) <-> In x l.
Proof.
  induction l as [|h t IH]; cbn [sort_pairs fold_right]; [reflexivity|].
  rewrite insert_sorted_in. fold (sort_pairs t). rewrite IH. simpl. intuition.
Qed.

Lemma insert_sorted_sorted y l : StronglySorted pair_le l -> StronglySorted pair_le (insert_sorted y l).
Proof.
  induction 1 as [|h t Ht IH Hh]; cbn [insert_sorted]; [repeat constructor|].
  destruct (pair_leb y h) eqn:E.
  - apply pair_leb_spec in E. constructor; [constructor; assumption|].
    constructor; [exact E|]. rewrite Forall_forall in *. intros z Hz. eapply pair_le_trans; [exact E | apply Hh; exact Hz].
  - assert (Hyh : pair_le h y).
    { destruct (pair_le_total y h) as [A|A]; [apply pair_leb_spec in A; congruence | exact A]. }
    constructor; [exact IH|]. rewrite Forall_forall in *. intros z Hz.
    apply insert_sorted_in in Hz. destruct Hz as [Hz|Hz]; [subst; exact Hyh | apply Hh; exact Hz].
Qed.

Lemma sort_pairs_sorted l : StronglySorted pair_le (sort_pairs l).
Proof. induction l as [|h t IH]; cbn [sort_pairs fold_right]; [constructor | apply insert_sorted_sorted; exact IH]. Qed.

Lemma first_negative_sorted l v : StronglySorted pair_le l -> first_negative l = Some v ->
  exists c, In (c, v) l /\ (v < 0)%Q /\ forall c' v', In (c', v') l -> (v' < 0)%Q -> c <= c'.
Proof.
  induction 1 as [|[c0 v0] t Ht IH Hh]; cbn [first_negative]; [discriminate|].
  destruct (qltb_spec v0 0) as [N|N]; intros H.
  - inversion H; subst. exists c0. split; [left; reflexivity|]. split; [exact N|].
    intros c' v' Hin Hv'. destruct Hin as [Hin|Hin]; [inversion Hin; lia|].
    rewrite Forall_forall in Hh. specialize (Hh _ Hin). unfold pair_le in Hh. cbn in Hh. lia.
  - destruct (IH H) as (c & A & B & C). exists c. split; [right; exact A|]. split; [exact B|].
    intros c' v' Hin Hv'. destruct Hin as [Hin|Hin]; [inversion Hin; subst; exfalso; lra | exact (C _ _ Hin Hv')].
Qed.

Lemma first_negative_exists l c v : In (c, v) l -> (v < 0)%Q -> exists v', first_negative l = Some v'.
Proof.
  induction l as [|[c0 v0] t IH]; cbn [first_negative]; intros H N; [destruct H|].
  destruct (qltb_spec v0 0); [eexists; reflexivity|].
  destruct H as [H|H]; [inversion H; subst; exfalso; lra | exact (IH H N)].
Qed.

Definition distinct_values (d : dict) : Prop :=
  forall k1 v1 k2 v2, In (k1, v1) d -> In (k2, v2) d -> (v1 == v2)%Q -> k1 = k2.

Lemma final_pick_in cnt calc k : final_pick cnt calc = Ok k ->
  exists v, In (k, v) calc /\ (v <= 0)%Q.
Proof.
  unfold final_pick. set (negs := filter _ (map snd calc)).
  destruct negs as [|n0 nt] eqn:En; [discriminate|].
  set (eoi0 := qmaxl (n0 :: nt)).
  set (sorted := sort_pairs _).
  destruct (first_negative sorted) as [v|] eqn:Ef.
  - destruct (index_of_value calc v) as [k'|] eqn:Ei; [|discriminate]. intros H; inversion H; subst k'.
    destruct (index_of_value_some _ _ _ Ei) as (v' & A & B). exists v'. split; [exact A|].
    destruct (first_negative_sorted _ _ (sort_pairs_sorted _) Ef) as (c & _ & N & _). lra.
  - destruct (index_of_value calc eoi0) as [k'|] eqn:Ei; [|discriminate]. intros H; inversion H; subst k'.
    destruct (index_of_value_some _ _ _ Ei) as (v' & A & B). exists v'. split; [exact A|].
    assert (Hin : In eoi0 negs) by (rewrite En; apply qmaxl_in; discriminate).
    unfold negs in Hin. apply filter_In in Hin. destruct Hin as [_ Hle].
    destruct (qleb_spec eoi0 0); [lra | discriminate].
Qed.

Lemma final_pick_min_count cnt calc k : final_pick cnt calc = Ok k -> distinct_values calc ->
  forall j vj, In (j, vj) calc -> (vj < 0)%Q -> nthZ cnt k <= nthZ cnt j /\ exists v, In (k, v) calc /\ (v < 0)%Q.
Proof.
  unfold final_pick. set (negs := filter _ (map snd calc)).
  destruct negs as [|n0 nt] eqn:En; [discriminate|].
  set (pairs := map (fun kv : Z * Q => (nthZ cnt (fst kv), snd kv)) calc).
  intros H D j vj Hj Nj.
  assert (Hp : In (nthZ cnt j, vj) pairs).
  { unfold pairs. apply in_map_iff. exists (j, vj). split; [reflexivity | exact Hj]. }
  destruct (first_negative_exists (sort_pairs pairs) _ _ (proj2 (sort_pairs_in _ _) Hp) Nj) as (v & Ef).
  fold pairs in H. rewrite Ef in H.
  destruct (index_of_value calc v) as [k'|] eqn:Ei; [|discriminate]. inversion H; subst k'.
  destruct (index_of_value_some _ _ _ Ei) as (v' & A & B).
  destruct (first_negative_sorted _ _ (sort_pairs_sorted _) Ef) as (c & Hin & N & Hmin).
  apply (proj1 (sort_pairs_in _ _)) in Hin. unfold pairs in Hin. apply (proj1 (in_map_iff _ _ _)) in Hin. destruct Hin as [[k0 v0] [E0 Hin0]].
  cbn in E0. inversion E0; subst c v0.
  assert (k = k0) by (eapply D; eauto). subst k0.
  split.
  - apply (Hmin _ _ (proj2 (sort_pairs_in _ _) Hp) Nj).
  - exists v'. split; [exact A | lra].
Qed.

(* ---------- the upper index ---------- *)
Definition upper_idx (cnt : list Z) (cap : option Z) : option Z :=
  match cap with None => if lenZ cnt =? 0 then None else Some (lenZ cnt - 1) | Some c => last_below cnt c end.

Lemma last_below_aux cap : forall (l : list Z) (off : nat) (acc : option Z),
  (forall a, acc = Some a -> 0 <= a < Z.of_nat off /\ True) ->
  forall x, fold_left (fun acc '(i, c) => if c <? cap then Some i else acc)
                      (combine (map Z.of_nat (seq off (length l))) l) acc = Some x ->
  (acc = Some x \/ (Z.of_nat off <= x < Z.of_nat (off + length l) /\ nth (Z.to_nat x - off) l 0 < cap)).
Proof.
  induction l as [|h t IH]; intros off acc Hacc x; cbn [length seq map combine fold_left]; intros H.
  - left; exact H.
  - apply IH in H.
    + destruct H as [H|[H1 H2]].
      * destruct (h <? cap) eqn:E.
        -- inversion H; subst x. right. split; [lia|]. replace (Z.to_nat (Z.of_nat off) - off)%nat with 0%nat by lia. cbn. lia.
        -- left; exact H.
      * right. split; [lia|]. replace (Z.to_nat x - off)%nat with (S (Z.to_nat x - S off))%nat by lia. cbn [nth]. exact H2.
    + intros a Ha. destruct (h <? cap); [inversion Ha; subst; lia | destruct (Hacc a Ha); lia].
Qed.

Lemma upper_idx_spec cnt cap xr : upper_idx cnt cap = Some xr ->
  0 <= xr < lenZ cnt /\ match cap with Some c => nthZ cnt xr < c | None => xr = lenZ cnt - 1 end.
Proof.
  unfold upper_idx, lenZ. destruct cap as [c|].
  - unfold last_below. intros H.
    destruct (last_below_aux c cnt 0 None (fun a Ha => ltac:(discriminate)) xr H) as [A|[A B]]; [discriminate|].
    split; [lia|]. unfold nthZ. replace (Z.to_nat xr - 0)%nat with (Z.to_nat xr) in B by lia. exact B.
  - destruct (Z.of_nat (length cnt) =? 0) eqn:E; [discriminate|]. intros H; inversion H; subst. split; lia.
Qed.

(* ---------- shape of a successful search ---------- *)
Inductive shape (cnt : list Z) (cap : option Z) (cont : bool) (it : nat) (e : oracle) (o : search_out) : Prop :=
| ShBracket0 xr : upper_idx cnt cap = Some xr ->
    ((e 0%Z Hmin < 0 /\ 0 < e 0%Z Hmax) \/ (e 0%Z Hmax < 0 /\ 0 < e 0%Z Hmin))%Q ->
    sel o = 0 -> init_h o = Hmax -> escaped o = false ->
    calc_out o = dict_set (dict_set [] 0 (e 0%Z Hmax)) xr (e xr Hmax) -> shape cnt cap cont it e o
| ShSmall xr : upper_idx cnt cap = Some xr -> (e 0%Z Hmin < 0 /\ e 0%Z Hmax < 0 /\ e xr Hmax < 0)%Q -> cont = true ->
    sel o = 0 -> init_h o = Hmin -> escaped o = true ->
    calc_out o = dict_set (dict_set [] 0 (e 0%Z Hmax)) xr (e xr Hmax) -> shape cnt cap cont it e o
| ShLarge xr : upper_idx cnt cap = Some xr -> (0 < e 0%Z Hmin /\ 0 < e 0%Z Hmax /\ 0 < e xr Hmax)%Q -> cont = true ->
    sel o = xr -> init_h o = Hmax -> escaped o = true ->
    calc_out o = dict_set (dict_set [] 0 (e 0%Z Hmax)) xr (e xr Hmax) -> shape cnt cap cont it e o
| ShBisect xr s0u l r i tr : upper_idx cnt cap = Some xr ->
    ((e 0%Z Hmax < 0 /\ 0 < e xr Hmax) \/ (e xr Hmax < 0 /\ 0 < e 0%Z Hmax))%Q ->
    sign_r (e 0%Z Hmax) = Ok s0u ->
    bis_loop it (lenZ cnt) e s0u 0 xr 0 (dict_set (dict_set [] 0 (e 0%Z Hmax)) xr (e xr Hmax))
             [(0, Hmin); (0, Hmax); (xr, Hmax)] = Ok (l, r, i, calc_out o, tr) ->
    final_pick cnt (calc_out o) = Ok (sel o) -> init_h o = Hmax -> escaped o = false ->
    tr_out o = tr ++ [(i, Hmax)] -> shape cnt cap cont it e o.

Lemma search1d_shape cnt cap cont it e o :
  search1d cnt cap cont it e = Ok o -> shape cnt cap cont it e o.
Proof.
  unfold search1d, search1d_nd. fold (upper_idx cnt cap).
  destruct (upper_idx cnt cap) as [xr|] eqn:Ex; [|discriminate].
  destruct ((lenZ cnt =? 0) || (lenZ cnt <=? 0) || (lenZ cnt <=? xr)) eqn:E0; [discriminate|].
  destruct (sign_r (e 0%Z Hmin)) as [s0l|] eqn:S0l; [|discriminate]. cbn [bind].
  destruct (sign_r (e 0%Z Hmax)) as [s0u|] eqn:S0u; [|discriminate]. cbn [bind].
  destruct (sign_r_val _ _ S0l) as [[P0l V0l]|[P0l V0l]], (sign_r_val _ _ S0u) as [[P0u V0u]|[P0u V0u]];
  destruct (check_bracket s0l s0u) eqn:B0;
  try (apply check_bracket_spec in B0; exfalso; lra);
  try (assert (B0' : ~ ((s0l < 0 /\ 0 < s0u) \/ (s0u < 0 /\ 0 < s0l))%Q)
         by (intro X; apply check_bracket_spec in X; congruence); exfalso; apply B0'; lra).
  all: try (intros H; inversion H; subst o; eapply ShBracket0; eauto; cbn; lra).
  all: destruct (sign_r (e xr Hmax)) as [sm1|] eqn:Sm1; [|discriminate]; cbn [bind];
       destruct (sign_r_val _ _ Sm1) as [[Pm1 Vm1]|[Pm1 Vm1]];
       destruct (check_bracket s0u sm1) eqn:B1;
       try (apply check_bracket_spec in B1; exfalso; lra);
       try (assert (B1' : ~ ((s0u < 0 /\ 0 < sm1) \/ (sm1 < 0 /\ 0 < s0u))%Q)
              by (intro X; apply check_bracket_spec in X; congruence); exfalso; apply B1'; lra).
  (* remaining: (+,+,+) large, (+,+,-) bisect, (-,-,+) bisect, (-,-,-) small *)
  all: try (destruct (qltb_spec (e 0%Z Hmin) 0) as [Q1|Q1]; [exfalso; lra|];
            destruct (qltb_spec 0 (e xr Hmax)) as [Q2|Q2]; [|exfalso; lra];
            destruct cont; [|discriminate]; intros H; inversion H; subst o; eapply ShLarge; eauto; cbn; lra).
  all: try (destruct (qltb_spec (e 0%Z Hmin) 0) as [Q1|Q1]; [|exfalso; lra];
            destruct cont; [|discriminate]; intros H; inversion H; subst o; eapply ShSmall; eauto; cbn; lra).
  all: destruct (bis_loop it (lenZ cnt) e s0u 0 xr 0 _ _) as [[[[[l r] i] calc] tr]|] eqn:EL; [|discriminate];
       destruct ((i <? 0) || (lenZ cnt <=? i) || (lenZ cnt <=? i)); [discriminate|];
       destruct (final_pick cnt calc) as [k|] eqn:EF; [|discriminate];
       destruct (lenZ cnt <=? k); [discriminate|];
       intros H; inversion H; subst o; eapply ShBisect; eauto; cbn; lra.
Qed.

(* ---------- consequences ---------- *)
Lemma sorig_self e s : sign_r (e 0%Z Hmax) = Ok s -> sorig e s 0.
Proof. intros H. exists s. split; [exact H|]. destruct (qeqb_spec s s) as [E|E]; [reflexivity | exfalso; apply E; reflexivity]. Qed.

Lemma sorig_iff e s0 k : sign_r (e 0%Z Hmax) = Ok s0 -> nz (e k Hmax) -> (sorig e s0 k <-> same (e k Hmax) (e 0%Z Hmax)).
Proof.
  intros H0 N. destruct (sign_r_ok _ N) as (s & Hs & _). split.
  - intros (s' & A & B). rewrite Hs in A. inversion A; subst s'.
    destruct (sign_r_val _ _ Hs) as [[P V]|[P V]], (sign_r_val _ _ H0) as [[P0 V0]|[P0 V0]];
    destruct (qeqb_spec s s0) as [E|E]; try discriminate; unfold same; try lra.
  - intros S. exists s. split; [exact Hs|].
    destruct (sign_r_val _ _ Hs) as [[P V]|[P V]], (sign_r_val _ _ H0) as [[P0 V0]|[P0 V0]];
    destruct (qeqb_spec s s0) as [E|E]; try reflexivity; unfold same in S; try (exfalso; lra); exfalso; apply E; lra.
Qed.

Lemma sother_iff e s0 k : sign_r (e 0%Z Hmax) = Ok s0 -> nz (e k Hmax) -> (sother e s0 k <-> ~ same (e k Hmax) (e 0%Z Hmax)).
Proof.
  intros H0 N. destruct (sign_r_ok _ N) as (s & Hs & _). split.
  - intros (s' & A & B) S. apply (sorig_iff e s0 k H0 N) in S. destruct S as (s'' & A' & B'). congruence.
  - intros S. exists s. split; [exact Hs|]. destruct (qeqb s s0) eqn:E; [|reflexivity].
    exfalso. apply S. apply (sorig_iff e s0 k H0 N). exists s. auto.
Qed.

Definition init_calc (e : oracle) (xr : Z) : dict := dict_set (dict_set [] 0 (e 0%Z Hmax)) xr (e xr Hmax).

Lemma init_calc_sound e xr : calc_sound e (init_calc e xr).
Proof.
  intros k v H. unfold init_calc in H.
  destruct (dict_set_inv _ _ _ _ _ H) as [[A B]|A]; [subst; reflexivity|].
  destruct (dict_set_inv _ _ _ _ _ A) as [[A' B']|[]]. subst. reflexivity.
Qed.
Lemma init_calc_keys e xr k : In k (keys (init_calc e xr)) <-> k = 0 \/ k = xr.
Proof.
  unfold init_calc. split.
  - intros H. destruct (dict_set_keys_inv _ _ _ _ H) as [A|A]; [right; exact A|].
    destruct (dict_set_keys_inv _ _ _ _ A) as [B|[]]. left; exact B.
  - intros [H|H]; subst; [apply dict_set_keep; apply dict_set_key | apply dict_set_key].
Qed.

(* facts about a search that went through the bisection loop *)
Lemma bisect_facts cnt cap it e xr s0u l r i calc tr :
  upper_idx cnt cap = Some xr ->
  ((e 0%Z Hmax < 0 /\ 0 < e xr Hmax) \/ (e xr Hmax < 0 /\ 0 < e 0%Z Hmax))%Q ->
  sign_r (e 0%Z Hmax) = Ok s0u ->
  bis_loop it (lenZ cnt) e s0u 0 xr 0 (init_calc e xr) [(0, Hmin); (0, Hmax); (xr, Hmax)] = Ok (l, r, i, calc, tr) ->
  0 < xr /\ 0 <= l /\ l < r /\ r <= xr /\ 0 <= i /\ i + (r - l) <= xr /\ (xr <= 2 ^ Z.of_nat it -> r = l + 1) /\
  calc_sound e calc /\ In l (keys calc) /\ In r (keys calc) /\ sorig e s0u l /\ sother e s0u r /\
  (forall k, In k (keys calc) -> 0 <= k <= xr /\ ((sorig e s0u k /\ k <= l) \/ (sother e s0u k /\ r <= k))).
Proof.
  intros Hx Hb S0 HL.
  destruct (upper_idx_spec _ _ _ Hx) as [Rx _].
  assert (N0 : nz (e 0%Z Hmax)) by (eapply sign_r_nz; eauto).
  assert (Nx : nz (e xr Hmax)) by (unfold nz; lra).
  assert (Hpos : 0 < xr).
  { destruct (Z.eq_dec xr 0) as [E|E]; [subst xr; exfalso; lra | lia]. }
  assert (So : sother e s0u xr).
  { apply sother_iff; auto. unfold same. lra. }
  pose proof (bis_loop_bounds _ _ _ _ _ _ _ _ _ _ _ _ _ _ Hpos HL) as (B1 & B2 & B3 & B4 & B5 & B6).
  pose proof (bis_loop_calc _ _ _ _ _ _ _ _ _ _ _ _ _ _ Hpos HL (init_calc_sound e xr)
               (proj2 (init_calc_keys e xr 0) (or_introl eq_refl)) (proj2 (init_calc_keys e xr xr) (or_intror eq_refl))
               (sorig_self e s0u S0) So) as (C1 & C2 & C3 & C4 & C5 & C6 & C7).
  split; [lia|]. split; [lia|]. split; [lia|]. split; [lia|]. split; [lia|]. split; [lia|].
  split; [intros Hf; apply B6; lia|].
  split; [exact C1|]. split; [exact C2|]. split; [exact C3|]. split; [exact C4|]. split; [exact C5|].
  intros k H. split.
  - destruct (C7 k H) as [K|[K1 K2]]; [apply init_calc_keys in K; lia | lia].
  - destruct (C7 k H) as [K|[K1 K2]]; [|exact K2].
    apply init_calc_keys in K. destruct K as [K|K]; subst k.
    + left. split; [apply sorig_self; exact S0 | lia].
    + right. split; [exact So | lia].
Qed.

Section One.
Variables (cnt : list Z) (cap : option Z) (cont : bool) (it : nat) (e : oracle) (o : search_out).
Hypothesis Hrun : search1d cnt cap cont it e = Ok o.

(* every entry of the table of evaluated candidates is the oracle's value *)
Lemma calc_out_sound_all : calc_sound e (calc_out o).
Proof.
  destruct (search1d_shape _ _ _ _ _ _ Hrun) as [xr Hx Hb Hs Hi Hesc Hc|xr Hx Hb Hc Hs Hi Hesc Hcalc|xr Hx Hb Hc Hs Hi Hesc Hcalc|xr s0u l r i tr Hx Hb S0 HL HF Hi Hesc Ht].
  - rewrite Hc. apply init_calc_sound.
  - rewrite Hcalc. apply init_calc_sound.
  - rewrite Hcalc. apply init_calc_sound.
  - apply (bisect_facts _ _ _ _ _ _ _ _ _ _ _ Hx Hb S0 HL).
Qed.

Lemma calc_out_sound : escaped o = false -> calc_sound e (calc_out o).
Proof.
  intros He. destruct (search1d_shape _ _ _ _ _ _ Hrun) as [xr Hx Hb Hs Hi Hesc Hc|xr Hx Hb Hc Hs Hi Hesc Hcalc|xr Hx Hb Hc Hs Hi Hesc Hcalc|xr s0u l r i tr Hx Hb S0 HL HF Hi Hesc Ht];
  try congruence.
  - rewrite Hc. apply init_calc_sound.
  - apply (bisect_facts _ _ _ _ _ _ _ _ _ _ _ Hx Hb S0 HL).
Qed.

(* the selected candidate was evaluated, lies within the allowed range, and (when the search went through
   the final pick) has non-positive excess at maximum height *)
Lemma selected_in_range : exists xr, upper_idx cnt cap = Some xr /\ 0 <= sel o <= xr.
Proof.
  destruct (search1d_shape _ _ _ _ _ _ Hrun) as [xr Hx Hb Hs Hi Hesc Hc|xr Hx Hb Hc Hs Hi Hesc Hcalc|xr Hx Hb Hc Hs Hi Hesc Hcalc|xr s0u l r i tr Hx Hb S0 HL HF Hi Hesc Ht];
  exists xr; (split; [exact Hx|]); destruct (upper_idx_spec _ _ _ Hx) as [Rx _]; try lia.
  destruct (final_pick_in _ _ _ HF) as (v & Hin & _).
  destruct (bisect_facts _ _ _ _ _ _ _ _ _ _ _ Hx Hb S0 HL) as (_ & _ & _ & _ & _ & _ & _ & _ & _ & _ & _ & _ & K).
  assert (In (sel o) (keys (calc_out o))) by (unfold keys; apply in_map_iff; exists (sel o, v); auto).
  destruct (K _ H) as [A _]. exact A.
Qed.

(* C05 (b): the selected count is the least among the evaluated candidates that meet the limits at max height *)
Lemma no_larger_than_evaluated :
  escaped o = false -> distinct_values (calc_out o) ->
  (forall j, 0 <= j < lenZ cnt -> nthZ cnt 0 <= nthZ cnt j) ->
  forall j, In (j, e j Hmax) (calc_out o) -> (e j Hmax < 0)%Q -> nthZ cnt (sel o) <= nthZ cnt j.
Proof.
  intros He D Hfirst j Hj Nj.
  destruct (search1d_shape _ _ _ _ _ _ Hrun) as [xr Hx Hb Hs Hi Hesc Hc|xr Hx Hb Hc Hs Hi Hesc Hcalc|xr Hx Hb Hc Hs Hi Hesc Hcalc|xr s0u l r i tr Hx Hb S0 HL HF Hi Hesc Ht];
  try congruence.
  - rewrite Hs. apply Hfirst. destruct (upper_idx_spec _ _ _ Hx) as [Rx _].
    assert (In j (keys (calc_out o))) by (unfold keys; apply in_map_iff; exists (j, e j Hmax); auto).
    rewrite Hc in H. apply init_calc_keys in H. lia.
  - apply (final_pick_min_count _ _ _ HF D j _ Hj Nj).
Qed.

(* C05 (c): with strictly increasing counts and an infeasible first candidate, the search stops on adjacent
   candidates: the selected one is feasible, its predecessor was evaluated and is infeasible *)
Lemma first_feasible xr :
  upper_idx cnt cap = Some xr -> escaped o = false -> distinct_values (calc_out o) ->
  (forall a b, 0 <= a < b -> b <= xr -> nthZ cnt a < nthZ cnt b) ->
  (0 < e 0%Z Hmax)%Q -> (e xr Hmax < 0)%Q -> (0 < e 0%Z Hmin)%Q -> xr <= 2 ^ Z.of_nat it ->
  (e (sel o) Hmax < 0)%Q /\ In (sel o - 1) (keys (calc_out o)) /\ (0 < e (sel o - 1)%Z Hmax)%Q /\
  (forall j, In j (keys (calc_out o)) -> (e j Hmax < 0)%Q -> sel o <= j).
Proof.
  intros Hx0 He D Hinc P0 Nx P0l Hfuel.
  destruct (search1d_shape _ _ _ _ _ _ Hrun) as [xr' Hx Hb Hs Hi Hesc Hc|xr' Hx Hb Hc Hs Hi Hesc|xr' Hx Hb Hc Hs Hi Hesc|xr' s0u l r i tr Hx Hb S0 HL HF Hi Hesc Ht];
  try congruence; rewrite Hx0 in Hx; inversion Hx; subst xr'.
  - exfalso; lra.
  - destruct (bisect_facts _ _ _ _ _ _ _ _ _ _ _ Hx0 Hb S0 HL) as (F0 & F1 & F2 & F3 & F4 & F5 & F6 & F7 & F8 & F9 & F10 & F11 & F12).
    specialize (F6 Hfuel).
    assert (N0 : nz (e 0%Z Hmax)) by (unfold nz; lra).
    (* sign facts *)
    assert (Hneg : forall k, In k (keys (calc_out o)) -> (e k Hmax < 0)%Q -> r <= k).
    { intros k Hk Nk. destruct (F12 k Hk) as [_ [[A _]|[_ B]]]; [|exact B].
      exfalso. apply (sorig_iff e s0u k S0) in A; [|unfold nz; lra]. unfold same in A. lra. }
    assert (Nr : (e r Hmax < 0)%Q).
    { destruct F11 as (s & A & B). pose proof (sign_r_nz _ _ A) as Nz.
      assert (X : ~ same (e r Hmax) (e 0%Z Hmax)) by (apply (sother_iff e s0u r S0 Nz); exists s; auto).
      unfold same in X. unfold nz in Nz. destruct (Qlt_le_dec (e r Hmax) 0); [assumption|]. exfalso. apply X. left. split; [|exact P0].
      destruct (Qlt_le_dec 0 (e r Hmax)); [assumption | exfalso; apply Nz; lra]. }
    assert (Pl : (0 < e l Hmax)%Q).
    { destruct F10 as (s & A & B). pose proof (sign_r_nz _ _ A) as Nz.
      assert (X : same (e l Hmax) (e 0%Z Hmax)) by (apply (sorig_iff e s0u l S0 Nz); exists s; auto).
      unfold same in X. lra. }
    assert (Hrv : In (r, e r Hmax) (calc_out o)).
    { unfold keys in F9. apply in_map_iff in F9. destruct F9 as [[k v] [E Hin]]. cbn in E. subst k.
      rewrite (F7 _ _ Hin) in Hin. exact Hin. }
    destruct (final_pick_min_count _ _ _ HF D r _ Hrv Nr) as [Hle (v & Hv & Nv)].
    assert (Hsk : In (sel o) (keys (calc_out o))) by (unfold keys; apply in_map_iff; exists (sel o, v); auto).
    rewrite (F7 _ _ Hv) in Nv.
    pose proof (Hneg _ Hsk Nv) as Hge.
    destruct (F12 _ Hsk) as [Rs _].
    assert (sel o = r).
    { destruct (Z.eq_dec (sel o) r) as [E|E]; [exact E|]. exfalso.
      assert (nthZ cnt r < nthZ cnt (sel o)) by (apply Hinc; lia). lia. }
    rewrite H. replace (r - 1) with l by lia. repeat split; auto.
Qed.

End One.

(* ---------- solve_root ---------- *)
Lemma solve_root_cases f lo hi b H : solve_root f lo hi b = Ok H ->
  (((f lo < 0 /\ 0 < f hi) \/ (f hi < 0 /\ 0 < f lo)) /\ H = b)%Q \/
  ((f lo < 0 /\ f hi < 0)%Q /\ H = lo) \/ ((0 < f lo /\ 0 < f hi)%Q /\ H = hi).
Proof.
  unfold solve_root.
  destruct (qeqb_spec (f lo) 0) as [Z1|Z1]; [discriminate|].
  destruct (qeqb_spec (f hi) 0) as [Z2|Z2]; [discriminate|]. cbn [orb].
  assert (S1 : (f lo < 0 \/ 0 < f lo)%Q) by (destruct (Qlt_le_dec (f lo) 0); [left; assumption | right; destruct (Qlt_le_dec 0 (f lo)); [assumption | exfalso; apply Z1; lra]]).
  assert (S2 : (f hi < 0 \/ 0 < f hi)%Q) by (destruct (Qlt_le_dec (f hi) 0); [left; assumption | right; destruct (Qlt_le_dec 0 (f hi)); [assumption | exfalso; apply Z2; lra]]).
  destruct S1 as [N1|P1], S2 as [N2|P2].
  - destruct (root_sign_neg _ N1) as [A _], (root_sign_neg _ N2) as [_ B].
    destruct (qneb_spec (root_sign_plus (f hi)) (root_sign (f lo))) as [E|E]; [exfalso; apply E; lra|].
    destruct (qeqb_spec (root_sign_plus (f hi)) (-1)) as [E1|E1]; [|exfalso; apply E1; lra].
    destruct (qeqb_spec (root_sign (f lo)) (-1)) as [E2|E2]; [|exfalso; apply E2; lra].
    cbn. intros X; inversion X; subst. right; left. repeat split; auto.
  - destruct (root_sign_neg _ N1) as [A _], (root_sign_pos _ P2) as [_ B].
    destruct (qneb_spec (root_sign_plus (f hi)) (root_sign (f lo))) as [E|E]; [|exfalso; apply E; lra].
    intros X; inversion X; subst. left. split; [left; auto | reflexivity].
  - destruct (root_sign_pos _ P1) as [A _], (root_sign_neg _ N2) as [_ B].
    destruct (qneb_spec (root_sign_plus (f hi)) (root_sign (f lo))) as [E|E]; [|exfalso; apply E; lra].
    intros X; inversion X; subst. left. split; [right; auto | reflexivity].
  - destruct (root_sign_pos _ P1) as [A _], (root_sign_pos _ P2) as [_ B].
    destruct (qneb_spec (root_sign_plus (f hi)) (root_sign (f lo))) as [E|E]; [exfalso; apply E; lra|].
    destruct (qeqb_spec (root_sign_plus (f hi)) (-1)) as [E1|E1]; [exfalso; lra|]. cbn [andb].
    destruct (qeqb_spec (root_sign_plus (f hi)) 1) as [E3|E3]; [|exfalso; apply E3; lra].
    destruct (qeqb_spec (root_sign (f lo)) 1) as [E4|E4]; [|exfalso; apply E4; lra].
    cbn. intros X; inversion X; subst. right; right. repeat split; auto.
Qed.

Lemma solve_root_in_bounds f lo hi b H : solve_root f lo hi b = Ok H -> (lo <= hi)%Q -> (lo <= b <= hi)%Q -> (lo <= H <= hi)%Q.
Proof.
  intros X L B. destruct (solve_root_cases _ _ _ _ _ X) as [[_ E]|[[_ E]|[_ E]]]; subst H; lra.
Qed.

Lemma solve_root_only_zero_division f lo hi b x : solve_root f lo hi b = Err x -> x = ZeroDivisionError /\ ((f lo == 0)%Q \/ (f hi == 0)%Q).
Proof.
  unfold solve_root.
  destruct (qeqb_spec (f lo) 0) as [Z1|Z1]; [intros X; inversion X; auto|].
  destruct (qeqb_spec (f hi) 0) as [Z2|Z2]; [intros X; inversion X; auto|]. cbn [orb].
  destruct (qneb _ _); [discriminate|]. destruct (_ && _); [discriminate|]. destruct (_ && _); discriminate.
Qed.

Section Two.
Variables (cnt : list Z) (cap : option Z) (cont : bool) (it : nat) (e : oracle).

(* C02: borehole cap *)
Lemma cap_respected o c : search1d cnt cap cont it e = Ok o -> cap = Some c ->
  (forall a b, 0 <= a <= b -> b < lenZ cnt -> nthZ cnt a <= nthZ cnt b) -> nthZ cnt (sel o) < c.
Proof.
  intros Hrun Hc Hmono. destruct (selected_in_range _ _ _ _ _ _ Hrun) as (xr & Hx & R).
  destruct (upper_idx_spec _ _ _ Hx) as [Rx Cx]. rewrite Hc in Cx.
  assert (nthZ cnt (sel o) <= nthZ cnt xr) by (apply Hmono; lia). lia.
Qed.

(* C02: unmet-design policy, both directions *)
Lemma escaped_only_when_unmet o : search1d cnt cap cont it e = Ok o -> escaped o = true ->
  cont = true /\ exists xr, upper_idx cnt cap = Some xr /\
  (((e 0%Z Hmin < 0 /\ e 0%Z Hmax < 0 /\ e xr Hmax < 0)%Q /\ sel o = 0 /\ init_h o = Hmin) \/
   ((0 < e 0%Z Hmin /\ 0 < e 0%Z Hmax /\ 0 < e xr Hmax)%Q /\ sel o = xr /\ init_h o = Hmax)).
Proof.
  intros Hrun He.
  destruct (search1d_shape _ _ _ _ _ _ Hrun) as [xr Hx Hb Hs Hi Hesc Hc|xr Hx Hb Hc Hs Hi Hesc Hcalc|xr Hx Hb Hc Hs Hi Hesc Hcalc|xr s0u l r i tr Hx Hb S0 HL HF Hi Hesc Ht];
  try congruence; (split; [exact Hc|]); exists xr; (split; [exact Hx|]); [left | right]; auto.
Qed.

Lemma unmet_too_large xr : upper_idx cnt cap = Some xr ->
  (0 < e 0%Z Hmin)%Q -> (0 < e 0%Z Hmax)%Q -> (0 < e xr Hmax)%Q ->
  match search1d cnt cap cont it e with
  | Ok o => cont = true /\ sel o = xr /\ init_h o = Hmax /\ escaped o = true
  | Err x => cont = false /\ x = ValueError
  end.
Proof.
  intros Hx P1 P2 P3. destruct (upper_idx_spec _ _ _ Hx) as [Rx _].
  unfold search1d, search1d_nd. fold (upper_idx cnt cap). rewrite Hx.
  replace ((lenZ cnt =? 0) || (lenZ cnt <=? 0) || (lenZ cnt <=? xr)) with false by lia.
  destruct (sign_r_ok (e 0%Z Hmin)) as (s1 & E1 & V1 & _); [unfold nz; lra|]. rewrite E1. cbn [bind].
  destruct (sign_r_ok (e 0%Z Hmax)) as (s2 & E2 & V2 & _); [unfold nz; lra|]. rewrite E2. cbn [bind].
  destruct (sign_r_ok (e xr Hmax)) as (s3 & E3 & V3 & _); [unfold nz; lra|]. rewrite E3. cbn [bind].
  specialize (V1 P1). specialize (V2 P2). specialize (V3 P3).
  destruct (check_bracket s1 s2) eqn:B1; [apply check_bracket_spec in B1; exfalso; lra|].
  destruct (check_bracket s2 s3) eqn:B2; [apply check_bracket_spec in B2; exfalso; lra|].
  destruct (qltb_spec (e 0%Z Hmin) 0); [exfalso; lra|].
  destruct (qltb_spec 0 (e xr Hmax)); [|exfalso; lra].
  destruct cont; cbn; auto.
Qed.

Lemma unmet_too_small xr : upper_idx cnt cap = Some xr ->
  (e 0%Z Hmin < 0)%Q -> (e 0%Z Hmax < 0)%Q -> (e xr Hmax < 0)%Q ->
  match search1d cnt cap cont it e with
  | Ok o => cont = true /\ sel o = 0 /\ init_h o = Hmin /\ escaped o = true
  | Err x => cont = false /\ x = ValueError
  end.
Proof.
  intros Hx P1 P2 P3. destruct (upper_idx_spec _ _ _ Hx) as [Rx _].
  unfold search1d, search1d_nd. fold (upper_idx cnt cap). rewrite Hx.
  replace ((lenZ cnt =? 0) || (lenZ cnt <=? 0) || (lenZ cnt <=? xr)) with false by lia.
  destruct (sign_r_ok (e 0%Z Hmin)) as (s1 & E1 & _ & V1); [unfold nz; lra|]. rewrite E1. cbn [bind].
  destruct (sign_r_ok (e 0%Z Hmax)) as (s2 & E2 & _ & V2); [unfold nz; lra|]. rewrite E2. cbn [bind].
  destruct (sign_r_ok (e xr Hmax)) as (s3 & E3 & _ & V3); [unfold nz; lra|]. rewrite E3. cbn [bind].
  specialize (V1 P1). specialize (V2 P2). specialize (V3 P3).
  destruct (check_bracket s1 s2) eqn:B1; [apply check_bracket_spec in B1; exfalso; lra|].
  destruct (check_bracket s2 s3) eqn:B2; [apply check_bracket_spec in B2; exfalso; lra|].
  destruct (qltb_spec (e 0%Z Hmin) 0); [|exfalso; lra].
  destruct cont; cbn; auto.
Qed.

(* C02: exception discipline.  On non-degenerate input (an upper index exists, no excess value is exactly zero)
   the search ends with a selection or with ValueError *)
Lemma bis_loop_no_error fuel : forall nd ls l r i calc tr,
  (forall k, nz (e k Hmax)) -> 0 <= l -> l < r -> r < nd ->
  exists out, bis_loop fuel nd e ls l r i calc tr = Ok out.
Proof.
  induction fuel as [|f IH]; intros nd ls l r i calc tr NZ H0 Hlr Hnd; cbn [bis_loop]; [eexists; reflexivity|].
  pose proof (midZ_spec l r Hlr) as (M1 & M2 & M3 & M4).
  destruct ((midZ l r =? l) || (midZ l r =? r)) eqn:E; [eexists; reflexivity|].
  assert (Hc : l < midZ l r < r) by lia.
  replace (nd <=? midZ l r) with false by lia.
  destruct (sign_r_ok _ (NZ (midZ l r))) as (s & Es & _). rewrite Es.
  destruct (qeqb s ls); apply IH; auto; lia.
Qed.

Lemma final_pick_err calc y : final_pick cnt calc = Err y -> y = ValueError.
Proof.
  unfold final_pick. destruct (filter _ _); [intros X; inversion X; reflexivity|].
  destruct (first_negative _); destruct (index_of_value _ _); intros X; inversion X; reflexivity.
Qed.

Lemma only_value_error x : search1d cnt cap cont it e = Err x ->
  (forall k h, nz (e k h)) -> upper_idx cnt cap <> None -> x = ValueError.
Proof.
  intros H NZ Hu. destruct (upper_idx cnt cap) as [xr|] eqn:Hx; [|congruence].
  destruct (upper_idx_spec _ _ _ Hx) as [Rx _].
  unfold search1d, search1d_nd in H. fold (upper_idx cnt cap) in H. rewrite Hx in H.
  replace ((lenZ cnt =? 0) || (lenZ cnt <=? 0) || (lenZ cnt <=? xr)) with false in H by lia.
  destruct (sign_r_ok _ (NZ 0 Hmin)) as (s1 & E1 & _). rewrite E1 in H. cbn [bind] in H.
  destruct (sign_r_ok _ (NZ 0 Hmax)) as (s2 & E2 & _). rewrite E2 in H. cbn [bind] in H.
  destruct (check_bracket s1 s2) eqn:B1; [discriminate|].
  destruct (sign_r_ok _ (NZ xr Hmax)) as (s3 & E3 & _). rewrite E3 in H. cbn [bind] in H.
  destruct (sign_r_val _ _ E1) as [[P1 V1]|[P1 V1]], (sign_r_val _ _ E2) as [[P2 V2]|[P2 V2]];
  try (exfalso; assert (X : check_bracket s1 s2 = true) by (apply check_bracket_spec; lra); congruence);
  destruct (sign_r_val _ _ E3) as [[P3 V3]|[P3 V3]];
  destruct (check_bracket s2 s3) eqn:B2;
  try (apply check_bracket_spec in B2; exfalso; lra);
  try (exfalso; assert (X : check_bracket s2 s3 = true) by (apply check_bracket_spec; lra); congruence).
  (* (+,+,+) *)
  - destruct (qltb_spec (e 0%Z Hmin) 0); [exfalso; lra|]. destruct (qltb_spec 0 (e xr Hmax)); [|exfalso; lra].
    destruct cont; [discriminate | inversion H; reflexivity].
  (* (+,+,-) bisect *)
  - destruct (bis_loop_no_error it (lenZ cnt) s2 0 xr 0 (init_calc e xr) [(0, Hmin); (0, Hmax); (xr, Hmax)] (fun k => NZ k Hmax))
      as ([[[[l r] i] calc'] tr'] & EL); try lia.
    { destruct (Z.eq_dec xr 0); [subst; exfalso; lra | lia]. }
    unfold init_calc in EL. rewrite EL in H.
    destruct (bisect_facts cnt cap it e xr s2 l r i calc' tr' Hx ltac:(lra) E2 EL) as (F0 & F1 & F2 & F3 & F4 & F5 & _ & _ & _ & _ & _ & _ & F12).
    replace ((i <? 0) || (lenZ cnt <=? i) || (lenZ cnt <=? i)) with false in H by lia.
    destruct (final_pick cnt calc') as [k|y] eqn:EF; [|inversion H; subst; eapply final_pick_err; eauto].
    destruct (final_pick_in _ _ _ EF) as (v & Hin & _).
    assert (Hk : In k (keys calc')) by (unfold keys; apply in_map_iff; exists (k, v); auto).
    destruct (F12 _ Hk) as [Rk _]. replace (lenZ cnt <=? k) with false in H by lia. discriminate.
  (* (-,-,+) bisect *)
  - destruct (bis_loop_no_error it (lenZ cnt) s2 0 xr 0 (init_calc e xr) [(0, Hmin); (0, Hmax); (xr, Hmax)] (fun k => NZ k Hmax))
      as ([[[[l r] i] calc'] tr'] & EL); try lia.
    { destruct (Z.eq_dec xr 0); [subst; exfalso; lra | lia]. }
    unfold init_calc in EL. rewrite EL in H.
    destruct (bisect_facts cnt cap it e xr s2 l r i calc' tr' Hx ltac:(lra) E2 EL) as (F0 & F1 & F2 & F3 & F4 & F5 & _ & _ & _ & _ & _ & _ & F12).
    replace ((i <? 0) || (lenZ cnt <=? i) || (lenZ cnt <=? i)) with false in H by lia.
    destruct (final_pick cnt calc') as [k|y] eqn:EF; [|inversion H; subst; eapply final_pick_err; eauto].
    destruct (final_pick_in _ _ _ EF) as (v & Hin & _).
    assert (Hk : In k (keys calc')) by (unfold keys; apply in_map_iff; exists (k, v); auto).
    destruct (F12 _ Hk) as [Rk _]. replace (lenZ cnt <=? k) with false in H by lia. discriminate.
  (* (-,-,-) *)
  - destruct (qltb_spec (e 0%Z Hmin) 0); [|exfalso; lra].
    destruct cont; [discriminate | inversion H; reflexivity].
Qed.

(* C01: the sized height of the selected candidate keeps the excess within the solver tolerance *)
Lemma sized_feasible o (es : Z -> Q -> Q) (hmin hmax brent eps H : Q) :
  search1d cnt cap cont it e = Ok o -> escaped o = false ->
  (forall k, nz (e k Hmax)) ->
  (es (sel o) hmax == e (sel o) Hmax)%Q -> (es 0%Z hmin == e 0%Z Hmin)%Q ->
  solve_root (es (sel o)) hmin hmax brent = Ok H ->
  (((es (sel o) hmin < 0 /\ 0 < es (sel o) hmax) \/ (es (sel o) hmax < 0 /\ 0 < es (sel o) hmin))%Q -> (Qabs (es (sel o) brent) <= eps)%Q) ->
  (0 <= eps)%Q -> (es (sel o) H <= eps)%Q.
Proof.
  intros Hrun He NZ A1 A0 HS HB Heps.
  destruct (solve_root_cases _ _ _ _ _ HS) as [[Br E]|[[[N1 N2] E]|[[P1 P2] E]]]; subst H.
  - specialize (HB Br). pose proof (Qle_Qabs (es (sel o) brent)). lra.
  - lra.
  - exfalso.
    destruct (search1d_shape _ _ _ _ _ _ Hrun) as [xr Hx Hb Hs Hi Hesc Hc|xr Hx Hb Hc Hs Hi Hesc Hcalc|xr Hx Hb Hc Hs Hi Hesc Hcalc|xr s0u l r i tr Hx Hb S0 HL HF Hi Hesc Ht];
    try congruence.
    + rewrite Hs in *. lra.
    + destruct (final_pick_in _ _ _ HF) as (v & Hin & Hv).
      pose proof (calc_out_sound _ _ _ _ _ _ Hrun He _ _ Hin) as Ev. subst v.
      lra.
Qed.
End Two.

(* ---------- nested searches ---------- *)
Lemma search2d_inner nested cap cont it e o2 : search2d nested cap cont it e = Ok o2 ->
  search1d (nthZ nested (li2 o2)) cap cont it (e (li2 o2)) = Ok (out2 o2) /\ 0 <= li2 o2 < lenZ nested.
Proof.
  unfold search2d. destruct (lenZ nested =? 0); [discriminate|]. destruct (lenZ (nthZ nested 0) =? 0); [discriminate|].
  destruct (search1d_nd _ _ _ _ _ _) as [o|]; [|discriminate].
  destruct (py_index (lenZ nested) (sel o - 1)) as [li|] eqn:Ep; [|discriminate].
  destruct (search1d (nthZ nested li) cap cont it (e li)) as [oi|] eqn:Ei; [|discriminate].
  intros H; inversion H; subst; cbn. split; [exact Ei|].
  unfold py_index in Ep. destruct ((0 <=? sel o - 1) && (sel o - 1 <? lenZ nested)) eqn:E1; [inversion Ep; lia|].
  destruct ((sel o - 1 <? 0) && (0 <=? lenZ nested + (sel o - 1))) eqn:E2; [inversion Ep; lia | discriminate].
Qed.

Lemma zd_loop_calcs fuel : forall nested cap cont it e drill i imax old heights calcs tr heights' calcs' tr' st,
  zd_loop fuel nested cap cont it e drill i imax old heights calcs tr = (heights', calcs', tr', st) ->
  forall k c, In (k, c) calcs' -> In (k, c) calcs \/
      exists o, search1d (nthZ nested k) cap cont it (e k) = Ok o /\ c = calc_out o.
Proof.
  induction fuel as [|f IH]; intros nested cap cont it e drill i imax old heights calcs tr heights' calcs' tr' st H;
  cbn [zd_loop] in H.
  - inversion H; subst. intros; left; assumption.
  - destruct ((i <? lenZ nested) && (i <? imax)); [|inversion H; subst; intros; left; assumption].
    destruct (search1d (nthZ nested i) cap cont it (e i)) as [o|x] eqn:Es.
    + destruct (qltb old (drill i (sel o))).
      * inversion H; subst. intros k c Hin. apply in_app_or in Hin. destruct Hin as [Hin|[Hin|[]]]; [left; exact Hin|].
        inversion Hin; subst. right. exists o. auto.
      * intros k c Hin. destruct (IH _ _ _ _ _ _ _ _ _ _ _ _ _ _ _ _ H k c Hin) as [X|X]; [|right; exact X].
        apply in_app_or in X. destruct X as [X|[X|[]]]; [left; exact X|]. inversion X; subst. right. exists o. auto.
    + destruct x; inversion H; subst; intros; left; assumption.
Qed.

(* ZD: the finally selected candidate was evaluated in a successful search of the chosen list
   and has non-positive excess at maximum height *)
Lemma searchZD_selected nested cap cont it e drill z : searchZD nested cap cont it e drill = Ok z -> zd_escaped z = false ->
  exists o v, search1d (nthZ nested (zd_outer z)) cap cont it (e (zd_outer z)) = Ok o /\
              In (zd_sel z, v) (calc_out o) /\ (v <= 0)%Q /\ v = e (zd_outer z) (zd_sel z) Hmax.
Proof.
  unfold searchZD. destruct (lenZ nested =? 0); [discriminate|]. destruct (lenZ (nthZ nested 0) =? 0); [discriminate|].
  destruct (search1d _ _ _ _ _) as [o0|]; [|discriminate].
  destruct (zd_loop _ _ _ _ _ _ _ _ _ _ _ _ _) as [[[heights calcs] tr] st] eqn:EL.
  destruct st as [u|]; [|discriminate].
  destruct heights as [|h0 rest]; [discriminate|].
  destruct (argmin_first rest h0) as [ko dmin].
  destruct (find (fun kc => fst kc =? ko) calcs) as [[k1 calc]|] eqn:Ef; cbn [snd];
  [|discriminate].
  set (negs := filter _ (map snd calc)). destruct negs as [|n0 nt] eqn:En.
  { destruct (search1d (nthZ nested ko) cap cont it (e ko)); [|discriminate]. intros H Hesc; inversion H; subst z; cbn in Hesc; discriminate. }
  destruct (index_of_value calc (qmaxl (n0 :: nt))) as [k|] eqn:Ei; [|discriminate].
  intros H _; inversion H; subst z; cbn.
  apply find_some in Ef. destruct Ef as [Hin Hk]. cbn in Hk. assert (k1 = ko) by lia. subst k1.
  destruct (zd_loop_calcs _ _ _ _ _ _ _ _ _ _ _ _ _ _ _ _ _ EL ko calc Hin) as [[]|(o & Ho & Ec)].
  subst calc. destruct (index_of_value_some _ _ _ Ei) as (v & A & B).
  exists o, v. split; [exact Ho|]. split; [exact A|].
  assert (Hq : In (qmaxl (n0 :: nt)) negs) by (rewrite En; apply qmaxl_in; discriminate).
  unfold negs in Hq. apply filter_In in Hq. destruct Hq as [_ Hle].
  split; [destruct (qleb_spec (qmaxl (n0 :: nt)) 0); [lra | discriminate]|].
  apply (calc_out_sound_all _ _ _ _ _ _ Ho _ _ A).
Qed.

Lemma cost_spec : forall maxeft mineft hi lo t : Q,
  (cost maxeft mineft hi lo <= t <-> (maxeft <= hi + t /\ lo - t <= mineft))%Q.
Proof.
  intros. unfold cost, qmax. pose proof (qsub_eq maxeft hi) as A. pose proof (qsub_eq lo mineft) as B.
  destruct (qltb_spec (qsub maxeft hi) (qsub lo mineft)); split; intros; try split; lra.
Qed.

Lemma unmet_heights : forall (f : Q -> Q) (lo hi b H : Q), solve_root f lo hi b = Ok H ->
  ((f lo < 0 /\ f hi < 0)%Q -> H = lo) /\ ((0 < f lo /\ 0 < f hi)%Q -> H = hi).
Proof.
  intros f lo hi b H X. destruct (solve_root_cases _ _ _ _ _ X) as [[[A|A] E]|[[A E]|[A E]]]; split; intros B; auto; exfalso; lra.
Qed.

Lemma searchZD_feasible_at_hmax : forall nested cap cont it e drill z, searchZD nested cap cont it e drill = Ok z -> zd_escaped z = false ->
  (e (zd_outer z) (zd_sel z) Hmax <= 0)%Q.
Proof.
  intros until z. intros H Hesc. destruct (searchZD_selected _ _ _ _ _ _ _ H Hesc) as (o & v & _ & _ & A & B). rewrite <- B. exact A.
Qed.

(* ZD: when nothing in the chosen list meets the limits, the field its own search returned is kept and every candidate that search
   evaluated at maximum height fails (the escape of the user who asked to continue) *)
Lemma searchZD_escape nested cap cont it e drill z : searchZD nested cap cont it e drill = Ok z -> zd_escaped z = true ->
  exists o, search1d (nthZ nested (zd_outer z)) cap cont it (e (zd_outer z)) = Ok o /\ zd_sel z = sel o /\
            forall k v, In (k, v) (calc_out o) -> (0 < v)%Q.
Proof.
  unfold searchZD. destruct (lenZ nested =? 0); [discriminate|]. destruct (lenZ (nthZ nested 0) =? 0); [discriminate|].
  destruct (search1d _ _ _ _ _) as [o0|]; [|discriminate].
  destruct (zd_loop _ _ _ _ _ _ _ _ _ _ _ _ _) as [[[heights calcs] tr] st] eqn:EL.
  destruct st as [u|]; [|discriminate].
  destruct heights as [|h0 rest]; [discriminate|].
  destruct (argmin_first rest h0) as [ko dmin].
  destruct (find (fun kc => fst kc =? ko) calcs) as [[k1 calc]|] eqn:Ef; cbn [snd]; [|discriminate].
  set (negs := filter _ (map snd calc)). destruct negs as [|n0 nt] eqn:En.
  - destruct (search1d (nthZ nested ko) cap cont it (e ko)) as [o2|] eqn:E2; [|discriminate].
    intros H _; inversion H; subst z; cbn. exists o2. split; [exact E2|]. split; [reflexivity|].
    apply find_some in Ef. destruct Ef as [Hin Hk]. cbn in Hk. assert (k1 = ko) by lia. subst k1.
    destruct (zd_loop_calcs _ _ _ _ _ _ _ _ _ _ _ _ _ _ _ _ _ EL ko calc Hin) as [[]|(o & Ho & Ec)].
    rewrite E2 in Ho. inversion Ho; subst o. subst calc.
    intros k v Hkv. destruct (Qlt_le_dec 0 v) as [P|P]; [exact P|exfalso].
    assert (Hf : In v negs).
    { unfold negs. apply filter_In. split; [apply in_map_iff; exists (k, v); auto|]. destruct (qleb_spec v 0); [reflexivity|contradiction]. }
    rewrite En in Hf. exact Hf.
  - destruct (index_of_value calc (qmaxl (n0 :: nt))); [|discriminate]. intros H Hesc; inversion H; subst z; cbn in Hesc; discriminate.
Qed.


Lemma size_after_feasible_at_hmax : forall (f : Q -> Q) (lo hi b eps H : Q), solve_root f lo hi b = Ok H -> (f hi < 0)%Q ->
  (((f lo < 0 /\ 0 < f hi) \/ (f hi < 0 /\ 0 < f lo))%Q -> (Qabs (f b) <= eps)%Q) -> (0 <= eps)%Q -> (f H <= eps)%Q.
Proof.
  intros f lo hi b eps H X N C E. destruct (solve_root_cases _ _ _ _ _ X) as [[Br Eq]|[[[N1 N2] Eq]|[[P1 P2] Eq]]]; subst H.
  - specialize (C Br). pose proof (Qle_Qabs (f b)). lra.
  - lra.
  - exfalso; lra.
Qed.
