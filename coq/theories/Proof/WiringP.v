(* What each design class hands to its search routine, and what the manager
   hands to each design class, as the translator reads the call sites in
   design.py and manager.py on every run (the wiring_ lists of gen/Src.v).  The lists are
   strings of the argument expressions; the lemmas pin them. *)
From Coq Require Import List String.
From GHE Require Import gen.Src.
Import ListNotations.
Open Scope string_scope.

(* the eleven-or-ten leading positional arguments *)
Definition search_media : list string :=
  ["pos:self.V_flow"; "pos:self.borehole"; "pos:self.bhe_type"; "pos:self.fluid"; "pos:self.pipe";
   "pos:self.grout"; "pos:self.soil"; "pos:self.sim_params"; "pos:self.hourly_extraction_ground_loads"].

Definition search_keywords (ft : string) (years : bool) : list string :=
  app ["method=self.method"; "flow_type=self.flow_type"; "disp=disp"; ("field_type='" ++ ft ++ "'")]
      (if years then ["load_years=self.load_years"] else []).

Definition domain_search (dom ft : string) (years : bool) : list string :=
  app [("pos:self." ++ dom); "pos:self.fieldDescriptors"] (app search_media (search_keywords ft years)).

Definition design_args : list string :=
  ["pos:flow_rate"; "pos:self._borehole"; "pos:self.pipe_type"; "pos:self._fluid"; "pos:self._pipe";
   "pos:self._grout"; "pos:self._soil"; "pos:self._simulation_parameters";
   "pos:self._geometric_constraints"; "pos:self._ground_loads"; "flow_type=flow_type";
   "method=TimestepType.HYBRID"].

Lemma nearsquare_search_args :
  wiring_nearsquare_search = domain_search "coordinates_domain" "near-square" true.
Proof. reflexivity. Qed.
Lemma rectangle_search_args :
  wiring_rectangle_search = domain_search "coordinates_domain" "rectangle" true.
Proof. reflexivity. Qed.
Lemma birectangle_search_args :
  wiring_birectangle_search = domain_search "coordinates_domain_nested" "bi-rectangle" true.
Proof. reflexivity. Qed.
Lemma bizoned_search_args :
  wiring_bizoned_search = domain_search "coordinates_domain_nested" "bi-zoned" false.
Proof. reflexivity. Qed.
Lemma constrained_search_args :
  wiring_constrained_search = domain_search "coordinates_domain_nested" "bi-rectangle_constrained" true.
Proof. reflexivity. Qed.
Lemma rowwise_search_args :
  wiring_rowwise_search =
  app search_media (app ["pos:self.geometric_constraints"] (search_keywords "row-wise" true)).
Proof. reflexivity. Qed.

(* no design class overrides the search's tolerance or iteration cap, so the
   signature defaults (Src.max_iter_default, Src.tol_default) are what runs *)
Definition overrides (l : list string) : bool :=
  existsb (fun s => orb (prefix "max_iter=" s) (prefix "tol=" s)) l.

Lemma no_search_overrides :
  forallb (fun l => negb (overrides l))
    [wiring_nearsquare_search; wiring_rectangle_search; wiring_birectangle_search;
     wiring_bizoned_search; wiring_constrained_search; wiring_rowwise_search] = true.
Proof. reflexivity. Qed.

Lemma every_search_gets_the_design_s_flow_type_and_method :
  forall l, In l [wiring_nearsquare_search; wiring_rectangle_search; wiring_birectangle_search;
                  wiring_bizoned_search; wiring_constrained_search; wiring_rowwise_search] ->
  In "flow_type=self.flow_type" l /\ In "method=self.method" l /\
  In "pos:self.sim_params" l /\ In "pos:self.hourly_extraction_ground_loads" l.
Proof.
  intros l H; simpl in H.
  repeat (destruct H as [H|H]; [subst l; repeat split; simpl; tauto|]); contradiction.
Qed.

Lemma every_design_gets_the_manager_s_current_inputs :
  forall l, In l [wiring_nearsquare_design; wiring_rectangle_design; wiring_birectangle_design;
                  wiring_bizoned_design; wiring_constrained_design; wiring_rowwise_design] ->
  l = design_args.
Proof.
  intros l H; simpl in H.
  repeat (destruct H as [H|H]; [subst l; reflexivity|]); contradiction.
Qed.
