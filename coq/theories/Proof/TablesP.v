(* Proof/TablesP.v — the CSV row builders REGENERATED from output.py (get_hourly_loading_data, get_borehole_location_data):
   one row per input element, in order, carrying the element unchanged next to its label *)
From Coq Require Import ZArith QArith List Bool Lia.
From GHE Require Import Base.QUtil gen.Src Model.GJoin.
Import ListNotations.
Open Scope Q_scope.

Definition hourly_row (p : Q * Q) : list Q :=
  let '(m, d, h) := ghe_time_convert (fst p) in [m; d; h; fst p; snd p].

Lemma hourly_fold (l : list (Q * Q)) : forall m0 d0 h0 acc,
  (let '(_, _, _, csv) :=
     fold_left (fun (st_ : Q * Q * Q * list (list Q)) '(hour, hour_load) =>
       let '(month, day_in_month, hour_in_day, csv_array) := st_ in
       let '(month, day_in_month, hour_in_day) := ghe_time_convert hour in
       let csv_array := csv_array ++ [[month; day_in_month; hour_in_day; hour; hour_load]] in
       (month, day_in_month, hour_in_day, csv_array)) l (m0, d0, h0, acc) in csv)
  = acc ++ map hourly_row l.
Proof.
  induction l as [|[hr q] t IH]; intros m0 d0 h0 acc; cbn [fold_left map].
  - rewrite app_nil_r. reflexivity.
  - assert (R : hourly_row (hr, q) = (let '(m, d, h) := ghe_time_convert hr in [m; d; h; hr; q])) by reflexivity.
    rewrite R. destruct (ghe_time_convert hr) as [[m d] h].
    rewrite IH. rewrite <- app_assoc. reflexivity.
Qed.

Lemma hourly_rows_spec loads : hourly_table_rows loads = map hourly_row (qenumerate loads).
Proof. unfold hourly_table_rows. cbv zeta. exact (hourly_fold (qenumerate loads) dflt dflt dflt []). Qed.

Lemma qenumerate_length {A} (l : list A) : length (qenumerate l) = length l.
Proof. unfold qenumerate. rewrite combine_length, map_length, seq_length. apply Nat.min_id. Qed.

Lemma qenumerate_nth (l : list Q) k : (k < length l)%nat -> nth k (qenumerate l) (0, 0) = (natQ k, nth k l 0).
Proof.
  intros L. unfold qenumerate.
  change (0, 0) with (natQ 0, 0).
  rewrite combine_nth by (rewrite map_length, seq_length; reflexivity).
  rewrite (map_nth natQ (seq 0 (length l)) 0%nat k). rewrite seq_nth by exact L. reflexivity.
Qed.

Lemma hourly_table_echo loads :
  length (hourly_table_rows loads) = length loads /\
  forall k, (k < length loads)%nat ->
    nth k (hourly_table_rows loads) [] = (let '(m, d, h) := ghe_time_convert (natQ k) in [m; d; h; natQ k; nth k loads 0]).
Proof.
  rewrite hourly_rows_spec. split; [rewrite map_length; apply qenumerate_length|].
  intros k L.
  assert (E : nth k (map hourly_row (qenumerate loads)) [] = hourly_row (nth k (qenumerate loads) (0, 0))).
  { rewrite (nth_indep _ [] (hourly_row (0, 0))) by (rewrite map_length, qenumerate_length; exact L).
    apply map_nth. }
  rewrite E, qenumerate_nth by exact L. reflexivity.
Qed.

Lemma bore_fold (l : list (Q * Q)) : forall acc,
  fold_left (fun (st_ : list (list Q)) bore_location => st_ ++ [[fst bore_location; snd bore_location]]) l acc
  = acc ++ map (fun p => [fst p; snd p]) l.
Proof.
  induction l as [|p t IH]; intros acc; cbn [fold_left map]; [rewrite app_nil_r; reflexivity|].
  rewrite IH, <- app_assoc. reflexivity.
Qed.
Lemma bore_table_echo coords : bore_table_rows coords = map (fun p => [fst p; snd p]) coords.
Proof. unfold bore_table_rows. cbv zeta. exact (bore_fold coords []). Qed.

(* ---------- g-function table (get_g_function_data) ---------- *)
Definition g_row (t : Q * Q * Q) : list Q := let '(a, b, c) := t in [a; b; c].
Lemma g_fold (l : list (Q * Q * Q)) : forall acc,
  fold_left (fun (st_ : list (list Q)) '(log_val, g_val, g_bhw_val) => st_ ++ [[log_val; g_val; g_bhw_val]]) l acc = acc ++ map g_row l.
Proof.
  induction l as [|[[a b] c] t IH]; intros acc; cbn [fold_left map]; [rewrite app_nil_r; reflexivity|].
  rewrite IH, <- app_assoc. reflexivity.
Qed.
Lemma g_rows_spec x y z : g_table_rows x y z = map g_row (combine (combine x y) z).
Proof. unfold g_table_rows. cbv zeta. exact (g_fold (combine (combine x y) z) []). Qed.

Definition column (k : nat) (rows : list (list Q)) : list Q := map (fun r => nth k r 0) rows.

Lemma g_table_columns x : forall y z, length y = length x -> length z = length x ->
  column 0 (g_table_rows x y z) = x /\ column 1 (g_table_rows x y z) = y /\ column 2 (g_table_rows x y z) = z /\
  length (g_table_rows x y z) = length x /\ Forall (fun r => length r = 3%nat) (g_table_rows x y z).
Proof.
  intros y z. rewrite g_rows_spec. revert y z.
  induction x as [|a x IH]; intros [|b y] [|c z] Ly Lz; cbn [length] in *; try discriminate.
  - cbn. repeat split; constructor.
  - injection Ly as Ly. injection Lz as Lz. destruct (IH y z Ly Lz) as (A & B & C & D & E).
    cbn [combine map column g_row nth length]. unfold column in *. rewrite A, B, C, D.
    repeat split; try reflexivity. constructor; [reflexivity | exact E].
Qed.

Lemma g_table_time_increasing x y z : length y = length x -> length z = length x ->
  strictly_increasing x -> strictly_increasing (column 0 (g_table_rows x y z)).
Proof. intros Ly Lz H. destruct (g_table_columns x y z Ly Lz) as [E _]. rewrite E. exact H. Qed.
