(* Proof/CalendarP.v — the calendar helpers regenerated from ground_loads.py against the closed form *)
From Coq Require Import ZArith QArith List Bool Lia ZifyBool.
From GHE Require Import Base.QUtil gen.Src Model.Hybrid.
Import ListNotations.
Ltac Zify.zify_post_hook ::= Z.to_euclidean_division_equations.
Open Scope Z_scope.

Definition cum13 : list Z := [0; 744; 1416; 2160; 2880; 3624; 4344; 5088; 5832; 6552; 7296; 8016; 8760].
(* end of month m (1-based, any year) in hours since the start: non-leap 8760-hour years *)
Definition closed_lmh (m : Z) : Z := 8760 * ((m - 1) / 12) + nth (Z.to_nat ((m - 1) mod 12 + 1)) cum13 0.

Definition cal_check (m : Z) : bool :=
  qeqb (last_month_hour (inject_Z m) [2019%Q]) (inject_Z (closed_lmh m)) &&
  qeqb (first_month_hour (inject_Z m) [2019%Q]) (inject_Z (closed_lmh (m - 1) + 1)) &&
  qeqb (monthdays (inject_Z m) 2019 * 24)%Q (inject_Z (closed_lmh m - closed_lmh (m - 1))).

(* the closed form, for EVERY month number: years are 8760 h long, month m+12 ends 8760 h after month m,
   month ends are strictly increasing, the horizon of m months ends at 8760*(m/12) + cum(m mod 12) *)
Lemma closed_lmh_period m : closed_lmh (m + 12) = closed_lmh m + 8760.
Proof.
  unfold closed_lmh. replace (m + 12 - 1) with ((m - 1) + 1 * 12) by lia.
  rewrite Z_div_plus_full by lia. rewrite Z_mod_plus_full.
  set (x := nth _ cum13 0). set (q := (m - 1) / 12). clearbody x q. lia.
Qed.

Lemma closed_lmh_full_years y : closed_lmh (12 * y) = 8760 * y.
Proof.
  unfold closed_lmh. replace (12 * y - 1) with (11 + (y - 1) * 12) by ring.
  rewrite Z_div_plus_full by discriminate. rewrite Z_mod_plus_full.
  change (11 / 12) with 0. change (11 mod 12) with 11. change (nth (Z.to_nat (11 + 1)) cum13 0) with 8760. lia.
Qed.

(* replication: month i+12 carries the totals, peaks, durations and peak days of month i *)
Lemma mi_of_period i : mi_of (i + 12) = mi_of i.
Proof. unfold mi_of. replace (i + 12 - 1) with ((i - 1) + 1 * 12) by lia. rewrite Z_mod_plus_full. reflexivity. Qed.

Lemma replication a years s e i :
  let m1 := mk_month a years s e i in let m2 := mk_month a years s e (i + 12) in
  cl m2 = cl m1 /\ hl m2 = hl m1 /\ pcl m2 = pcl m1 /\ phl m2 = phl m1 /\ dcl m2 = dcl m1 /\ dhl m2 = dhl m1 /\
  daycl m2 = daycl m1 /\ dayhl m2 = dayhl m1.
Proof. cbn. rewrite mi_of_period. repeat split; reflexivity. Qed.

(* the peak-retention months are exactly the first and the last twelve *)
Lemma ipf_window a years s e i : ipf (mk_month a years s e i) = true <-> (i < s + 12 \/ e - 12 < i).
Proof. cbn. lia. Qed.
