(* Proof/SplitMonthP.v — HybridLoad.split_loads_by_month REGENERATED from ground_loads.py, on the non-leap calendar the tool uses for one year of
   loads: closed form of all eight monthly arrays for EVERY pair of hourly series (the series stay abstract; only the calendar, the running hour
   offset and the item assignments are computed) *)
From Coq Require Import ZArith QArith List Bool Lia Lqa.
From GHE Require Import Base.QUtil gen.Src Proof.TwoDayP.
Import ListNotations. Open Scope Q_scope.

Definition cal12 : list Q := [0; 31; 28; 31; 30; 31; 30; 31; 31; 30; 31; 30; 31].     (* days_in_month of a non-leap year; index 0 unused *)
Definition cum12 : list Q := [0; 744; 1416; 2160; 2880; 3624; 4344; 5088; 5832; 6552; 7296; 8016; 8760].
Definition z13 : list Q := repeat 0 13.
(* hours of calendar month m (1..12) of an hourly series: Python's X[cum(m-1) : cum(m)] *)
Definition mslice (X : list Q) (m : nat) : list Q := sliceD X (nth (m - 1) cum12 0) (nth m cum12 0).
Definition months12 : list nat := seq 1 12.
Definition m_total X := 0 :: map (fun m => qsum (mslice X m)) months12.
Definition m_peak X := 0 :: map (fun m => qmaxl (mslice X m)) months12.
Definition m_avg X := 0 :: map (fun m => qdiv (qsum (mslice X m)) (qlen (mslice X m))) months12.
Definition m_peak_day X := 0 :: map (fun m => qfloor (qdiv (qindex (mslice X m) (qmaxl (mslice X m))) HRS_IN_DAY)) months12.

Lemma split_by_month_closed_form R E :
  split_loads_by_month cal12 R E z13 z13 z13 z13 z13 z13 z13 z13
  = (m_total R, m_total E, m_peak R, m_peak E, m_avg R, m_avg E, m_peak_day R, m_peak_day E).
Proof.
  unfold m_total, m_peak, m_avg, m_peak_day, mslice, months12.
  cbv -[sliceD qsum qmaxl qindex qlen qfloor qdiv]. reflexivity.
Qed.

(* ---------- the twelve month slices tile a year of 8760 hours: the monthly totals add up to the year ---------- *)
Lemma fold_qadd l : forall a, fold_left qadd l a == a + fold_left qadd l 0.
Proof. induction l as [|h t IH]; intros a; cbn [fold_left]; [ring|]. rewrite IH, (IH (qadd 0 h)), !qadd_eq. ring. Qed.
Lemma qsum_app l1 l2 : qsum (l1 ++ l2) == qsum l1 + qsum l2.
Proof. unfold qsum. rewrite fold_left_app, fold_qadd. reflexivity. Qed.
Lemma firstn_split {A} (l : list A) n m : firstn (n + m) l = firstn n l ++ firstn m (skipn n l).
Proof. revert l; induction n as [|n IH]; intros l; [reflexivity|]. destruct l as [|h t]; [cbn; rewrite firstn_nil; reflexivity|]. cbn. rewrite IH. reflexivity. Qed.
Lemma skipn_add {A} (l : list A) n m : skipn (n + m) l = skipn m (skipn n l).
Proof. revert l; induction n as [|n IH]; intros l; [reflexivity|]. destruct l as [|h t]; [cbn; rewrite skipn_nil; reflexivity|]. cbn. apply IH. Qed.
Lemma slice_join (X : list Q) (a b c : nat) : (a <= b <= c)%nat -> (c <= length X)%nat ->
  qsum (sliceD X (natQ a) (natQ c)) == qsum (sliceD X (natQ a) (natQ b)) + qsum (sliceD X (natQ b) (natQ c)).
Proof.
  intros H1 H2.
  rewrite (sliceD_nat X (natQ a) (natQ c) a c), (sliceD_nat X (natQ a) (natQ b) a b), (sliceD_nat X (natQ b) (natQ c) b c); try reflexivity; try lia.
  replace (c - a)%nat with ((b - a) + (c - b))%nat by lia. rewrite firstn_split, qsum_app.
  rewrite <- skipn_add. replace (a + (b - a))%nat with b by lia. reflexivity.
Qed.
Lemma slice_join' (X : list Q) (qa qb qc : Q) (a b c : Z) : qa == inject_Z a -> qb == inject_Z b -> qc == inject_Z c ->
  (0 <= a <= b)%Z -> (b <= c)%Z -> (c <= Z.of_nat (length X))%Z ->
  qsum (sliceD X qa qc) == qsum (sliceD X qa qb) + qsum (sliceD X qb qc).
Proof.
  intros Ea Eb Ec H1 H2 H3.
  assert (Na : qa == natQ (Z.to_nat a)) by (rewrite Ea; unfold natQ; rewrite Z2Nat.id by lia; reflexivity).
  assert (Nb : qb == natQ (Z.to_nat b)) by (rewrite Eb; unfold natQ; rewrite Z2Nat.id by lia; reflexivity).
  assert (Nc : qc == natQ (Z.to_nat c)) by (rewrite Ec; unfold natQ; rewrite Z2Nat.id by lia; reflexivity).
  rewrite (sliceD_nat X qa qc _ _ Na Nc), (sliceD_nat X qa qb _ _ Na Nb), (sliceD_nat X qb qc _ _ Nb Nc) by lia.
  set (a' := Z.to_nat a). set (b' := Z.to_nat b). set (c' := Z.to_nat c).
  assert (Hab : (a' <= b')%nat) by (subst a' b'; lia). assert (Hbc : (b' <= c')%nat) by (subst b' c'; lia).
  replace (c' - a')%nat with ((b' - a') + (c' - b'))%nat by lia. rewrite firstn_split, qsum_app.
  rewrite <- skipn_add. replace (a' + (b' - a'))%nat with b' by lia. reflexivity.
Qed.
Lemma year_is_the_sum_of_its_months (X : list Q) : Z.of_nat (length X) = 8760%Z ->
  fold_left Qplus (map (fun m => qsum (mslice X m)) (seq 1 12)) 0 == qsum X.
Proof.
  intros L. unfold mslice. cbn [seq map fold_left nth Nat.sub cum12].
  assert (W : qsum X == qsum (sliceD X 0 8760)).
  { rewrite (sliceD_nat X 0 8760 (Z.to_nat 0) (Z.to_nat 8760)); [|reflexivity|reflexivity|lia].
    cbn [Z.to_nat skipn]. rewrite Nat.sub_0_r. rewrite firstn_all2 by lia. reflexivity. }
  rewrite W.
  rewrite (slice_join' X 0 8016 8760 0 8016 8760), (slice_join' X 0 7296 8016 0 7296 8016), (slice_join' X 0 6552 7296 0 6552 7296),
    (slice_join' X 0 5832 6552 0 5832 6552), (slice_join' X 0 5088 5832 0 5088 5832), (slice_join' X 0 4344 5088 0 4344 5088),
    (slice_join' X 0 3624 4344 0 3624 4344), (slice_join' X 0 2880 3624 0 2880 3624), (slice_join' X 0 2160 2880 0 2160 2880),
    (slice_join' X 0 1416 2160 0 1416 2160), (slice_join' X 0 744 1416 0 744 1416); try reflexivity; try lia.
  ring.
Qed.

Lemma monthly_totals_conserve_the_year (X : list Q) : Z.of_nat (length X) = 8760%Z ->
  fold_left Qplus (m_total X) 0 == qsum X.
Proof.
  intros L. unfold m_total, months12. cbn [fold_left]. rewrite <- (year_is_the_sum_of_its_months X L).
  assert (E : 0 + 0 == 0) by ring.
  generalize (map (fun m : nat => qsum (mslice X m)) (seq 1 12)). intros l. clear -E.
  assert (G : forall a b, a == b -> fold_left Qplus l a == fold_left Qplus l b).
  { induction l as [|h t IH]; intros a b H; cbn [fold_left]; [exact H|]. apply IH. rewrite H. reflexivity. }
  apply G. exact E.
Qed.
