From Coq Require Import ZArith QArith Qround List Bool Lia Lqa.
From GHE Require Import Base.QUtil gen.Src Model.OutputTime.
Import ListNotations.
Open Scope Q_scope.



Lemma in_rangeZ a b x : (a <= x < b)%Z -> In x (rangeZ a b).
Proof.
  intros H. unfold rangeZ. apply in_map_iff. exists (Z.to_nat (x - a)). split; [lia|].
  apply in_seq. lia.
Qed.

(* complete finite domain: all 8760 hours of the year, by computation *)
Lemma convert_all_ok_true :
  forallb (fun h => label_ok h (ghe_time_convert (inject_Z h))) all_hours = true.
Proof. vm_compute. reflexivity. Qed.

Lemma convert_is_calendar_l (h : Z) :
  (0 <= h < 8760)%Z -> label_ok h (ghe_time_convert (inject_Z h)) = true.
Proof.
  intros H. pose proof convert_all_ok_true as A.
  rewrite forallb_forall in A. apply A. unfold all_hours. apply in_rangeZ. change year_hours with 8760%Z. exact H.
Qed.

(* what label_ok means, unfolded into the property's own words *)
Lemma label_ok_sound h m d hr : label_ok h (m, d, hr) = true ->
  exists mz dz hz : Z, m == inject_Z mz /\ d == inject_Z dz /\ hr == inject_Z hz /\
    (1 <= mz <= 12)%Z /\ (1 <= dz <= nth (Z.to_nat (mz - 1)) cal_days 0)%Z /\ (1 <= hz <= 24)%Z /\
    (h = cal_cum (Z.to_nat (mz - 1)) + 24 * (dz - 1) + (hz - 1))%Z.
Proof.
  unfold label_ok. intros H.
  repeat (apply andb_prop in H; destruct H as [H ?]).
  exists (Qfloor m), (Qfloor d), (Qfloor hr).
  repeat match goal with X : qeqb _ _ = true |- _ => apply Qeq_bool_iff in X end.
  repeat split; try assumption; try lia.
Qed.

Lemma convert_is_calendar (h : Z) : (0 <= h < 8760)%Z ->
  exists mz dz hz : Z,
    let '(m, d, hr) := ghe_time_convert (inject_Z h) in
    m == inject_Z mz /\ d == inject_Z dz /\ hr == inject_Z hz /\
    (1 <= mz <= 12)%Z /\ (1 <= dz <= nth (Z.to_nat (mz - 1)) cal_days 0)%Z /\ (1 <= hz <= 24)%Z /\
    (h = cal_cum (Z.to_nat (mz - 1)) + 24 * (dz - 1) + (hz - 1))%Z.
Proof.
  intros H. pose proof (convert_is_calendar_l h H) as L.
  destruct (ghe_time_convert (inject_Z h)) as [[m d] hr].
  destruct (label_ok_sound h m d hr L) as (mz & dz & hz & X). exists mz, dz, hz. exact X.
Qed.

(* sampled agreement generated function = reference (a computation over a finite sample, not a proof
   of the unbounded claim; the unbounded theorems below are about h2m_spec) *)
Lemma h2m_agree_sample : h2m_agree_on (h2m_grid_stride ++ h2m_grid_ends) = true.
Proof. vm_compute. reflexivity. Qed.

