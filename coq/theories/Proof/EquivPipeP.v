(* Proof/EquivPipeP.v — C15: the equal-volume radii and pipe conductivity REGENERATED from equivalent_single_u_tube *)
From Coq Require Import ZArith QArith List Bool Lia Lqa.
From GHE Require Import Base.QUtil gen.Src Model.Search Proof.SearchP.
Import ListNotations.
Open Scope Q_scope.

Section EP.
Variables (pi_ two_pi : Q) (ln_ sqrt_ : Q -> Q).
Hypothesis pi_pos : 0 < pi_.
Hypothesis two_pi_def : two_pi == 2 * pi_.
Hypothesis sqrt_sq : forall y, 0 <= y -> sqrt_ y * sqrt_ y == y.         (* the only property of sqrt that is used *)
Hypothesis sqrt_ext : forall a b, a == b -> sqrt_ a == sqrt_ b.

Let r_in' (vf : Q) := eq_r_in pi_ sqrt_ vf eq_n.
Let r_out' (vf vp : Q) := eq_r_out pi_ sqrt_ vf vp eq_n.

(* fluid volume per metre is preserved: 2 pi r_i'^2 = V_f *)
Theorem fluid_volume_preserved vf : 0 <= vf -> eq_n * pi_ * (r_in' vf * r_in' vf) == vf.
Proof.
  intros H. unfold r_in', eq_r_in, eq_n.
  assert (E : qdiv vf (qmul (2 # 1) pi_) == vf / (2 * pi_)) by (rewrite qdiv_eq, qmul_eq; reflexivity).
  rewrite (sqrt_ext _ _ E). rewrite sqrt_sq; [field; lra|]. apply Qle_shift_div_l; lra.
Qed.

(* pipe-wall volume per metre is preserved: 2 pi (r_o'^2 - r_i'^2) = V_p *)
Theorem pipe_volume_preserved vf vp : 0 <= vf -> 0 <= vp ->
  eq_n * pi_ * (r_out' vf vp * r_out' vf vp - r_in' vf * r_in' vf) == vp.
Proof.
  intros Hf Hp. unfold r_out', r_in', eq_r_out, eq_r_in, eq_n.
  assert (E1 : qdiv (qadd vf vp) (qmul (2 # 1) pi_) == (vf + vp) / (2 * pi_)) by (rewrite qdiv_eq, qadd_eq, qmul_eq; reflexivity).
  assert (E2 : qdiv vf (qmul (2 # 1) pi_) == vf / (2 * pi_)) by (rewrite qdiv_eq, qmul_eq; reflexivity).
  rewrite (sqrt_ext _ _ E1), (sqrt_ext _ _ E2).
  assert (S1 := sqrt_sq ((vf + vp) / (2 * pi_)) ltac:(apply Qle_shift_div_l; lra)).
  assert (S2 := sqrt_sq (vf / (2 * pi_)) ltac:(apply Qle_shift_div_l; lra)).
  set (a := sqrt_ ((vf + vp) / (2 * pi_))) in *. set (b := sqrt_ (vf / (2 * pi_))) in *.
  assert (X : (2 # 1) * pi_ * (a * a - b * b) == (2 # 1) * pi_ * ((vf + vp) / (2 * pi_) - vf / (2 * pi_))) by (rewrite S1, S2; reflexivity).
  rewrite X. field. lra.
Qed.

(* the equivalent pipe conductivity reproduces the pipe resistance: ln(r_o'/r_i') / (2 pi * 2 * k_p') = R_pipe *)
Theorem pipe_resistance_reproduced ro ri rp : ~ rp == 0 -> ~ ln_ (qdiv ro ri) == 0 ->
  ln_ (qdiv ro ri) / (two_pi * eq_n * eq_k_pipe two_pi ln_ ro ri eq_n rp) == rp.
Proof.
  intros Hr Hl. unfold eq_k_pipe, eq_n. set (L := ln_ (qdiv ro ri)) in *. rewrite qdiv_eq, !qmul_eq. rewrite two_pi_def. field. repeat split; try lra; assumption.
Qed.

(* the double U-tube's own volumes (regenerated u_tube_volumes): 4 tubes *)
Theorem double_u_tube_volumes r_in r_out h_f k_p :
  let '(vf, vp, _, _) := u_tube_volumes pi_ two_pi ln_ 2 r_in h_f r_out k_p in
  vf == 4 * pi_ * (r_in * r_in) /\ vp == 4 * pi_ * (r_out * r_out - r_in * r_in).
Proof.
  unfold u_tube_volumes. cbv zeta. unfold qpow. rewrite !qsub_eq, !qmul_eq, !Qred_correct.
  split; cbn [Qpower Qpower_positive Pos.iter_op Pos.to_nat]; ring_simplify; try reflexivity.
  all: unfold Qpower_positive; cbn; ring.
Qed.
End EP.

(* the two root solves: when the objective changes sign on the bracket the returned value is brentq's root,
   otherwise it is a bracket end and NO match is promised *)
Theorem match_when_bracketed (f : Q -> Q) (lo hi b eps k : Q) :
  solve_root f lo hi b = Ok k -> ((f lo < 0 /\ 0 < f hi) \/ (f hi < 0 /\ 0 < f lo)) -> Qabs.Qabs (f b) <= eps -> Qabs.Qabs (f k) <= eps.
Proof.
  intros H Br Hb. destruct (solve_root_cases _ _ _ _ _ H) as [[_ E]|[[[A B] E]|[[A B] E]]]; subst k; [exact Hb | exfalso; lra | exfalso; lra].
Qed.
Theorem clamp_when_not (f : Q -> Q) (lo hi b k : Q) :
  solve_root f lo hi b = Ok k -> ~ ((f lo < 0 /\ 0 < f hi) \/ (f hi < 0 /\ 0 < f lo)) -> k = lo \/ k = hi.
Proof.
  intros H N. destruct (solve_root_cases _ _ _ _ _ H) as [[Br E]|[[_ E]|[_ E]]]; [exfalso; exact (N Br) | left; exact E | right; exact E].
Qed.
