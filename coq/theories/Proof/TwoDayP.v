(* Proof/TwoDayP.v — the two-day window of each month's peak day, on HybridLoad.process_two_day_loads REGENERATED from ground_loads.py:
   for every year of 8760 hourly loads and every peak day, the window handed to the peak-duration analysis is the 48 hours that END with
   the peak day (the day before and the day itself), wrapping around the year for 1 January. *)
From Coq Require Import ZArith QArith Qround List Bool Lia Lqa.
From GHE Require Import Base.QUtil gen.Src.
Import ListNotations.
Open Scope Q_scope.

(* ---------- the loop as a recursive list of windows ---------- *)
Fixpoint wins (X pk days idxs : list Q) (p : Q) : list (list Q) :=
  match idxs with
  | [] => []
  | i :: t => sliceD X (qadd p (qmul (qsub (nthD pk i) 1) HRS_IN_DAY))
                       (qadd (qadd p (qmul (qsub (nthD pk i) 1) HRS_IN_DAY)) (qmul 2 HRS_IN_DAY))
              :: wins X pk days t (qadd p (qmul HRS_IN_DAY (nthD days i)))
  end.

Definition step (XL XE days pc ph : list Q) (st_ : list (list Q) * list (list Q) * Q) (i : Q) :=
  let '(a, b, h) := st_ in
  (a ++ [sliceD XL (qadd h (qmul (qsub (nthD pc i) 1) HRS_IN_DAY)) (qadd (qadd h (qmul (qsub (nthD pc i) 1) HRS_IN_DAY)) (qmul 2 HRS_IN_DAY))],
   b ++ [sliceD XE (qadd h (qmul (qsub (nthD ph i) 1) HRS_IN_DAY)) (qadd (qadd h (qmul (qsub (nthD ph i) 1) HRS_IN_DAY)) (qmul 2 HRS_IN_DAY))],
   qadd h (qmul HRS_IN_DAY (nthD days i))).

Lemma fold_step_wins XL XE days pc ph idxs : forall ic ih p,
  fst (fold_left (step XL XE days pc ph) idxs (ic, ih, p)) = (ic ++ wins XL pc days idxs p, ih ++ wins XE ph days idxs p).
Proof.
  induction idxs as [|i t IH]; intros ic ih p; cbn [fold_left wins].
  - cbn. rewrite !app_nil_r. reflexivity.
  - unfold step at 2. rewrite IH. rewrite <- !app_assoc. reflexivity.
Qed.

Lemma two_day_is_wins L E days pc ph ic ih :
  process_two_day_loads L E days pc ph ic ih =
  (ic ++ wins (slice_from L (qsub (qlen L) HRS_IN_DAY) ++ L) pc days (qrange 1 (qlen days)) HRS_IN_DAY,
   ih ++ wins (slice_from E (qsub (qlen L) HRS_IN_DAY) ++ E) ph days (qrange 1 (qlen days)) HRS_IN_DAY).
Proof.
  unfold process_two_day_loads. cbv zeta.
  set (XL := slice_from L _ ++ L). set (XE := slice_from E _ ++ E).
  rewrite <- (fold_step_wins XL XE days pc ph (qrange 1 (qlen days)) ic ih HRS_IN_DAY).
  change (fold_left _ (qrange 1 (qlen days)) (ic, ih, HRS_IN_DAY)) with (fold_left (step XL XE days pc ph) (qrange 1 (qlen days)) (ic, ih, HRS_IN_DAY)).
  destruct (fold_left (step XL XE days pc ph) (qrange 1 (qlen days)) (ic, ih, HRS_IN_DAY)) as [[a b] h]. reflexivity.
Qed.

(* ---------- slices with natural bounds ---------- *)
Lemma Qfloor_inject_Z z : Qfloor (inject_Z z) = z.
Proof. unfold Qfloor, inject_Z. cbn. apply Z.div_1_r. Qed.

Lemma Qnat_eq q a : q == natQ a -> Qnat q = a.
Proof. intros H. unfold Qnat. rewrite (Qfloor_comp _ _ H). unfold natQ. rewrite Qfloor_inject_Z. apply Nat2Z.id. Qed.

Lemma natQ_nonneg a : 0 <= natQ a.
Proof. unfold natQ. change 0 with (inject_Z 0). rewrite <- Zle_Qle. lia. Qed.

Lemma slice_bound_nat len q a : q == natQ a -> (a <= len)%nat -> slice_bound len q = a.
Proof.
  intros H L. unfold slice_bound. assert (N : qltb q 0 = false).
  { unfold qltb. apply negb_false_iff. apply Qle_bool_iff. rewrite H. apply natQ_nonneg. }
  rewrite N, (Qnat_eq _ _ H). lia.
Qed.

Lemma sliceD_nat {A} (X : list A) qa qb a b : qa == natQ a -> qb == natQ b -> (a <= b <= length X)%nat ->
  sliceD X qa qb = firstn (b - a) (skipn a X).
Proof. intros Ha Hb L. unfold sliceD. rewrite (slice_bound_nat _ _ _ Ha), (slice_bound_nat _ _ _ Hb) by lia. reflexivity. Qed.

Lemma nth_firstn_lt {A} (l : list A) n j d : (j < n)%nat -> nth j (firstn n l) d = nth j l d.
Proof. revert n j. induction l as [|x t IH]; intros [|n] [|j] H; cbn; try lia; auto. apply IH. lia. Qed.

Lemma nth_skipn_add {A} (l : list A) a j d : nth j (skipn a l) d = nth (a + j) l d.
Proof. revert l. induction a as [|a IH]; intros [|x t]; cbn; auto. destruct j; reflexivity. Qed.

(* the extended series: the last day of the year in front of the year.  Hours are counted in Z (no large nat literals). *)
Lemma window_nth (L0 L : list Q) qa qb a j : Z.of_nat (length L0) = 8760%Z -> Z.of_nat (length L) = 8760%Z -> qa == natQ a -> qb == natQ (a + Z.to_nat 48) ->
  (Z.of_nat a + 48 <= 8784)%Z -> (Z.of_nat j < 48)%Z ->
  nth j (sliceD (slice_from L (qsub (qlen L0) HRS_IN_DAY) ++ L) qa qb) 0 = nth (Z.to_nat ((Z.of_nat a + Z.of_nat j + 8736) mod 8760)) L 0.
Proof.
  intros HL0 HL Ha Hb Hr Hj.
  set (n24 := Z.to_nat 24). set (n48 := Z.to_nat 48) in *. set (n8736 := Z.to_nat 8736).
  assert (T : slice_from L (qsub (qlen L0) HRS_IN_DAY) = skipn n8736 L).
  { unfold slice_from. rewrite (slice_bound_nat (length L) _ n8736); [reflexivity| |unfold n8736; lia].
    unfold qlen, natQ. rewrite HL0. vm_compute. reflexivity. }
  rewrite T.
  assert (LT : length (skipn n8736 L) = n24) by (rewrite skipn_length; unfold n8736, n24; lia).
  rewrite (sliceD_nat _ qa qb a (a + n48) Ha Hb) by (rewrite app_length, LT; unfold n24, n48; lia).
  replace (a + n48 - a)%nat with n48 by lia.
  rewrite nth_firstn_lt by (unfold n48; lia). rewrite nth_skipn_add.
  destruct (Nat.lt_ge_cases (a + j) n24) as [C|C].
  - rewrite app_nth1 by lia. rewrite nth_skipn_add. f_equal. unfold n24, n8736 in *.
    rewrite Z.mod_small by lia. lia.
  - rewrite app_nth2 by lia. rewrite LT. f_equal. unfold n24, n8736 in *.
    replace (Z.of_nat a + Z.of_nat j + 8736)%Z with ((Z.of_nat a + Z.of_nat j - 24) + 1 * 8760)%Z by lia.
    rewrite Z.mod_add by lia. rewrite Z.mod_small by lia. lia.
Qed.

(* ---------- the calendar year of HybridLoad (index 0 unused) ---------- *)
Definition cal : list Q := [0; 31; 28; 31; 30; 31; 30; 31; 31; 30; 31; 30; 31].
Definition daysz : list Z := [0; 31; 28; 31; 30; 31; 30; 31; 31; 30; 31; 30; 31]%Z.
Definition cumz : list Z := [0; 0; 744; 1416; 2160; 2880; 3624; 4344; 5088; 5832; 6552; 7296; 8016]%Z.   (* hours before month i *)

Lemma nthD_nat {A} `{Default A} (l : list A) (k : nat) : nthD l (inject_Z (Z.of_nat k)) = nth k l dflt.
Proof.
  unfold nthD. assert (N : qltb (inject_Z (Z.of_nat k)) 0 = false).
  { unfold qltb. apply negb_false_iff. apply Qle_bool_iff. apply natQ_nonneg. }
  rewrite N. f_equal. apply Qnat_eq. reflexivity.
Qed.

Lemma nth_map_natQ (dc : list nat) k : nth k (map natQ dc) 0 = natQ (nth k dc 0%nat).
Proof. change 0 with (natQ 0). apply map_nth. Qed.

Lemma wins_cons X pk days i t p : wins X pk days (i :: t) p =
  sliceD X (qadd p (qmul (qsub (nthD pk i) 1) HRS_IN_DAY)) (qadd (qadd p (qmul (qsub (nthD pk i) 1) HRS_IN_DAY)) (qmul 2 HRS_IN_DAY))
  :: wins X pk days t (qadd p (qmul HRS_IN_DAY (nthD days i))).
Proof. reflexivity. Qed.

Lemma idxs_cal : qrange 1 (qlen cal) = map (fun k => inject_Z (Z.of_nat k)) (seq 1 12).
Proof. vm_compute. reflexivity. Qed.

(* the start of window i in the extended series is 24 + (hours before month i) + 24 (d - 1) = cum_i + 24 d *)
Lemma start_eq (P : Q) (c : Z) (d : nat) : P == inject_Z (24 + c) -> (0 <= c)%Z ->
  qadd P (qmul (qsub (natQ d) 1) HRS_IN_DAY) == natQ (Z.to_nat (c + 24 * Z.of_nat d)).
Proof.
  intros HP Hc. qnorm. rewrite HP. unfold natQ, HRS_IN_DAY. rewrite Z2Nat.id by lia.
  rewrite !inject_Z_plus, !inject_Z_mult. change (inject_Z 24) with 24. change (24 # 1) with 24. ring.
Qed.

Lemma end_eq (qa : Q) (a : nat) : qa == natQ a -> qadd qa (qmul 2 HRS_IN_DAY) == natQ (a + Z.to_nat 48).
Proof.
  intros H. qnorm. rewrite H. unfold natQ, HRS_IN_DAY. rewrite Nat2Z.inj_add, Z2Nat.id by lia. rewrite inject_Z_plus. change (inject_Z 48) with 48. ring.
Qed.

Section Windows.
Variables (L E : list Q) (dc dh : list nat).
Hypotheses (HL : Z.of_nat (length L) = 8760%Z) (HE : Z.of_nat (length E) = 8760%Z).

Lemma month_window (L1 : list Q) (d1 : list nat) (i j : nat) : Z.of_nat (length L1) = 8760%Z ->
  (1 <= i <= 12)%nat -> (Z.of_nat j < 48)%Z -> (Z.of_nat (nth i d1 0%nat) < nth i daysz 0%Z)%Z ->
  nth j (nth (i - 1) (wins (slice_from L1 (qsub (qlen L) HRS_IN_DAY) ++ L1) (map natQ d1) cal (qrange 1 (qlen cal)) HRS_IN_DAY) []) 0 =
  nth (Z.to_nat ((nth i cumz 0%Z + 24 * Z.of_nat (nth i d1 0%nat) + Z.of_nat j + 8736) mod 8760)%Z) L1 0.
Proof.
  intros HL1 Hi Hj Hd. rewrite idxs_cal. cbn [seq map].
  set (X := slice_from L1 _ ++ L1).
  assert (K : forall (P : Q) (c : Z), P == inject_Z (24 + c) -> (0 <= c)%Z -> (c + 24 * Z.of_nat (nth i d1 0%nat) + 48 <= 8784)%Z ->
            nth j (sliceD X (qadd P (qmul (qsub (natQ (nth i d1 0%nat)) 1) HRS_IN_DAY))
                             (qadd (qadd P (qmul (qsub (natQ (nth i d1 0%nat)) 1) HRS_IN_DAY)) (qmul 2 HRS_IN_DAY))) 0 =
            nth (Z.to_nat ((c + 24 * Z.of_nat (nth i d1 0%nat) + Z.of_nat j + 8736) mod 8760)%Z) L1 0).
  { intros P c HP Hc Hr. unfold X.
    rewrite (window_nth L L1 _ _ (Z.to_nat (c + 24 * Z.of_nat (nth i d1 0%nat))) j HL HL1 (start_eq P c _ HP Hc) (end_eq _ _ (start_eq P c _ HP Hc))); [|rewrite Z2Nat.id; lia|exact Hj].
    f_equal. f_equal. rewrite Z2Nat.id by lia. ring. }
  assert (Hc : (i = 1 \/ i = 2 \/ i = 3 \/ i = 4 \/ i = 5 \/ i = 6 \/ i = 7 \/ i = 8 \/ i = 9 \/ i = 10 \/ i = 11 \/ i = 12)%nat) by lia.
  repeat (destruct Hc as [Hc|Hc]); subst i;
  cbn [Nat.sub nth] in *; repeat rewrite wins_cons; cbn [nth];
  rewrite !nthD_nat, nth_map_natQ; (apply K; [vm_compute; reflexivity | cbn [nth cumz]; lia | cbn [nth daysz cumz] in *; lia]).
Qed.

(* the window of the rejection peak of month i: hour j of it is hour (hours before month i) + 24 (d - 1) + j of the year (mod 8760),
   d the 0-based index of the peak day in the month — i.e. the day before the peak day followed by the peak day *)
Theorem two_day_window_rejection (i j : nat) : (1 <= i <= 12)%nat -> (Z.of_nat j < 48)%Z -> (Z.of_nat (nth i dc 0%nat) < nth i daysz 0%Z)%Z ->
  nth j (nth (i - 1) (fst (process_two_day_loads L E cal (map natQ dc) (map natQ dh) [] [])) []) 0 =
  nth (Z.to_nat ((nth i cumz 0%Z + 24 * Z.of_nat (nth i dc 0%nat) + Z.of_nat j + 8736) mod 8760)%Z) L 0.
Proof. intros. rewrite two_day_is_wins. cbn [fst app]. apply month_window; assumption. Qed.

Theorem two_day_window_extraction (i j : nat) : (1 <= i <= 12)%nat -> (Z.of_nat j < 48)%Z -> (Z.of_nat (nth i dh 0%nat) < nth i daysz 0%Z)%Z ->
  nth j (nth (i - 1) (snd (process_two_day_loads L E cal (map natQ dc) (map natQ dh) [] [])) []) 0 =
  nth (Z.to_nat ((nth i cumz 0%Z + 24 * Z.of_nat (nth i dh 0%nat) + Z.of_nat j + 8736) mod 8760)%Z) E 0.
Proof. intros. rewrite two_day_is_wins. cbn [snd app]. apply month_window; assumption. Qed.

(* 48 hours each *)
End Windows.
