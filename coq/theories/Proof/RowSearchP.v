(* Proof/RowSearchP.v — the RowWise design search: exception discipline, feasibility of the selection, specifier. *)
From Coq Require Import ZArith QArith Qabs List Bool Lia Lqa.
From GHE Require Import Base.QUtil Model.RowSearch.
Import ListNotations.
Open Scope Q_scope.

Lemma qltb_true a b : qltb a b = true -> a < b.
Proof. unfold qltb. intros H. apply negb_true_iff in H. destruct (Qlt_le_dec a b) as [L|L]; [exact L|]. apply Qle_bool_iff in L. congruence. Qed.

Lemma qleb_true a b : qleb a b = true -> a <= b.
Proof. unfold qleb. apply Qle_bool_iff. Qed.

(* ---------------- the spacing bisection keeps a satisfactory denser end *)
Lemma spacing_bisect_feasible fuel o : forall sh sl low_e high_e m spec tr sh' spec' tr',
  o_gen_excess o sh <= 0 ->
  spacing_bisect fuel o sh sl low_e high_e m spec tr = (sh', spec', tr') -> o_gen_excess o sh' <= 0.
Proof.
  induction fuel as [|f IH]; intros sh sl low_e high_e m spec tr sh' spec' tr' H E; cbn [spacing_bisect] in E.
  - inversion E; subst. exact H.
  - destruct (qleb (o_gen_excess o m) 0) eqn:T.
    + destruct (qltb _ _) in E.
      * inversion E; subst. apply qleb_true. exact T.
      * eapply IH; [|exact E]. apply qleb_true. exact T.
    + destruct (qltb _ _) in E.
      * inversion E; subst. exact H.
      * eapply IH; [|exact E]. exact H.
Qed.

(* the sweep keeps its first field unless a later satisfactory one needs less drilling *)
Lemma sweep_pick_some o ts : forall b, b <> None -> sweep_pick o ts b <> None.
Proof.
  induction ts as [|s rest IH]; intros b Hb; cbn [sweep_pick]; [exact Hb|].
  apply IH. destruct b as [[bs bd]|]; [|congruence]. destruct (_ && _); congruence.
Qed.

Lemma sweep_pick_feasible o ts : forall bs bd s d, o_gen_excess o bs <= 0 ->
  sweep_pick o ts (Some (bs, bd)) = Some (s, d) -> o_gen_excess o s <= 0.
Proof.
  induction ts as [|x rest IH]; intros bs bd s d H E; cbn [sweep_pick] in E.
  - inversion E; subst. exact H.
  - destruct (qleb (o_gen_excess o x) 0) eqn:T; cbn [andb] in E.
    + destruct (qltb (o_gen_drill o x) bd).
      * eapply IH; [|exact E]. apply qleb_true. exact T.
      * eapply IH; [|exact E]. exact H.
    + eapply IH; [|exact E]. exact H.
Qed.

Lemma sweep_targets_S n cur ch : sweep_targets (S n) cur ch = cur :: sweep_targets n (cur + ch) ch.
Proof. reflexivity. Qed.
Lemma sweep_pick_cons_none o x rest : sweep_pick o (x :: rest) None = sweep_pick o rest (Some (x, o_gen_drill o x)).
Proof. reflexivity. Qed.
Opaque sweep_targets.

(* ---------------- the removal bisection: whatever it selects meets the limits (given that its starting selection does) *)
Definition probe_ok (o : oracles) (p : probe) : Prop :=
  match p with PGen s => o_gen_excess o s <= 0 | PSingle => o_single o <= 0 | PSub k _ => o_sub o k <= 0 end.

Lemma removal_bisect_ok fuel o : forall nstart nmax nmin sel tr sel' tr',
  (forall p, sel = Some p -> probe_ok o p) ->
  removal_bisect fuel o nstart nmax nmin sel tr = (sel', tr') -> forall p, sel' = Some p -> probe_ok o p.
Proof.
  induction fuel as [|f IH]; intros nstart nmax nmin sel tr sel' tr' H E; cbn [removal_bisect] in E.
  - inversion E; subst. exact H.
  - destruct (qleb (o_sub o ((nmax + nmin) / 2)) 0) eqn:T.
    + assert (H' : forall p, Some (PSub ((nmax + nmin) / 2) (nstart - (nmax + nmin) / 2)) = Some p -> probe_ok o p).
      { intros p Hp. inversion Hp; subst. cbn. apply qleb_true. exact T. }
      destruct (Nat.leb _ _) in E.
      * inversion E; subst. exact H'.
      * eapply IH; [exact H'|exact E].
    + destruct (Nat.leb _ _) in E.
      * inversion E; subst. exact H.
      * eapply IH; [exact H|exact E].
Qed.

Lemma removal_bisect_some fuel o : forall nstart nmax nmin sel tr sel' tr',
  sel <> None -> removal_bisect fuel o nstart nmax nmin sel tr = (sel', tr') -> sel' <> None.
Proof.
  induction fuel as [|f IH]; intros nstart nmax nmin sel tr sel' tr' H E; cbn [removal_bisect] in E.
  - inversion E; subst. exact H.
  - destruct (qleb _ 0).
    + destruct (Nat.leb _ _) in E; [inversion E; subst; congruence|]. eapply IH; [|exact E]. congruence.
    + destruct (Nat.leb _ _) in E; [inversion E; subst; exact H|]. eapply IH; [exact H|exact E].
Qed.

(* ---------------- the search as a whole (the code after the fix commits) *)
Section Whole.
Variables (o : oracles) (st sp stp : Q) (cont : bool) (it : nat).

Theorem rw_only_value_error x : rw_search true o st sp stp cont it = Err x -> x = ValueError.
Proof.
  unfold rw_search. intros E.
  destruct (qltb 0 (o_gen_excess o st) && qltb 0 (o_gen_excess o sp)).
  { destruct cont; [discriminate|]. inversion E. reflexivity. }
  destruct (qltb (o_gen_excess o st) 0 && qltb 0 (o_gen_excess o sp)).
  { destruct (spacing_bisect _ _ _ _ _ _ _ _ _) as [[sh spec] tr].
    rewrite sweep_targets_S, sweep_pick_cons_none in E.
    match type of E with context [sweep_pick o ?l (Some ?b)] => pose proof (sweep_pick_some o l (Some b)) as N; destruct (sweep_pick o l (Some b)) as [[s d]|] end.
    - discriminate.
    - exfalso. apply N; [discriminate|reflexivity]. }
  destruct (qltb (o_gen_excess o sp) 0 && qltb (o_gen_excess o st) 0).
  { destruct (qleb (o_single o) 0); [discriminate|].
    destruct (removal_bisect _ _ _ _ _ _ _) as [sel tr] eqn:R.
    assert (N : sel <> None) by (eapply removal_bisect_some; [|exact R]; discriminate).
    destruct sel; [discriminate|congruence]. }
  inversion E. reflexivity.
Qed.

Theorem rw_selected_feasible r : rw_search true o st sp stp cont it = Ok r -> rw_escaped r = false -> probe_ok o (rw_sel r).
Proof.
  unfold rw_search. intros E Hesc.
  destruct (qltb 0 (o_gen_excess o st) && qltb 0 (o_gen_excess o sp)).
  { destruct cont; [|discriminate]. inversion E; subst. cbn in Hesc. discriminate. }
  destruct (qltb (o_gen_excess o st) 0 && qltb 0 (o_gen_excess o sp)) eqn:B2.
  { apply andb_true_iff in B2. destruct B2 as [U _]. apply qltb_true in U.
    destruct (spacing_bisect _ _ _ _ _ _ _ _ _) as [[sh spec] tr] eqn:SB.
    assert (F : o_gen_excess o sh <= 0) by (eapply spacing_bisect_feasible; [|exact SB]; lra).
    rewrite sweep_targets_S, sweep_pick_cons_none in E.
    match type of E with context [sweep_pick o ?l (Some (?a, ?b))] => destruct (sweep_pick o l (Some (a, b))) as [[s d]|] eqn:P; [|discriminate];
      pose proof (sweep_pick_feasible o l a b s d F P) as G end.
    inversion E; subst. cbn. exact G. }
  destruct (qltb (o_gen_excess o sp) 0 && qltb (o_gen_excess o st) 0) eqn:B3; [|discriminate].
  apply andb_true_iff in B3. destruct B3 as [L _]. apply qltb_true in L.
  destruct (qleb (o_single o) 0) eqn:S1.
  { inversion E; subst. cbn. apply qleb_true. exact S1. }
  destruct (removal_bisect _ _ _ _ _ _ _) as [sel tr] eqn:R.
  assert (H0 : forall p, Some (PGen sp) = Some p -> probe_ok o p) by (intros p Hp; inversion Hp; subst; cbn; lra).
  pose proof (removal_bisect_ok _ _ _ _ _ _ _ _ _ H0 R) as G.
  destruct sel as [p|]; [|discriminate]. inversion E; subst. cbn. apply G. reflexivity.
Qed.

Theorem rw_specifier_names_selection r : rw_search true o st sp stp cont it = Ok r -> rw_spec r = Some (rw_sel r).
Proof.
  unfold rw_search. intros E.
  destruct (qltb 0 (o_gen_excess o st) && qltb 0 (o_gen_excess o sp)).
  { destruct cont; [|discriminate]. inversion E; subst. reflexivity. }
  destruct (qltb (o_gen_excess o st) 0 && qltb 0 (o_gen_excess o sp)).
  { destruct (spacing_bisect _ _ _ _ _ _ _ _ _) as [[sh spec] tr].
    destruct (sweep_pick _ _ _) as [[s d]|]; [|discriminate]. inversion E; subst. reflexivity. }
  destruct (qltb (o_gen_excess o sp) 0 && qltb (o_gen_excess o st) 0); [|discriminate].
  destruct (qleb (o_single o) 0); [inversion E; subst; reflexivity|].
  destruct (removal_bisect _ _ _ _ _ _ _) as [[p|] tr]; [|discriminate]. inversion E; subst. reflexivity.
Qed.

Theorem rw_escape_only_when_unmet r : rw_search true o st sp stp cont it = Ok r -> rw_escaped r = true ->
  cont = true /\ 0 < o_gen_excess o st /\ 0 < o_gen_excess o sp /\ rw_sel r = PGen st.
Proof.
  unfold rw_search. intros E Hesc.
  destruct (qltb 0 (o_gen_excess o st) && qltb 0 (o_gen_excess o sp)) eqn:B1.
  { apply andb_true_iff in B1. destruct B1 as [A B]. apply qltb_true in A. apply qltb_true in B.
    destruct cont; [|discriminate]. inversion E; subst. repeat split; assumption. }
  destruct (qltb (o_gen_excess o st) 0 && qltb 0 (o_gen_excess o sp)).
  { destruct (spacing_bisect _ _ _ _ _ _ _ _ _) as [[sh spec] tr].
    destruct (sweep_pick _ _ _) as [[s d]|]; [|discriminate]. inversion E; subst. cbn in Hesc. discriminate. }
  destruct (qltb (o_gen_excess o sp) 0 && qltb (o_gen_excess o st) 0); [|discriminate].
  destruct (qleb (o_single o) 0); [inversion E; subst; cbn in Hesc; discriminate|].
  destruct (removal_bisect _ _ _ _ _ _ _) as [[p|] tr]; [|discriminate]. inversion E; subst. cbn in Hesc. discriminate.
Qed.

Theorem rw_unmet_is_error : 0 < o_gen_excess o st -> 0 < o_gen_excess o sp -> cont = false -> rw_search true o st sp stp cont it = Err ValueError.
Proof.
  intros A B C. unfold rw_search.
  assert (E1 : qltb 0 (o_gen_excess o st) = true) by (unfold qltb; apply negb_true_iff; destruct (Qle_bool (o_gen_excess o st) 0) eqn:Q; [apply Qle_bool_iff in Q; lra|reflexivity]).
  assert (E2 : qltb 0 (o_gen_excess o sp) = true) by (unfold qltb; apply negb_true_iff; destruct (Qle_bool (o_gen_excess o sp) 0) eqn:Q; [apply Qle_bool_iff in Q; lra|reflexivity]).
  rewrite E1, E2, C. reflexivity.
Qed.
End Whole.

(* ---------------- the code before the fix commits violates both clauses: witnesses by computation *)
Definition o_old1 : oracles := {| o_gen_excess := fun s => if qeqb s 5 then -9 else -3; o_gen_count := fun _ => 2%nat; o_gen_drill := fun _ => 100;
                                  o_single := 8; o_sub := fun k => 8 |}.
Lemma rw_old_none_selected : rw_search false o_old1 5 10 1 false 10 = Err TypeError.
Proof. vm_compute. reflexivity. Qed.

Definition o_old2 : oracles := {| o_gen_excess := fun s => if qleb s (23 # 4) then -1 else 3; o_gen_count := fun _ => 6%nat; o_gen_drill := fun s => 100 + s;
                                  o_single := 8; o_sub := fun k => 8 |}.
Lemma rw_old_no_specifier : exists r, rw_search false o_old2 5 10 (5 # 4) false 3 = Ok r /\ rw_spec r = None.
Proof. eexists. split; [vm_compute; reflexivity|reflexivity]. Qed.
