(* Proof/FlowP.v — C20: per-borehole and system flow specifications are equivalent (on the functions regenerated from
   search_routines.retrieve_flow and the two flow lines of BaseGHE.__init__) *)
From Coq Require Import ZArith QArith List Bool Lia Lqa.
From GHE Require Import Base.QUtil gen.Src.
Import ListNotations.
Open Scope Q_scope.

(* per-borehole mass flow that the GHE object ends up with, given the search's flow type and value *)
Definition ghe_mass_flow (coords : list (Q * Q)) (rho : Q) (ft : FlowConfigType) (v : Q) : result Q :=
  match retrieve_flow coords rho ft v with
  | Ok (v_sys, _) => Ok (ghe_m_flow_borehole (ghe_v_flow_borehole v_sys (qlen coords)) rho)
  | Err e => Err e
  end.
Definition search_mass_flow (coords : list (Q * Q)) (rho : Q) (ft : FlowConfigType) (v : Q) : result Q :=
  match retrieve_flow coords rho ft v with Ok (_, m) => Ok m | Err e => Err e end.

Definition req (a b : result Q) : Prop := match a, b with Ok x, Ok y => x == y | _, _ => False end.

Lemma nz_len (coords : list (Q * Q)) : coords <> [] -> ~ qlen coords == 0.
Proof.
  intros H. unfold qlen, natQ. destruct coords as [|c t]; [congruence|]. cbn [length].
  intro E. assert (X : inject_Z 0 < inject_Z (Z.of_nat (S (length t)))) by (rewrite <- Zlt_Qlt; lia).
  change (inject_Z 0) with 0 in X. lra.
Qed.

(* specifying v per borehole or N v for the system gives the same per-borehole mass flow, in the search and in the GHE *)
Theorem flow_system_equiv coords rho v : coords <> [] ->
  req (search_mass_flow coords rho FlowConfigType_BOREHOLE v)
      (search_mass_flow coords rho FlowConfigType_SYSTEM (v * qlen coords)) /\
  req (ghe_mass_flow coords rho FlowConfigType_BOREHOLE v)
      (ghe_mass_flow coords rho FlowConfigType_SYSTEM (v * qlen coords)).
Proof.
  intros H. pose proof (nz_len coords H) as N.
  unfold search_mass_flow, ghe_mass_flow, retrieve_flow, ghe_m_flow_borehole, ghe_v_flow_borehole, req.
  cbn [FlowConfigType_eqb]. cbv beta iota zeta. qnorm. split; field; exact N.
Qed.

(* the mass flow the search computes is the one the GHE object recomputes from the system flow *)
Theorem flow_search_matches_ghe coords rho ft v : coords <> [] ->
  req (search_mass_flow coords rho ft v) (ghe_mass_flow coords rho ft v).
Proof.
  intros H. pose proof (nz_len coords H) as N.
  unfold search_mass_flow, ghe_mass_flow, retrieve_flow, ghe_m_flow_borehole, ghe_v_flow_borehole, req.
  destruct ft; cbn [FlowConfigType_eqb]; cbv beta iota zeta; qnorm; field; exact N.
Qed.

(* per-borehole mass flow = volumetric flow in L/s times density / 1000 *)
Theorem mass_flow_formula coords rho v : search_mass_flow coords rho FlowConfigType_BOREHOLE v = Ok (qmul (qdiv v 1000) rho) /\
  (qmul (qdiv v 1000) rho == v * rho / 1000).
Proof. split; [reflexivity|]. qnorm. field. Qed.

(* with a system flow the per-borehole flow decreases as 1/N along the candidate list *)
Theorem system_flow_inverse_n coords rho v : coords <> [] ->
  req (search_mass_flow coords rho FlowConfigType_SYSTEM v) (Ok (v * rho / 1000 / qlen coords)).
Proof.
  intros H. pose proof (nz_len coords H) as N. unfold search_mass_flow, retrieve_flow, req. cbn [FlowConfigType_eqb]. cbv beta iota zeta. qnorm. field. exact N.
Qed.

Theorem system_flow_decreases (c1 c2 : list (Q * Q)) rho v : c1 <> [] -> (length c1 < length c2)%nat -> 0 < v -> 0 < rho ->
  match search_mass_flow c1 rho FlowConfigType_SYSTEM v, search_mass_flow c2 rho FlowConfigType_SYSTEM v with
  | Ok m1, Ok m2 => m2 < m1 | _, _ => False end.
Proof.
  intros H1 Hl Hv Hr. assert (H2 : c2 <> []) by (destruct c2; [cbn in Hl; lia | discriminate]).
  pose proof (system_flow_inverse_n c1 rho v H1) as A. pose proof (system_flow_inverse_n c2 rho v H2) as B.
  unfold req in *. destruct (search_mass_flow c1 rho FlowConfigType_SYSTEM v) as [m1|]; [|contradiction].
  destruct (search_mass_flow c2 rho FlowConfigType_SYSTEM v) as [m2|]; [|contradiction].
  rewrite A, B.
  assert (L1 : 0 < qlen c1). { unfold qlen, natQ. change 0 with (inject_Z 0). rewrite <- Zlt_Qlt. destruct c1; [congruence | cbn; lia]. }
  assert (L12 : qlen c1 < qlen c2). { unfold qlen, natQ. rewrite <- Zlt_Qlt. lia. }
  assert (P : 0 < v * rho / 1000) by (apply Qlt_shift_div_l; nra).
  set (a := v * rho / 1000) in *.
  apply Qlt_shift_div_l; [lra|].
  assert (E : a / qlen c2 * qlen c1 == a * (qlen c1 / qlen c2)) by (field; lra). rewrite E.
  assert (qlen c1 / qlen c2 < 1) by (apply Qlt_shift_div_r; lra). nra.
Qed.
