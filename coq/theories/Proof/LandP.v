(* Proof/LandP.v — the whole of domains.polygonal_land_constraint as modelled in Model/Polygon.land_constraint (grid over the bounding
   rectangle from the regenerated bi_rectangle_nested, cut-out of the property, cut-out of the no-go zones, empty fields dropped,
   stable re-ordering by size), for ANY point classifier: what every candidate field contains, what it may not lose, and its order. *)
From Coq Require Import ZArith QArith List Bool Lia Sorting.Permutation Sorting.Sorted.
From GHE Require Import Base.QUtil gen.Src Model.Polygon Proof.PolygonP.
Import ListNotations.

Section Land.
Variable cls : list pt -> pt -> Z.
Variables (outlines nogo : list (list pt)) (kc0 kc1 : bool).

(* inside some outline, or on the contour of one when the property's contour is kept *)
Definition on_property (c : pt) : Prop :=
  (exists b, In b outlines /\ cls b c = 1%Z) \/ (kc0 = true /\ exists b, In b outlines /\ cls b c = 0%Z).
(* inside no no-go zone, and on the contour of none unless contours of no-go zones are kept *)
Definition off_nogo (c : pt) : Prop :=
  (forall b, In b nogo -> cls b c <> 1%Z) /\ (kc1 = false -> forall b, In b nogo -> cls b c <> 0%Z).

Definition cut1 (f : list pt) : list pt :=
  let f1 := remove_cutout cls f outlines false kc0 in
  match f1, nogo with
  | [], _ => []
  | _, [] => f1
  | _, _ => remove_cutout cls f1 nogo true kc1
  end.

Lemma in_cut1 f c : In c (cut1 f) <-> In c f /\ on_property c /\ off_nogo c.
Proof.
  unfold cut1, on_property, off_nogo.
  pose proof (cutout_keep_inside_spec cls f outlines kc0 c) as K.
  destruct (remove_cutout cls f outlines false kc0) as [|p f1] eqn:E.
  - split; [intros []|]. intros (Hf & Hp & _). apply K. split; assumption.
  - destruct nogo as [|z zs] eqn:En.
    + split.
      * intros H. apply K in H. destruct H as [Hf Hp]. repeat split; auto; intros; contradiction.
      * intros (Hf & Hp & _). apply K. split; assumption.
    + rewrite cutout_remove_inside_spec. rewrite K. tauto.
Qed.

(* ---- the stable re-ordering by size ---- *)
Definition le_len (a b : list pt) : Prop := (length a <= length b)%nat.

Lemma insert_perm (x : list pt) l : Permutation (insert_by_len x l) (x :: l).
Proof.
  induction l as [|h t IH]; cbn [insert_by_len]; [apply Permutation_refl|].
  destruct (Nat.ltb (length h) (length x)); [|apply Permutation_refl].
  eapply perm_trans; [apply perm_skip; exact IH | apply perm_swap].
Qed.

Lemma reorder_perm (l : list (list pt)) : Permutation (reorder l) l.
Proof.
  induction l as [|x l IH]; [apply Permutation_refl|]. unfold reorder in *. cbn [fold_right].
  eapply perm_trans; [apply insert_perm | apply perm_skip; exact IH].
Qed.

Lemma insert_hd (x : list pt) l a : le_len a x -> HdRel le_len a l -> HdRel le_len a (insert_by_len x l).
Proof.
  intros Hax H. destruct l as [|h t]; cbn [insert_by_len]; [constructor; exact Hax|].
  inversion H; subst. destruct (Nat.ltb (length h) (length x)); constructor; assumption.
Qed.

Lemma insert_sorted (x : list pt) l : Sorted le_len l -> Sorted le_len (insert_by_len x l).
Proof.
  induction l as [|h t IH]; intros S; cbn [insert_by_len]; [repeat constructor|].
  inversion S as [|? ? St Hh]; subst.
  destruct (Nat.ltb (length h) (length x)) eqn:E.
  - constructor; [apply IH; exact St|]. apply insert_hd; [|exact Hh]. apply Nat.ltb_lt in E. unfold le_len. lia.
  - constructor; [exact S|]. constructor. apply Nat.ltb_ge in E. exact E.
Qed.

Lemma reorder_sorted (l : list (list pt)) : Sorted le_len (reorder l).
Proof.
  induction l as [|x l IH]; unfold reorder in *; cbn [fold_right]; [constructor | apply insert_sorted; exact IH].
Qed.

Lemma sorted_counts_nondecreasing (l : list (list pt)) : Sorted le_len l ->
  forall i j, (i <= j < length l)%nat -> (length (nth i l []) <= length (nth j l []))%nat.
Proof.
  intros S. apply Sorted_StronglySorted in S; [|intros a b c; unfold le_len; lia].
  induction S as [|a l S IH F]; intros i j Hij; [cbn in Hij; lia|].
  destruct i as [|i], j as [|j]; cbn [nth]; try lia.
  - rewrite Forall_forall in F. apply F. apply nth_In. cbn in Hij. lia.
  - apply IH. cbn in Hij. lia.
Qed.

(* ---- the candidate lists ---- *)
Variables (bmin bx by_ : Q).
Definition grids : list (list (list pt)) :=
  let pts := concat outlines in
  bi_rectangle_nested (qmax_list (map fst pts)) (qmax_list (map snd pts)) bmin bx by_ false.
Definition one_list (dom : list (list pt)) : list (list pt) :=
  reorder (filter (fun f => negb (Nat.eqb (length f) 0)) (map cut1 dom)).

Lemma land_is_map : land_constraint cls bmin bx by_ outlines nogo kc0 kc1 = map one_list grids.
Proof. reflexivity. Qed.

Lemma in_one_list dom f : In f (one_list dom) <-> (exists g, In g dom /\ f = cut1 g) /\ f <> [].
Proof.
  unfold one_list. split.
  - intros H. apply (Permutation_in _ (reorder_perm _)) in H. apply filter_In in H. destruct H as [H N].
    apply in_map_iff in H. destruct H as (g & E & Hg). split; [exists g; auto|].
    intros ->. discriminate.
  - intros [(g & Hg & ->) N]. apply (Permutation_in _ (Permutation_sym (reorder_perm _))). apply filter_In. split.
    + apply in_map_iff. exists g. auto.
    + destruct (cut1 g); [contradiction|reflexivity].
Qed.

(* every borehole of every candidate field is a grid point on the property and off the no-go zones *)
Theorem land_every_borehole_placed :
  forall dom f c, In dom (land_constraint cls bmin bx by_ outlines nogo kc0 kc1) -> In f dom -> In c f ->
  on_property c /\ off_nogo c /\ exists gd g, In gd grids /\ In g gd /\ In c g.
Proof.
  intros dom f c Hd Hf Hc. rewrite land_is_map in Hd. apply in_map_iff in Hd. destruct Hd as (gd & <- & Hgd).
  apply in_one_list in Hf. destruct Hf as [(g & Hg & ->) _]. apply in_cut1 in Hc. destruct Hc as (Hc & P & N).
  repeat split; try apply P; try apply N. exists gd, g. auto.
Qed.

(* conversely: a grid borehole on the property and off the no-go zones is in a candidate field of the list made from its grid list,
   and that field is a sub-field of its grid field *)
Theorem land_no_placeable_borehole_dropped :
  forall gd g c, In gd grids -> In g gd -> In c g -> on_property c -> off_nogo c ->
  exists dom f, In dom (land_constraint cls bmin bx by_ outlines nogo kc0 kc1) /\ In f dom /\ In c f /\ incl f g.
Proof.
  intros gd g c Hgd Hg Hc P N. exists (one_list gd), (cut1 g). rewrite land_is_map. repeat split.
  - apply in_map. exact Hgd.
  - apply in_one_list. split; [exists g; auto|]. intros E.
    assert (X : In c (cut1 g)) by (apply in_cut1; auto). rewrite E in X. contradiction.
  - apply in_cut1. auto.
  - intros x Hx. apply in_cut1 in Hx. tauto.
Qed.

(* each candidate list is ordered by non-decreasing borehole count and holds no empty field *)
Theorem land_lists_ordered :
  forall dom, In dom (land_constraint cls bmin bx by_ outlines nogo kc0 kc1) ->
  Sorted le_len dom /\ (forall f, In f dom -> f <> []) /\
  forall i j, (i <= j < length dom)%nat -> (length (nth i dom []) <= length (nth j dom []))%nat.
Proof.
  intros dom Hd. rewrite land_is_map in Hd. apply in_map_iff in Hd. destruct Hd as (gd & <- & _).
  assert (S : Sorted le_len (one_list gd)) by apply reorder_sorted.
  split; [exact S|]. split; [|apply sorted_counts_nondecreasing; exact S].
  intros f Hf. apply in_one_list in Hf. tauto.
Qed.
End Land.
