From Coq Require Import ZArith String List Bool.
From GHE Require Import Base.QUtil gen.Src Model.InputIO.
Import ListNotations.

(* complete finite domain: all 6 x 4 x 2 x 2 x 2 = 192 configuration shapes *)
Lemma all_shapes_complete s : In s all_shapes.
Proof. destruct s as [g p mb c pr]. destruct g, p, mb, c, pr; vm_compute; tauto. Qed.

Lemma all_shapes_valid_true : forallb shape_valid all_shapes = true.
Proof. vm_compute. reflexivity. Qed.
Lemma all_shapes_loadable_true : forallb shape_loadable all_shapes = true.
Proof. vm_compute. reflexivity. Qed.

Theorem write_keys_valid s : shape_valid s = true.
Proof. pose proof all_shapes_valid_true as H. rewrite forallb_forall in H. apply H. apply all_shapes_complete. Qed.
Theorem write_keys_loadable s : shape_loadable s = true.
Proof. pose proof all_shapes_loadable_true as H. rewrite forallb_forall in H. apply H. apply all_shapes_complete. Qed.

Lemma mem_In x l : mem x l = true <-> In x l.
Proof.
  unfold mem. rewrite existsb_exists. split.
  - intros (y & Hy & E). apply String.eqb_eq in E. subst. exact Hy.
  - intros H. exists x. split; [exact H | apply String.eqb_refl].
Qed.
Lemma subset_spec a b : subset a b = true <-> (forall x, In x a -> In x b).
Proof.
  unfold subset. rewrite forallb_forall. split; intros H x Hx; [apply mem_In; apply H; exact Hx | apply mem_In; apply H; exact Hx].
Qed.

(* ---------- the fluid's name: user string -> FluidType member stored -> name written back -> what the loader hands to set_fluid ----------
   (lists regenerated from media.GHEFluid.__init__ / to_input and GHEManager.set_fluid on every run) *)
Definition assoc (k : string) (l : list (string * string)) : option string :=
  match find (fun p => String.eqb (fst p) k) l with Some p => Some (snd p) | None => None end.
Fixpoint nodup_str (l : list string) : bool :=
  match l with [] => true | x :: t => negb (existsb (String.eqb x) t) && nodup_str t end.

(* every member of FluidType is recognised by its own name and stored as itself: writing the stored member's name gives back the name read *)
Lemma fluid_name_round_trip : forall n, In n FluidType_names -> assoc n fluid_name_chain = Some n.
Proof.
  intros n H. cbv [FluidType_names] in H. cbn [In] in H.
  repeat (destruct H as [H|H]; [subst n; reflexivity|]). contradiction.
Qed.

(* ... nothing else is recognised, every member has property tables of its own (distinct mixture codes), the name is what is written,
   and the setter hands the three values on unchanged *)
Lemma fluid_tables :
  map fst fluid_name_chain = FluidType_names /\ map fst fluid_mixture_codes = FluidType_names /\
  nodup_str (map snd fluid_mixture_codes) = true /\
  assoc "fluid_name" fluid_written_values = Some "self.fluid_type.name"%string /\
  assoc "concentration_percent" fluid_written_values = Some "self.concentration_percent"%string /\
  assoc "temperature" fluid_written_values = Some "self.temperature"%string /\
  fluid_super_init_args = ["pos:fluid_map[fluid_str]"; "pos:percent"; "pos:temperature"]%string /\
  wiring_set_fluid = ["fluid_str=fluid_name"; "percent=concentration_percent"; "temperature=temperature"]%string.
Proof. repeat split; reflexivity. Qed.
