From Coq Require Import ZArith String List Bool.
From GHE Require Import Base.QUtil gen.Src Model.InputIO.
Import ListNotations.

(* complete finite domain: all 6 x 4 x 2 x 2 x 2 = 192 configuration shapes *)
Lemma all_shapes_complete s : In s all_shapes.
Proof. destruct s as [g p mb c pr]. destruct g, p, mb, c, pr; vm_compute; tauto. Qed.

Lemma all_shapes_valid_true : forallb shape_valid all_shapes = true.
Proof. vm_compute. reflexivity. Qed.
Lemma all_shapes_loadable_true : forallb shape_loadable all_shapes = true.
Proof. vm_compute. reflexivity. Qed.

Theorem write_keys_valid s : shape_valid s = true.
Proof. pose proof all_shapes_valid_true as H. rewrite forallb_forall in H. apply H. apply all_shapes_complete. Qed.
Theorem write_keys_loadable s : shape_loadable s = true.
Proof. pose proof all_shapes_loadable_true as H. rewrite forallb_forall in H. apply H. apply all_shapes_complete. Qed.

Lemma mem_In x l : mem x l = true <-> In x l.
Proof.
  unfold mem. rewrite existsb_exists. split.
  - intros (y & Hy & E). apply String.eqb_eq in E. subst. exact Hy.
  - intros H. exists x. split; [exact H | apply String.eqb_refl].
Qed.
Lemma subset_spec a b : subset a b = true <-> (forall x, In x a -> In x b).
Proof.
  unfold subset. rewrite forallb_forall. split; intros H x Hx; [apply mem_In; apply H; exact Hx | apply mem_In; apply H; exact Hx].
Qed.
