(* Proof/GfPlanP.v — facts about the regenerated decision prefix of g_function_interpolation (Model/GfPlan.v) *)
From Coq Require Import ZArith QArith Qabs String List Bool Lia ZifyBool Lqa.
From GHE Require Import Base.QUtil gen.Src Model.GfPlan.
Import ListNotations.
Open Scope Q_scope.

(* ---------- min / max of a list ---------- *)
Lemma qmax_ge_l a b : a <= qmax a b. Proof. unfold qmax. destruct (qltb_spec a b); lra. Qed.
Lemma qmax_ge_r a b : b <= qmax a b. Proof. unfold qmax. destruct (qltb_spec a b); lra. Qed.
Lemma qmin_le_l a b : qmin a b <= a. Proof. unfold qmin. destruct (qltb_spec b a); lra. Qed.
Lemma qmin_le_r a b : qmin a b <= b. Proof. unfold qmin. destruct (qltb_spec b a); lra. Qed.
Lemma qmax_case a b : qmax a b = a \/ qmax a b = b. Proof. unfold qmax. destruct (qltb a b); auto. Qed.
Lemma qmin_case a b : qmin a b = a \/ qmin a b = b. Proof. unfold qmin. destruct (qltb b a); auto. Qed.

Lemma fold_qmax_ge l : forall a, a <= fold_left qmax l a /\ (forall x, In x l -> x <= fold_left qmax l a).
Proof.
  induction l as [|h t IH]; intros a; cbn [fold_left].
  - split; [lra | intros x []].
  - destruct (IH (qmax a h)) as [A B]. split.
    + pose proof (qmax_ge_l a h). lra.
    + intros x [E|I]; [subst x; pose proof (qmax_ge_r a h); lra | apply B; exact I].
Qed.
Lemma fold_qmin_le l : forall a, fold_left qmin l a <= a /\ (forall x, In x l -> fold_left qmin l a <= x).
Proof.
  induction l as [|h t IH]; intros a; cbn [fold_left].
  - split; [lra | intros x []].
  - destruct (IH (qmin a h)) as [A B]. split.
    + pose proof (qmin_le_l a h). lra.
    + intros x [E|I]; [subst x; pose proof (qmin_le_r a h); lra | apply B; exact I].
Qed.
Lemma fold_qmax_mem l : forall a, In (fold_left qmax l a) (a :: l).
Proof.
  induction l as [|h t IH]; intros a; cbn [fold_left]; [left; reflexivity|].
  destruct (IH (qmax a h)) as [H|H].
  - destruct (qmax_case a h) as [E|E]; rewrite E in H at 1; [left; exact H | right; left; exact H].
  - right; right; exact H.
Qed.
Lemma fold_qmin_mem l : forall a, In (fold_left qmin l a) (a :: l).
Proof.
  induction l as [|h t IH]; intros a; cbn [fold_left]; [left; reflexivity|].
  destruct (IH (qmin a h)) as [H|H].
  - destruct (qmin_case a h) as [E|E]; rewrite E in H at 1; [left; exact H | right; left; exact H].
  - right; right; exact H.
Qed.
Lemma qmaxl_ge l x : In x l -> x <= qmaxl l.
Proof. destruct l as [|h t]; [intros []|]. unfold qmaxl. destruct (fold_qmax_ge t h) as [A B]. intros [E|I]; [subst; exact A | apply B; exact I]. Qed.
Lemma qminl_le l x : In x l -> qminl l <= x.
Proof. destruct l as [|h t]; [intros []|]. unfold qminl. destruct (fold_qmin_le t h) as [A B]. intros [E|I]; [subst; exact A | apply B; exact I]. Qed.
Lemma qmaxl_mem l : l <> [] -> In (qmaxl l) l.
Proof. destruct l as [|h t]; [congruence|]. intros _. apply fold_qmax_mem. Qed.
Lemma qminl_mem l : l <> [] -> In (qminl l) l.
Proof. destruct l as [|h t]; [congruence|]. intros _. apply fold_qmin_mem. Qed.

(* ---------- the snapping and the extrapolation flag ---------- *)
Definition ct : Q := 1 # 1000000.

Lemma snap_fill_stored heights H : In H heights ->
  let r := gf_snap_fill H heights in
  In (fst r) heights /\ Qabs (fst r - H) < ct /\ snd r = false.
Proof.
  intros HI. assert (NE : heights <> []) by (intro E; subst; destruct HI).
  pose proof (qmaxl_ge _ _ HI) as Hmax. pose proof (qminl_le _ _ HI) as Hmin.
  pose proof (qmaxl_mem _ NE) as Mmax. pose proof (qminl_mem _ NE) as Mmin.
  unfold gf_snap_fill. cbv zeta.
  set (mx := qmaxl heights) in *. set (mn := qminl heights) in *.
  assert (Fill : forall h, In h heights -> (qleb mn h && qleb h mx || qltb (qabs (qsub mn h)) (1 # 1000)) = false -> False).
  { intros h Ih E. apply orb_false_iff in E. destruct E as [E _]. apply andb_false_iff in E.
    pose proof (qmaxl_ge _ _ Ih). pose proof (qminl_le _ _ Ih). fold mx in H0. fold mn in H1.
    destruct E as [E|E]; [destruct (qleb_spec mn h) | destruct (qleb_spec h mx)]; try discriminate; lra. }
  destruct (qltb_spec (qabs (qsub H mx)) (1 # 1000000)) as [A|A];
  [ destruct (qltb_spec (qabs (qsub mx mn)) (1 # 1000000)) as [B|B] | destruct (qltb_spec (qabs (qsub H mn)) (1 # 1000000)) as [B|B] ];
  unfold qabs in *; rewrite ?qsub_eq in *.
  - (* snapped to max, then to min *)
    destruct (qleb mn mn && qleb mn mx || qltb (Qabs (qsub mn mn)) (1 # 1000)) eqn:F; cbn [fst snd].
    + split; [exact Mmin|]. split; [|reflexivity]. unfold ct.
      apply Qabs_Qlt_condition. apply Qabs_Qlt_condition in B. lra.
    + exfalso. apply (Fill mn Mmin). exact F.
  - destruct (qleb mn mx && qleb mx mx || qltb (Qabs (qsub mn mx)) (1 # 1000)) eqn:F; cbn [fst snd].
    + split; [exact Mmax|]. split; [|reflexivity]. unfold ct.
      apply Qabs_Qlt_condition. apply Qabs_Qlt_condition in A. lra.
    + exfalso. apply (Fill mx Mmax). exact F.
  - destruct (qleb mn mn && qleb mn mx || qltb (Qabs (qsub mn mn)) (1 # 1000)) eqn:F; cbn [fst snd].
    + split; [exact Mmin|]. split; [|reflexivity]. unfold ct.
      apply Qabs_Qlt_condition. apply Qabs_Qlt_condition in B. lra.
    + exfalso. apply (Fill mn Mmin). exact F.
  - destruct (qleb mn H && qleb H mx || qltb (Qabs (qsub mn H)) (1 # 1000)) eqn:F; cbn [fst snd].
    + split; [exact HI|]. split; [|reflexivity]. unfold ct.
      apply Qabs_Qlt_condition. lra.
    + exfalso. apply (Fill H HI). exact F.
Qed.

(* ---------- the kind tables ---------- *)
Lemma default_chain_pick n :
  chain_pick n gf_default_chain =
  if (5 <=? n)%Z then Some "cubic"%string else if (3 <=? n)%Z then Some "quadratic"%string else if (n =? 2)%Z then Some "linear"%string else None.
Proof. reflexivity. Qed.

Lemma assoc_s_in k l v : assoc_s k l = Some v -> In (k, v) l.
Proof.
  induction l as [|[a w] t IH]; cbn [assoc_s]; [discriminate|].
  destruct (String.eqb_spec a k) as [E|E]; intros H; [inversion H; subst; left; reflexivity | right; apply IH; exact H].
Qed.

Lemma reduce_kind_supported n ex h kind k ex' he :
  reduce_kind n ex h kind = PInterp k ex' he ->
  exists req, kind_needs k = Some req /\ (req <= n)%Z /\ ex' = ex /\ he = h.
Proof.
  unfold reduce_kind. destruct (n <? 2)%Z eqn:N2; [discriminate|]. apply Z.ltb_ge in N2.
  destruct (assoc_s kind gf_interpolation_kinds) as [req|] eqn:A; [|discriminate].
  destruct (req >? n)%Z eqn:R.
  - assert (Hreq : In (kind, req) gf_interpolation_kinds) by (apply assoc_s_in; exact A).
    assert (Rb : (req <= 4)%Z) by (unfold gf_interpolation_kinds in Hreq; cbn [In] in Hreq;
      repeat (destruct Hreq as [Hreq|Hreq]; [inversion Hreq; lia|]); destruct Hreq).
    assert (Hn : n = 2%Z \/ n = 3%Z) by lia.
    destruct Hn as [-> | ->]; cbn; intros H; inversion H; subst; eexists; (split; [reflexivity|]); (split; [lia|]); auto.
  - intros H; inversion H; subst. exists req. unfold kind_needs. split; [exact A|]. split; [lia|]. auto.
Qed.

Lemma reduce_kind_default_total n ex h k : (2 <= n)%Z -> chain_pick n gf_default_chain = Some k ->
  exists k', reduce_kind n ex h k = PInterp k' ex h.
Proof.
  intros N. rewrite default_chain_pick. unfold reduce_kind.
  assert (N2 : (n <? 2)%Z = false) by (apply Z.ltb_ge; lia). rewrite N2.
  destruct (5 <=? n)%Z eqn:E5; [intros H; inversion H; subst k; cbn [assoc_s gf_interpolation_kinds String.eqb Ascii.eqb Bool.eqb]|].
  - assert (R : (4 >? n)%Z = false) by lia. cbn. rewrite R. eexists; reflexivity.
  - destruct (3 <=? n)%Z eqn:E3; [intros H; inversion H; subst k|].
    + assert (R : (3 >? n)%Z = false) by lia. cbn. rewrite R. eexists; reflexivity.
    + destruct (n =? 2)%Z eqn:E2; [intros H; inversion H; subst k | discriminate].
      assert (R : (2 >? n)%Z = false) by lia. cbn. rewrite R. eexists; reflexivity.
Qed.

(* ---------- the three facts used by Props/C11 ---------- *)
Lemma plan_kind_supported heights h kind k ex he :
  gf_plan heights h kind = PInterp k ex he ->
  exists req, kind_needs k = Some req /\ (req <= Z.of_nat (length heights))%Z.
Proof.
  unfold gf_plan. destruct (gf_snap_fill h heights) as [h_eq ex0].
  destruct (String.eqb kind "default").
  - destruct (chain_pick _ gf_default_chain) as [k0|].
    + intros H. apply reduce_kind_supported in H. destruct H as (req & A & B & _). exists req; auto.
    + destruct (gf_single_ok _ _ _); discriminate.
  - intros H. apply reduce_kind_supported in H. destruct H as (req & A & B & _). exists req; auto.
Qed.

Lemma plan_default_no_keyerror heights h : gf_plan heights h "default" <> PKeyError /\
  ((2 <= length heights)%nat -> exists k ex he, gf_plan heights h "default" = PInterp k ex he).
Proof.
  unfold gf_plan. destruct (gf_snap_fill h heights) as [h_eq ex0]. cbn [String.eqb Ascii.eqb Bool.eqb].
  set (n := Z.of_nat (length heights)).
  destruct (chain_pick n gf_default_chain) as [k0|] eqn:C.
  - assert (N : (2 <= n)%Z).
    { rewrite default_chain_pick in C. destruct (5 <=? n)%Z eqn:E5; [lia|]. destruct (3 <=? n)%Z eqn:E3; [lia|]. destruct (n =? 2)%Z eqn:E2; [lia|discriminate]. }
    destruct (reduce_kind_default_total n ex0 h_eq k0 N C) as (k' & E). rewrite E. split; [discriminate|]. intros _. eauto.
  - split; [destruct (gf_single_ok _ _ _); discriminate|]. intros L. exfalso.
    rewrite default_chain_pick in C. subst n. destruct (5 <=? _)%Z eqn:E5; [discriminate|]. destruct (3 <=? _)%Z eqn:E3; [discriminate|].
    destruct (_ =? 2)%Z eqn:E2; [discriminate|]. lia.
Qed.

Lemma plan_at_stored_height heights H : In H heights -> 0 < H ->
  match gf_plan heights H "default" with
  | PSingle he => heights = [H] /\ he = H
  | PInterp k false he => In he heights /\ Qabs (he - H) < ct /\ (2 <= length heights)%nat
  | _ => False
  end.
Proof.
  intros HI HP. pose proof (snap_fill_stored heights H HI) as S. cbv zeta in S.
  unfold gf_plan. destruct (gf_snap_fill H heights) as [h_eq ex0]. cbn [fst snd] in S. destruct S as (S1 & S2 & S3). subst ex0.
  cbn [String.eqb Ascii.eqb Bool.eqb]. set (n := Z.of_nat (length heights)).
  destruct (chain_pick n gf_default_chain) as [k0|] eqn:C.
  - assert (N : (2 <= n)%Z).
    { rewrite default_chain_pick in C. destruct (5 <=? n)%Z eqn:E5; [lia|]. destruct (3 <=? n)%Z eqn:E3; [lia|]. destruct (n =? 2)%Z eqn:E2; [lia|discriminate]. }
    destruct (reduce_kind_default_total n false h_eq k0 N C) as (k' & E). rewrite E. split; [exact S1|]. split; [exact S2|]. subst n. lia.
  - assert (L : length heights = 1%nat).
    { rewrite default_chain_pick in C. subst n. destruct (5 <=? _)%Z eqn:E5; [discriminate|]. destruct (3 <=? _)%Z eqn:E3; [discriminate|].
      destruct (_ =? 2)%Z eqn:E2; [discriminate|]. destruct heights as [|a [|b t]]; [destruct HI | reflexivity | cbn [length] in *; lia]. }
    destruct heights as [|a [|b t]]; try discriminate. destruct HI as [->|[]]. destruct S1 as [<-|[]].
    assert (T : gf_single_ok H [H] gf_tolerance = true).
    { unfold gf_single_ok. apply orb_true_iff. left. destruct (qltb_spec (qdiv (qsub H (nthD [H] (0 # 1))) (nthD [H] (0 # 1))) gf_tolerance) as [|NL]; [reflexivity|].
      exfalso. apply NL. rewrite qdiv_eq, qsub_eq. change (nthD [H] (0 # 1)) with H. unfold gf_tolerance.
      setoid_replace ((H - H) / H) with 0 by (field; lra). reflexivity. }
    rewrite T. split; reflexivity.
Qed.

(* a family with ONE stored height: the ValueError branch of the default chain cannot be reached — the test
   `(h_eq - H)/H < tolerance or min(heights) - h_eq < tolerance` holds for every h_eq (first disjunct below H, second one above) *)
Lemma single_ok_always H he : 0 < H -> gf_single_ok he [H] gf_tolerance = true.
Proof.
  intros HP. unfold gf_single_ok. change (nthD [H] (0 # 1)) with H. change (qminl [H]) with H. unfold gf_tolerance.
  apply orb_true_iff. destruct (Qlt_le_dec he H) as [L|L].
  - left. destruct (qltb_spec (qdiv (qsub he H) H) (1 # 1000)) as [|NL]; [reflexivity|]. exfalso. apply NL. rewrite qdiv_eq, qsub_eq.
    assert (E : (he - H) / H == (he - H) * / H) by reflexivity. rewrite E.
    assert (0 < / H) by (apply Qinv_lt_0_compat; exact HP). nra.
  - right. destruct (qltb_spec (qsub H he) (1 # 1000)) as [|NL]; [reflexivity|]. exfalso. apply NL. rewrite qsub_eq. lra.
Qed.
Lemma single_family_never_raises H h : 0 < H -> exists he, gf_plan [H] h "default" = PSingle he.
Proof.
  intros HP. unfold gf_plan. destruct (gf_snap_fill h [H]) as [h_eq ex0]. cbn [String.eqb Ascii.eqb Bool.eqb].
  change (chain_pick (Z.of_nat (length [H])) gf_default_chain) with (@None string).
  rewrite single_ok_always by exact HP. eauto.
Qed.
