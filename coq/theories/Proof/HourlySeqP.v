(* Proof/HourlySeqP.v — the load sequence of an hourly simulation, on the expressions REGENERATED from GHE.simulate (HOURLY branch):
   for a horizon of m months (m > 12) and a year of 8760 loads, the sequence superposed has exactly 730 m steps and step i carries
   load (i mod 8760) of the year — the year repeated end to end, cut at the end of the horizon. *)
From Coq Require Import ZArith QArith Qround List Bool Lia Lqa.
From GHE Require Import Base.QUtil gen.Src Proof.TwoDayP.
Import ListNotations.
Open Scope Q_scope.

Lemma concat_repeat_S {A} (l : list A) k : concat (repeat l (S k)) = l ++ concat (repeat l k).
Proof. reflexivity. Qed.

Lemma length_concat_repeat {A} (l : list A) k : length (concat (repeat l k)) = (k * length l)%nat.
Proof. induction k as [|k IH]; [reflexivity|]. rewrite concat_repeat_S, app_length, IH. lia. Qed.

Lemma nth_concat_repeat {A} (l : list A) (d : A) : forall k i, (i < k * length l)%nat ->
  nth i (concat (repeat l k)) d = nth (i mod length l) l d.
Proof.
  induction k as [|k IH]; intros i H; [lia|].
  assert (N : length l <> 0%nat) by (intro Z0; rewrite Z0 in H; lia).
  rewrite concat_repeat_S. destruct (Nat.lt_ge_cases i (length l)) as [C|C].
  - rewrite app_nth1 by exact C. rewrite Nat.mod_small by exact C. reflexivity.
  - rewrite app_nth2 by exact C. rewrite IH by lia. f_equal.
    replace i with ((i - length l) + 1 * length l)%nat at 2 by lia. rewrite Nat.mod_add by exact N. reflexivity.
Qed.

Lemma qtrunc_int x z : x == inject_Z z -> qtrunc x = inject_Z z.
Proof.
  intros H. unfold qtrunc, qceil, qfloor. destruct (qltb x 0).
  - f_equal. rewrite (Qceiling_comp _ _ H). apply Qceiling_Z.
  - f_equal. rewrite (Qfloor_comp _ _ H). apply Qfloor_inject_Z.
Qed.

Lemma n_hours_eq (m : nat) : hourly_n_hours (natQ m) = inject_Z (730 * Z.of_nat m).
Proof.
  unfold hourly_n_hours. apply qtrunc_int. qnorm. unfold natQ. rewrite inject_Z_mult. change (inject_Z 730) with 730. field.
Qed.

Theorem hourly_sequence_is_the_year_repeated (year : list Q) (m : nat) :
  Z.of_nat (length year) = 8760%Z -> (1 <= m)%nat ->
  let nh := hourly_n_hours (natQ m) in
  let q := hourly_tile year (hourly_n_years nh) nh in
  Z.of_nat (length q) = (730 * Z.of_nat m)%Z /\
  forall i : nat, (Z.of_nat i < 730 * Z.of_nat m)%Z -> nth i q 0 = nth (Z.to_nat (Z.of_nat i mod 8760)) year 0.
Proof.
  intros HL Hm nh q. subst nh q. rewrite n_hours_eq.
  set (N := (730 * Z.of_nat m)%Z). unfold hourly_tile, hourly_n_years, list_repeat, slice_to, qceil.
  set (k := Qnat (inject_Z (Qceiling (qdiv (inject_Z N) (8760 # 1))))).
  assert (Hk : (N <= Z.of_nat k * 8760)%Z).
  { unfold k, Qnat. rewrite Qfloor_inject_Z.
    pose proof (Qle_ceiling (qdiv (inject_Z N) (8760 # 1))) as C0.
    set (c := Qceiling _) in *.
    assert (C : inject_Z N / (8760 # 1) <= inject_Z c) by (rewrite <- (qdiv_eq (inject_Z N) (8760 # 1)); exact C0).
    assert (C2 : inject_Z N <= inject_Z c * 8760).
    { assert (E : inject_Z N == (inject_Z N / (8760 # 1)) * 8760) by field. rewrite E at 1.
      change (8760 # 1) with 8760 in *. nra. }
    change 8760 with (inject_Z 8760) in C2. rewrite <- inject_Z_mult, <- Zle_Qle in C2.
    assert (0 <= c)%Z by (unfold N in *; lia). rewrite Z2Nat.id by assumption. exact C2. }
  rewrite length_concat_repeat.
  assert (SB : slice_bound (k * length year) (inject_Z N) = Z.to_nat N).
  { apply slice_bound_nat; [unfold natQ; rewrite Z2Nat.id by (unfold N; lia); reflexivity|]. lia. }
  rewrite SB. split.
  - rewrite firstn_length, length_concat_repeat. lia.
  - intros i Hi. rewrite nth_firstn_lt by lia. rewrite nth_concat_repeat by lia. f_equal.
    apply Nat2Z.inj. rewrite Nat2Z.inj_mod, HL. rewrite Z2Nat.id; [reflexivity|]. apply Z.mod_pos_bound. lia.
Qed.
