From Coq Require Import ZArith QArith Qround List Bool Lia Lqa.
From GHE Require Import Base.QUtil Model.RowCore.
Import ListNotations.
Open Scope Q_scope.

Lemma floor_pos_ge1 (a b : Q) : 0 < b -> b <= a -> (1 <= Qfloor (a / b))%Z.
Proof.
  intros Hb Hab. assert (H1 : 1 <= a / b) by (apply Qle_shift_div_l; lra).
  assert (X : (Qfloor 1 <= Qfloor (a / b))%Z) by (apply Qfloor_resp_le; exact H1). exact X.
Qed.

(* rows: with d >= y > 0 there is at least one row gap and the actual row spacing is at least the target and below twice it *)
Theorem row_spacing_ge_target d y : 0 < y -> y <= d -> (1 <= num_rows d y)%Z /\ y <= row_step d y /\ row_step d y < 2 * y.
Proof.
  intros Hy Hd. unfold row_step, num_rows. pose proof (floor_pos_ge1 d y Hy Hd) as N.
  pose proof (Qfloor_le (d / y)) as A. pose proof (Qlt_floor (d / y)) as B.
  rewrite inject_Z_plus in B. change (inject_Z 1) with 1 in B.
  assert (E : d == (d / y) * y) by (field; lra).
  set (q := d / y) in *. set (n := Qfloor q) in *.
  assert (P : 1 <= inject_Z n) by (change 1 with (inject_Z 1); rewrite <- Zle_Qle; exact N).
  split; [exact N|]. split.
  - apply Qle_shift_div_l; [lra|]. rewrite E. nra.
  - apply Qlt_shift_div_r; [lra|]. rewrite E. nra.
Qed.

(* a lot thinner than the spacing across the rows has no row gap at all: the division d / num_rows is by zero (F11) *)
Theorem thin_lot_has_zero_rows d y : 0 <= d -> d < y -> num_rows d y = 0%Z.
Proof.
  intros Hd Hy. unfold num_rows. assert (0 < y) by lra.
  assert (A : 0 <= d / y) by (apply Qle_shift_div_l; lra). assert (B : d / y < 1) by (apply Qlt_shift_div_r; lra).
  assert (L : (0 <= Qfloor (d / y))%Z) by (change 0%Z with (Qfloor 0); apply Qfloor_resp_le; exact A).
  assert (U : (Qfloor (d / y) < 1)%Z).
  { pose proof (Qfloor_le (d / y)) as F. rewrite Zlt_Qlt. change (inject_Z 1) with 1. lra. }
  lia.
Qed.

(* distribute: count, end points, spacing *)
Theorem distribute_count x1 c s dx sp : 0 < sp -> sp <= dx -> length (distribute x1 c s dx sp) = (Z.to_nat (n_cols dx sp) + 1)%nat.
Proof.
  intros Hs Hd. unfold distribute. destruct (qltb_spec dx sp) as [L|L]; [exfalso; lra|].
  rewrite app_length, map_length. unfold rangeZ. rewrite map_length, seq_length. cbn [length]. f_equal. f_equal. lia.
Qed.

Theorem distribute_ends x1 c s dx sp : 0 < sp -> sp <= dx ->
  hd (0, 0) (distribute x1 c s dx sp) = (fst x1 + inject_Z 0 * act_space dx sp * c, snd x1 + inject_Z 0 * act_space dx sp * s) /\
  last (distribute x1 c s dx sp) (0, 0) = (fst x1 + dx * c, snd x1 + dx * s).
Proof.
  intros Hs Hd. unfold distribute. destruct (qltb_spec dx sp) as [L|L]; [exfalso; lra|].
  pose proof (floor_pos_ge1 dx sp Hs Hd) as N. unfold n_cols in *. split.
  - unfold rangeZ. destruct (Z.to_nat (Qfloor (dx / sp) - 0)) eqn:E; [lia|]. cbn [seq map app hd Z.add Z.of_nat]. reflexivity.
  - apply last_last.
Qed.

Theorem distribute_spacing dx sp : 0 < sp -> sp <= dx -> sp <= act_space dx sp /\ inject_Z (n_cols dx sp) * act_space dx sp == dx.
Proof.
  intros Hs Hd. unfold act_space, n_cols. pose proof (floor_pos_ge1 dx sp Hs Hd) as N.
  pose proof (Qfloor_le (dx / sp)) as A.
  assert (E : dx == (dx / sp) * sp) by (field; lra).
  set (q := dx / sp) in *. set (n := Qfloor q) in *.
  assert (P : 1 <= inject_Z n) by (change 1 with (inject_Z 1); rewrite <- Zle_Qle; exact N).
  split; [apply Qle_shift_div_l; [lra|]; rewrite E; nra | field; lra].
Qed.

(* the rectangular lot at rotation 0: exactly (floor(W/s)+1) x (floor(H/s)+1) boreholes *)
Theorem rect_lattice_count x0 y0 W H sp : 0 < sp -> sp <= W -> sp <= H ->
  length (rect_field x0 y0 W H sp) = ((Z.to_nat (Qfloor (W / sp)) + 1) * (Z.to_nat (Qfloor (H / sp)) + 1))%nat.
Proof.
  intros Hs HW HH. unfold rect_field.
  assert (L : forall l : list Z, length (flat_map (fun r => distribute (x0, y0 + inject_Z r * row_step H sp) 1 0 W sp) l)
                                 = (length l * (Z.to_nat (n_cols W sp) + 1))%nat).
  { induction l as [|r t IH]; [reflexivity|]. cbn [flat_map length]. rewrite app_length, IH, distribute_count by assumption. lia. }
  rewrite L. unfold rangeZ. rewrite map_length, seq_length. unfold num_rows, n_cols.
  pose proof (floor_pos_ge1 H sp Hs HH). lia.
Qed.

(* the sweep returns the first rotation that yields the most boreholes *)
Lemma sweep_spec counts : forall idx best,
  let r := sweep counts idx best in
  (fst best <= fst r)%nat /\ (forall c, In c counts -> c <= fst r)%nat /\
  (r = best \/ (exists k, nth_error counts k = Some (fst r) /\ snd r = idx + k /\ fst best < fst r /\
                          forall j, j < k -> nth j counts 0 < fst r))%nat.
Proof.
  induction counts as [|c t IH]; intros idx best; cbn [sweep].
  - split; [lia|]. split; [intros c []|]. left; reflexivity.
  - destruct (Nat.ltb_spec (fst best) c) as [L|L].
    + specialize (IH (S idx) (c, idx)). cbv zeta in IH. destruct IH as (A & B & C). cbn [fst] in *.
      split; [lia|]. split; [intros x [E|Hx]; [subst; exact A | apply B; exact Hx]|].
      right. destruct C as [C|(k & K1 & K2 & K3 & K4)].
      * rewrite C. exists 0%nat. cbn. repeat split; try lia; auto.
      * exists (S k). cbn [nth_error]. repeat split; try lia; auto.
        intros j Hj. destruct j as [|j]; [cbn; lia | cbn [nth]; apply K4; lia].
    + specialize (IH (S idx) best). cbv zeta in IH. destruct IH as (A & B & C).
      split; [exact A|]. split; [intros x [E|Hx]; [subst; lia | apply B; exact Hx]|].
      destruct C as [C|(k & K1 & K2 & K3 & K4)]; [left; exact C|].
      right. exists (S k). cbn [nth_error]. repeat split; try lia; auto.
      intros j Hj. destruct j as [|j]; [cbn; lia | cbn [nth]; apply K4; lia].
Qed.

Theorem sweep_returns_first_max counts : counts <> [] -> (exists c, In c counts /\ 0 < c)%nat ->
  let r := sweep_best counts in
  (forall c, In c counts -> c <= fst r)%nat /\ nth_error counts (snd r) = Some (fst r) /\ (forall j, j < snd r -> nth j counts 0 < fst r)%nat.
Proof.
  intros Hne (c0 & Hin & Hpos) r. subst r. unfold sweep_best.
  destruct (sweep_spec counts 0 (0, 0)%nat) as (A & B & C). cbv zeta in *. cbn [fst snd] in *.
  split; [exact B|].
  destruct C as [C|(k & K1 & K2 & K3 & K4)].
  - exfalso. rewrite C in B. cbn [fst] in B. specialize (B c0 Hin). lia.
  - rewrite K2. cbn [Nat.add]. split; [exact K1 | exact K4].
Qed.

(* a point between two points that satisfy a half-plane constraint satisfies it too: rows between outline intersections
   of a convex lot stay inside the lot *)
Theorem convex_combination_inside (a b c px py qx qy t : Q) : 0 <= t -> t <= 1 ->
  0 <= a * px + b * py + c -> 0 <= a * qx + b * qy + c ->
  0 <= a * (px + t * (qx - px)) + b * (py + t * (qy - py)) + c.
Proof. intros H0 H1 Hp Hq. nra. Qed.
