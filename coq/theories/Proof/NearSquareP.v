(* Proof/NearSquareP.v — the near-square candidate list as regenerated from domains.square_and_near_square: the list is, for i = lower..upper,
   the i x i grid followed by the i x (i+1) grid, and the borehole counts along it never decrease (what the bisection over it relies on). *)
From Coq Require Import ZArith QArith Qreduction Qround List Bool Lia.
From GHE Require Import Base.QUtil gen.Src Proof.DomainsP.
Import ListNotations.
Open Scope Q_scope.

Lemma Qred_inject (z : Z) : Qred (inject_Z z) = inject_Z z.
Proof.
  unfold Qred, inject_Z.
  pose proof (Z.ggcd_gcd z 1) as G. pose proof (Z.ggcd_correct_divisors z 1) as D.
  destruct (Z.ggcd z 1) as [g [aa bb]]. cbn [fst snd] in *. rewrite Z.gcd_1_r in G. subst g.
  destruct D as [Da Db]. rewrite Z.mul_1_l in Da, Db. subst aa bb. reflexivity.
Qed.

Lemma qadd_inject (k j : Z) : qadd (inject_Z k) (inject_Z j) = inject_Z (k + j).
Proof.
  unfold qadd. transitivity (Qred (inject_Z (k + j))).
  - apply Qred_complete. rewrite inject_Z_plus. reflexivity.
  - apply Qred_inject.
Qed.

Definition pair_of (b : Q) (i : Q) : list (list (Q * Q)) :=
  [rectangle i (qadd i (inject_Z 0)) b b ((0 # 1), (0 # 1)); rectangle i (qadd i (inject_Z 1)) b b ((0 # 1), (0 # 1))].

Lemma sns_inner (i b : Q) (c : list (Q * Q)) (d : list (list (Q * Q))) :
  snd (fold_left (fun st_ j =>
         let '(coordinates, coordinates_domain) := st_ in
         let coordinates := (rectangle i (qadd i j) b b ((0 # 1), (0 # 1))) in
         let coordinates_domain := (coordinates_domain ++ [coordinates]) in
         (coordinates, coordinates_domain)) (qrange (0 # 1) (2 # 1)) (c, d)) = d ++ pair_of b i.
Proof.
  change (qrange (0 # 1) (2 # 1)) with [inject_Z 0; inject_Z 1]. cbn [fold_left snd]. unfold pair_of.
  rewrite <- app_assoc. reflexivity.
Qed.

Lemma sns_outer (b : Q) (l : list Q) (c : list (Q * Q)) (d : list (list (Q * Q))) :
  snd (fold_left (fun st_ i =>
         let '(coordinates, coordinates_domain) := st_ in
         let '(coordinates, coordinates_domain) :=
           fold_left (fun st_ j =>
             let '(coordinates, coordinates_domain) := st_ in
             let coordinates := (rectangle i (qadd i j) b b ((0 # 1), (0 # 1))) in
             let coordinates_domain := (coordinates_domain ++ [coordinates]) in
             (coordinates, coordinates_domain)) (qrange (0 # 1) (2 # 1)) (coordinates, coordinates_domain) in
         (coordinates, coordinates_domain)) l (c, d)) = d ++ flat_map (pair_of b) l.
Proof.
  revert c d. induction l as [|i t IH]; intros c d; cbn [fold_left flat_map]; [cbn [snd]; rewrite app_nil_r; reflexivity|].
  pose proof (sns_inner i b c d) as E.
  destruct (fold_left _ (qrange (0 # 1) (2 # 1)) (c, d)) as [c1 d1] eqn:F. cbn [snd] in E. subst d1.
  rewrite IH, <- app_assoc. reflexivity.
Qed.

(* the candidate list: for i = lower .. upper, the i x i grid followed by the i x (i+1) grid *)
Theorem near_square_list (lo hi : Z) (b : Q) : (1 <= lo <= hi)%Z ->
  square_and_near_square (inject_Z lo) (inject_Z hi) b = Ok (flat_map (pair_of b) (qrange (inject_Z lo) (qadd (inject_Z hi) (1 # 1)))).
Proof.
  intros H. unfold square_and_near_square.
  assert (A : qltb (inject_Z lo) (1 # 1) = false).
  { destruct (qltb_spec (inject_Z lo) (1 # 1)) as [X|X]; [|reflexivity]. change (1 # 1) with (inject_Z 1) in X. rewrite <- Zlt_Qlt in X. lia. }
  assert (B : qltb (inject_Z hi) (1 # 1) = false).
  { destruct (qltb_spec (inject_Z hi) (1 # 1)) as [X|X]; [|reflexivity]. change (1 # 1) with (inject_Z 1) in X. rewrite <- Zlt_Qlt in X. lia. }
  assert (C : qltb (inject_Z hi) (inject_Z lo) = false).
  { destruct (qltb_spec (inject_Z hi) (inject_Z lo)) as [X|X]; [|reflexivity]. rewrite <- Zlt_Qlt in X. lia. }
  rewrite A, B, C. cbn [orb].
  pose proof (sns_outer b (qrange (inject_Z lo) (qadd (inject_Z hi) (1 # 1))) dflt []) as E.
  destruct (fold_left _ (qrange (inject_Z lo) (qadd (inject_Z hi) (1 # 1))) (dflt, [])) as [c1 d1] eqn:F.
  cbn [snd] in E. subst d1. reflexivity.
Qed.

(* the two grids of one index hold i*i and i*(i+1) boreholes *)
Lemma pair_counts (b : Q) (i : Z) : (0 <= i)%Z ->
  map (@length (Q * Q)) (pair_of b (inject_Z i)) = [(Z.to_nat i * Z.to_nat i)%nat; (Z.to_nat i * Z.to_nat (i + 1))%nat].
Proof.
  intros H. unfold pair_of. cbn [map]. rewrite !qadd_inject, Z.add_0_r.
  rewrite !rectangle_count by lia. reflexivity.
Qed.

(* counts never decrease along the list: i*i <= i*(i+1) <= (i+1)*(i+1) *)
Fixpoint nondecreasing (l : list nat) : Prop :=
  match l with
  | a :: ((b :: _) as t) => (a <= b)%nat /\ nondecreasing t
  | _ => True
  end.

Lemma counts_of_range (b : Q) (n : nat) (lo : Z) : (0 <= lo)%Z ->
  nondecreasing (map (@length (Q * Q)) (flat_map (pair_of b) (map inject_Z (map (fun k => (lo + Z.of_nat k)%Z) (seq 0 n))))).
Proof.
  revert lo. induction n as [|n IH]; intros lo H; [exact I|].
  cbn [seq map flat_map]. rewrite map_app, pair_counts by lia.
  rewrite <- seq_shift, !map_map.
  specialize (IH (lo + 1)%Z ltac:(lia)).
  replace (map (fun x => inject_Z (lo + Z.of_nat (S x))) (seq 0 n)) with (map inject_Z (map (fun k => (lo + 1 + Z.of_nat k)%Z) (seq 0 n)))
    by (rewrite map_map; apply map_ext; intros k; f_equal; lia).
  destruct n as [|n].
  - cbn. replace (lo + 0)%Z with lo by lia. split; [nia | exact I].
  - cbn [seq map flat_map] in *. rewrite map_app, pair_counts in * by lia.
    replace (lo + Z.of_nat 0)%Z with lo by lia. replace (lo + 1 + Z.of_nat 0)%Z with (lo + 1)%Z in * by lia.
    cbn [app nondecreasing] in *. repeat split; try nia; try tauto.
Qed.

Theorem near_square_counts_nondecreasing (lo hi : Z) (b : Q) : (1 <= lo <= hi)%Z ->
  exists dom, square_and_near_square (inject_Z lo) (inject_Z hi) b = Ok dom /\
              length dom = (2 * Z.to_nat (hi - lo + 1))%nat /\ nondecreasing (map (@length (Q * Q)) dom).
Proof.
  intros H. eexists. split; [apply near_square_list; exact H|].
  change (1 # 1) with (inject_Z 1). rewrite qadd_inject. unfold qrange, rangeZ. rewrite !Qceiling_Z. split.
  - assert (L : forall l, length (flat_map (pair_of b) l) = (2 * length l)%nat).
    { induction l as [|x t IH]; [reflexivity|]. cbn [flat_map]. rewrite app_length, IH. cbn. lia. }
    rewrite L, !map_length, seq_length. f_equal. f_equal. lia.
  - apply counts_of_range. lia.
Qed.
