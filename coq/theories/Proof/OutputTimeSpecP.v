From Coq Require Import ZArith QArith Qround List Bool Lia Lqa.
From GHE Require Import Base.QUtil gen.Src Model.OutputTime.
Import ListNotations.
Open Scope Q_scope.

Lemma year_hours_8760 : year_hours = 8760%Z. Proof. reflexivity. Qed.

(* ------------------------------------------------------------------ *)
(* unbounded theorems about the reference conversion h2m_spec          *)

Definition Fk (k : nat) (r : Q) : Q := natQ k + (r - inject_Z (cal_cum k)) / inject_Z (cal_hours k).
Definition F (r : Q) : Q := Fk (find_month r 0 11) r.

Ltac calc := cbv [Fk natQ cal_cum cal_hours cal_days firstn map fold_left nth Z.of_nat Pos.of_succ_nat Pos.succ
                  inject_Z Z.mul Z.add Pos.mul Pos.add Pos.add_carry] in *;
             unfold Qdiv in *; cbv [Qinv Qnum Qden] in *.

Lemma F_char r : 0 <= r -> r <= 8760 ->
  exists k, (k <= 11)%nat /\ F r = Fk k r /\ inject_Z (cal_cum k) <= r /\ r <= inject_Z (cal_cum (S k)).
Proof.
  intros H0 H1. unfold F. cbn [find_month].
  repeat match goal with |- context [qleb r ?c] => destruct (qleb_spec r c) end;
  eexists; (split; [|split; [reflexivity|]]); try lia; (split; [|assumption || (calc; lra)]); calc; lra.
Qed.

Lemma Fk_lip k1 k2 r1 r2 : (k1 <= 11)%nat -> (k2 <= 11)%nat -> r1 <= r2 ->
  inject_Z (cal_cum k1) <= r1 -> r1 <= inject_Z (cal_cum (S k1)) ->
  inject_Z (cal_cum k2) <= r2 -> r2 <= inject_Z (cal_cum (S k2)) ->
  0 <= Fk k2 r2 - Fk k1 r1 /\ Fk k2 r2 - Fk k1 r1 <= (r2 - r1) / 672.
Proof.
  intros K1 K2 H A1 B1 A2 B2.
  do 12 (destruct k1 as [|k1]; [do 12 (destruct k2 as [|k2]; [calc; split; lra|]); exfalso; lia|]); exfalso; lia.
Qed.

Lemma F_lip r1 r2 : 0 <= r1 -> r1 <= r2 -> r2 <= 8760 ->
  0 <= F r2 - F r1 /\ F r2 - F r1 <= (r2 - r1) / 672.
Proof.
  intros H0 H H1.
  destruct (F_char r1) as (k1 & K1 & E1 & A1 & B1); [lra|lra|].
  destruct (F_char r2) as (k2 & K2 & E2 & A2 & B2); [lra|lra|].
  rewrite E1, E2. apply Fk_lip; assumption.
Qed.

Lemma F_0 : F 0 == 0. Proof. vm_compute. reflexivity. Qed.
Lemma F_8760 : F 8760 == 12. Proof. vm_compute. reflexivity. Qed.

Lemma Fk_at_end k' k r : (k' <= 11)%nat -> (1 <= k <= 12)%nat ->
  inject_Z (cal_cum k') <= r -> r <= inject_Z (cal_cum (S k')) -> r == inject_Z (cal_cum k) ->
  Fk k' r == natQ k.
Proof.
  intros K' K A B E.
  destruct k as [|k]; [exfalso; lia|].
  do 12 (destruct k as [|k]; [do 12 (destruct k' as [|k']; [calc; lra|]); exfalso; lia|]); exfalso; lia.
Qed.

(* decomposition h = 8760 n + r with 0 <= r < 8760 *)
Lemma floor_decomp h : let n := Qfloor (h / 8760) in
  0 <= h - inject_Z n * 8760 /\ h - inject_Z n * 8760 < 8760.
Proof.
  intros n. pose proof (Qfloor_le (h / 8760)) as A. pose proof (Qlt_floor (h / 8760)) as B.
  fold n in A, B. rewrite inject_Z_plus in B. change (inject_Z 1) with 1 in B.
  assert (E : h == (h / 8760) * 8760) by (field).
  split.
  - rewrite E at 1. nra.
  - rewrite E at 1. nra.
Qed.

Lemma h2m_spec_eq h : h2m_spec h == 12 * inject_Z (Qfloor (h / 8760)) + F (h - inject_Z (Qfloor (h / 8760)) * 8760).
Proof.
  unfold h2m_spec, F, Fk. rewrite year_hours_8760. rewrite inject_Z_mult.
  change (inject_Z 8760) with 8760. change (inject_Z 12) with 12. ring.
Qed.

Theorem h2m_spec_lipschitz h1 h2 : h1 <= h2 ->
  0 <= h2m_spec h2 - h2m_spec h1 /\ h2m_spec h2 - h2m_spec h1 <= (h2 - h1) / 672.
Proof.
  intros H. rewrite !h2m_spec_eq.
  pose proof (floor_decomp h1) as [A1 B1]. pose proof (floor_decomp h2) as [A2 B2]. cbv zeta in *.
  set (n1 := Qfloor (h1 / 8760)) in *. set (n2 := Qfloor (h2 / 8760)) in *.
  set (r1 := h1 - inject_Z n1 * 8760) in *. set (r2 := h2 - inject_Z n2 * 8760) in *.
  assert (Hn : (n1 <= n2)%Z).
  { apply Qfloor_resp_le. unfold Qdiv. apply Qmult_le_compat_r; [exact H|]. discriminate. }
  destruct (Z.eq_dec n1 n2) as [En|Nn].
  - assert (R : r1 <= r2) by (subst r1 r2; rewrite En; lra).
    destruct (F_lip r1 r2) as [L1 L2]; [lra|lra|lra|].
    assert (D : r2 - r1 == h2 - h1) by (subst r1 r2; rewrite En; ring).
    rewrite En. split; [lra|]. rewrite <- D. unfold Qdiv in *; cbv [Qinv Qnum Qden] in *. lra.
  - assert (Hs : inject_Z n1 + 1 <= inject_Z n2).
    { change 1 with (inject_Z 1). rewrite <- inject_Z_plus. rewrite <- Zle_Qle. lia. }
    destruct (F_lip 0 r2) as [L1 L2]; [lra|lra|lra|].
    destruct (F_lip r1 8760) as [L3 L4]; [lra|lra|lra|].
    rewrite F_0 in L1, L2. rewrite F_8760 in L3, L4.
    assert (D : h2 - h1 == 8760 * (inject_Z n2 - inject_Z n1 - 1) + (8760 - r1) + r2) by (subst r1 r2; ring).
    rewrite D. unfold Qdiv in *; cbv [Qinv Qnum Qden] in *. split; lra.
Qed.

Corollary h2m_spec_monotone h1 h2 : h1 <= h2 -> h2m_spec h1 <= h2m_spec h2.
Proof. intros H. destruct (h2m_spec_lipschitz h1 h2 H) as [A _]. lra. Qed.

Theorem h2m_spec_month_end (n : Z) (k : nat) : (1 <= k <= 12)%nat ->
  h2m_spec (inject_Z (8760 * n + cal_cum k)) == inject_Z (12 * n + Z.of_nat k).
Proof.
  intros K. rewrite h2m_spec_eq.
  set (h := inject_Z (8760 * n + cal_cum k)).
  pose proof (floor_decomp h) as [A B]. cbv zeta in *.
  set (n' := Qfloor (h / 8760)) in *. set (r := h - inject_Z n' * 8760) in *.
  assert (C : 0 < inject_Z (cal_cum k) /\ inject_Z (cal_cum k) <= 8760).
  { destruct k as [|k]; [exfalso; lia|].
    do 12 (destruct k as [|k]; [calc; split; lra|]). exfalso; lia. }
  assert (Eh : h == 8760 * inject_Z n + inject_Z (cal_cum k)).
  { unfold h. rewrite inject_Z_plus, inject_Z_mult. reflexivity. }
  assert (Hn : (n' = n \/ n' = n + 1)%Z).
  { assert (X : inject_Z n < inject_Z n' + 1 /\ inject_Z n' < inject_Z n + 2) by (subst r; split; lra).
    destruct X as [X1 X2].
    change 1 with (inject_Z 1) in X1. change 2 with (inject_Z 2) in X2.
    rewrite <- inject_Z_plus in X1. rewrite <- inject_Z_plus in X2.
    rewrite <- Zlt_Qlt in X1, X2. lia. }
  rewrite inject_Z_plus, inject_Z_mult. change (inject_Z 12) with 12.
  destruct Hn as [Hn|Hn].
  - assert (Hq : inject_Z n' == inject_Z n) by (rewrite Hn; reflexivity).
    assert (R : r == inject_Z (cal_cum k)) by (subst r; lra).
    destruct (F_char r) as (k' & K' & E' & A' & B'); [lra|lra|].
    rewrite E'. rewrite (Fk_at_end k' k r K' K A' B' R). rewrite Hq. unfold natQ. ring.
  - assert (Hq : inject_Z n' == inject_Z n + 1).
    { rewrite Hn, inject_Z_plus. reflexivity. }
    assert (R : r == 0) by (subst r; lra).
    assert (K12 : inject_Z (cal_cum k) == 8760) by (subst r; lra).
    assert (k = 12%nat).
    { destruct k as [|k]; [exfalso; lia|].
      do 11 (destruct k as [|k]; [exfalso; calc; lra|]). destruct k; [reflexivity|exfalso; lia]. }
    subst k.
    destruct (F_char r) as (k' & K' & E' & A' & B'); [lra|lra|].
    rewrite E'.
    assert (Z0 : Fk k' r == 0).
    { do 12 (destruct k' as [|k']; [calc; lra|]). exfalso; lia. }
    rewrite Z0, Hq. change (inject_Z (Z.of_nat 12)) with 12. ring.
Qed.
