From Coq Require Import ZArith QArith List Bool Lia.
From GHE Require Import Base.QUtil gen.Src Model.ObjState.
Import ListNotations.
Open Scope Q_scope.

Definition fresh (g : ghe) : Prop := exists m, stored g = Some {| r_h := Hcur g; r_m := m; r_axis := m |}.

Lemma do_simulate_fresh g m : fresh (do_simulate g m).
Proof. exists m. reflexivity. Qed.

(* C12: after ANY sequence of operations that ends with a simulation or a sizing, the stored temperatures are those of the
   current height on the method's own time axis *)
Theorem fresh_after g ops o : (match o with SetH _ => False | _ => True end) -> fresh (run g (ops ++ [o])).
Proof.
  intros Ho. unfold run. rewrite fold_left_app. cbn [fold_left]. set (g1 := fold_left step ops g).
  destruct o as [h|m|m evals ret]; [destruct Ho | apply do_simulate_fresh | cbn [step]; apply do_simulate_fresh].
Qed.

Theorem size_returns_requested g m evals ret : Hcur (step g (Size m evals ret)) = ret.
Proof. reflexivity. Qed.

(* C13: what a simulation stores depends only on the current height and the method, not on the history *)
Theorem simulate_history_independent g1 g2 ops1 ops2 m h :
  stored (step (run g1 (ops1 ++ [SetH h])) (Simulate m)) = stored (step (run g2 (ops2 ++ [SetH h])) (Simulate m)).
Proof.
  unfold run. rewrite !fold_left_app. cbn [fold_left step do_simulate Hcur]. reflexivity.
Qed.

(* the unrepaired code: sizing that ends on the lower clamp leaves the temperatures of the LAST objective evaluation (F4),
   and an hourly simulation after a hybrid one runs on the hybrid axis (F5) *)
Lemma old_size_clamped_stale :
  let g0 := {| Hcur := 100; stored := None; times_of := None |} in
  let g := step_old g0 (Size Hybrid [60; 135] 60) in
  Hcur g == 60 /\ stored g = Some {| r_h := 135; r_m := Hybrid; r_axis := Hybrid |}.
Proof. cbn. split; reflexivity. Qed.

Lemma old_hourly_after_hybrid_wrong_axis :
  let g0 := {| Hcur := 100; stored := None; times_of := None |} in
  stored (step_old (step_old g0 (Simulate Hybrid)) (Simulate Hourly)) = Some {| r_h := 100; r_m := Hourly; r_axis := Hybrid |}.
Proof. reflexivity. Qed.

(* summary *)
Theorem summary_counts coords g : s_count (summarise coords g) = length coords /\
  s_drilling (summarise coords g) == s_height (summarise coords g) * natQ (s_count (summarise coords g)).
Proof. split; reflexivity. Qed.

(* ---------- manager: the result depends on the physical inputs only ---------- *)
Definition mrun (c : config) (ops : list mop) : config := fold_left mstep ops c.

Lemma find_design_reads_only c : mstep c FindDesign = c.
Proof. reflexivity. Qed.

(* two setters of different components commute; setting a component twice keeps the last value *)
Lemma setters_commute_example c a b : mstep (mstep c (SetFluid a)) (SetSoil b) = mstep (mstep c (SetSoil b)) (SetFluid a).
Proof. reflexivity. Qed.

Definition is_setter (o : mop) : bool := match o with FindDesign => false | _ => true end.

(* the last value set for each component determines the configuration *)
Theorem nominal_height_irrelevant c h1 h2 x : physical (mstep c (SetBorehole h1 x)) = physical (mstep c (SetBorehole h2 x)).
Proof. reflexivity. Qed.

Theorem repeated_find_design c n : mrun c (repeat FindDesign n) = c.
Proof. induction n as [|n IH]; [reflexivity | cbn [repeat mrun fold_left]; exact IH]. Qed.

(* any interleaving of FindDesign with the setters leaves the final configuration unchanged *)
Theorem find_design_transparent c ops : mrun c (filter is_setter ops) = mrun c ops.
Proof.
  revert c. induction ops as [|o t IH]; intros c; [reflexivity|].
  destruct o; cbn [filter is_setter]; unfold mrun in *; cbn [fold_left]; try apply IH.
Qed.

(* GHE.size (regenerated assignment): the height left on the object is exactly what the root solver returned *)
Lemma stored_height_is_solver_result h : size_stored_height h = h.
Proof. reflexivity. Qed.

(* ---------- the manager with its design object ---------- *)
Lemma grun_cfg m ops : m_cfg (grun m ops) = mrun (m_cfg m) ops.
Proof.
  revert m; induction ops as [|o ops IH]; intros m; [reflexivity|].
  unfold grun, mrun in *. cbn [fold_left]. rewrite IH. f_equal. destruct o; reflexivity.
Qed.

(* setters called after set_design do not reach the design until set_design is called again *)
Theorem late_setters_do_not_reach_the_design m ops :
  forallb (fun o => negb (is_set_design o)) ops = true -> design_inputs (grun m ops) = design_inputs m.
Proof.
  revert m; induction ops as [|o ops IH]; intros m H; [reflexivity|].
  cbn [forallb] in H. apply andb_prop in H. destruct H as [Ho H].
  unfold grun in *. cbn [fold_left]. rewrite (IH _ H). destruct o; try reflexivity. discriminate.
Qed.

(* the design works with the physical inputs as they were at the LAST set_design *)
Theorem design_is_the_last_capture m ops1 x ops2 :
  forallb (fun o => negb (is_set_design o)) ops2 = true ->
  design_inputs (grun m (ops1 ++ SetDesign x :: ops2)) = Some (physical (mrun (m_cfg m) (ops1 ++ [SetDesign x]))).
Proof.
  intros H. unfold grun. rewrite fold_left_app. cbn [fold_left].
  fold (grun (gstep (fold_left gstep ops1 m) (SetDesign x)) ops2).
  rewrite (late_setters_do_not_reach_the_design _ _ H).
  cbn [gstep design_inputs m_captured]. f_equal. f_equal.
  fold (grun m ops1). rewrite grun_cfg. unfold mrun. rewrite fold_left_app. reflexivity.
Qed.

(* two call histories whose physical inputs agree at their last set_design give find_design the same inputs, whatever came before,
   whatever nominal borehole heights were used, and whatever setters were called afterwards *)
Theorem same_inputs_same_design m1 m2 a1 a2 x1 x2 b1 b2 :
  forallb (fun o => negb (is_set_design o)) b1 = true -> forallb (fun o => negb (is_set_design o)) b2 = true ->
  physical (mrun (m_cfg m1) (a1 ++ [SetDesign x1])) = physical (mrun (m_cfg m2) (a2 ++ [SetDesign x2])) ->
  design_inputs (grun m1 (a1 ++ SetDesign x1 :: b1)) = design_inputs (grun m2 (a2 ++ SetDesign x2 :: b2)).
Proof. intros H1 H2 E. rewrite !design_is_the_last_capture by assumption. rewrite E. reflexivity. Qed.

Theorem find_design_leaves_the_manager m : gstep m FindDesign = m.
Proof. reflexivity. Qed.

Example late_setter_example :
  design_inputs (grun new_mgr [SetSim 1; SetLoads 7; SetDesign 3; SetSim 2; FindDesign]) =
  design_inputs (grun new_mgr [SetSim 1; SetLoads 7; SetDesign 3; FindDesign]).
Proof. reflexivity. Qed.
