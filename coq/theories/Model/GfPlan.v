(* Model/GfPlan.v — the decision prefix of GFunction.g_function_interpolation: which equivalent height is used, whether scipy is told to
   extrapolate, which interpolation kind is handed to interp1d (or: the single stored curve is returned / ValueError / KeyError).
   The numeric statements (gf_snap_fill, gf_single_ok) and the three tables are REGENERATED (gen/Src.v); this file only interprets the
   tables the way the surrounding control flow does, and pins that control flow's source text. *)
From Coq Require Import ZArith QArith String List Bool.
From GHE Require Import Base.QUtil gen.Src.
Import ListNotations.
Open Scope Q_scope.

Inductive plan :=
| PSingle (h_eq : Q)                                  (* the one stored curve is returned as it is *)
| PInterp (kind : string) (extrapolate : bool) (h_eq : Q)   (* interp1d / lagrange of this kind, evaluated at h_eq *)
| PValueError
| PKeyError.

(* the control flow this interpreter stands for — any edit of it is a broken obligation *)
Example gf_reduce_source_pinned : gf_reduce_source =
  "if len(height_values) < 2: | raise ValueError(...) | else: | required_curves = interpolation_kinds[kind] | if required_curves > len(height_values): | kind = curves_by_kind[len(height_values)]"%string.
Proof. reflexivity. Qed.
Example gf_single_branch_source_pinned : gf_single_branch_source =
  "g_function = self.g_lts[height_values[0]]; rb = self.r_b_values[height_values[0]]; return (g_function, rb, self.d, h_eq) || raise ValueError(...)"%string.
Proof. reflexivity. Qed.
Example gf_fill_else_source_pinned : gf_fill_else_source = "warnings.warn(...)"%string.
Proof. reflexivity. Qed.

Fixpoint chain_pick (n : Z) (chain : list (string * Z * string)) : option string :=
  match chain with
  | [] => None
  | (op, k, kind) :: t =>
      let hit := if String.eqb op ">=" then (k <=? n)%Z else if String.eqb op "==" then (n =? k)%Z else false in
      if hit then Some kind else chain_pick n t
  end.
Definition chain_ops_known (chain : list (string * Z * string)) : bool :=
  forallb (fun c => let '(op, _, _) := c in String.eqb op ">=" || String.eqb op "==") chain.

Fixpoint assoc_s (k : string) (l : list (string * Z)) : option Z :=
  match l with [] => None | (a, v) :: t => if String.eqb a k then Some v else assoc_s k t end.
Fixpoint assoc_z (k : Z) (l : list (Z * string)) : option string :=
  match l with [] => None | (a, v) :: t => if (a =? k)%Z then Some v else assoc_z k t end.

Definition reduce_kind (n : Z) (ex : bool) (h_eq : Q) (kind : string) : plan :=
  if (n <? 2)%Z then PValueError else
  match assoc_s kind gf_interpolation_kinds with
  | None => PKeyError
  | Some req =>
      if (req >? n)%Z then match assoc_z n gf_curves_by_kind with None => PKeyError | Some k' => PInterp k' ex h_eq end
      else PInterp kind ex h_eq
  end.

Definition gf_plan (heights : list Q) (h_raw : Q) (kind : string) : plan :=
  let '(h_eq, ex) := gf_snap_fill h_raw heights in
  let n := Z.of_nat (length heights) in
  if String.eqb kind "default" then
    match chain_pick n gf_default_chain with
    | Some k => reduce_kind n ex h_eq k
    | None => if gf_single_ok h_eq heights gf_tolerance then PSingle h_eq else PValueError
    end
  else reduce_kind n ex h_eq kind.

(* what interp1d needs: at least `required` knots for the kind *)
Definition kind_needs (kind : string) : option Z := assoc_s kind gf_interpolation_kinds.
