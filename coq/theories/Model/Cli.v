(* Model/Cli.v — decision logic of manager.run_manager_from_cli / _run_manager_from_cli_worker and validate.validate_input_file *)
From Coq Require Import ZArith Ascii String List Bool.
Import ListNotations.

(* verdicts of the nine schema sections (true = valid), as jsonschema reports them after the five names were upper-cased *)
Definition verdicts := list bool.
Definition error_count (v : verdicts) : nat := List.length (filter negb v).
Definition accepted (v : verdicts) : bool := Nat.eqb (error_count v) 0.

Inductive convert_arg := NoConvert | ConvertIDF | ConvertOther.
Inductive worker_outcome := WroteOutputs | Raised.          (* the design run either writes the five files or raises *)

Record args := { validate_only : bool; convert : convert_arg; has_outdir : bool }.
Record outcome := { exit_code : nat; outputs_written : bool }.

(* exit status and whether output files exist, given the verdicts, whether the IDF conversion worked, and what the design run did *)
Definition cli (a : args) (v : verdicts) (idf_ok : bool) (w : worker_outcome) : outcome :=
  if validate_only a then {| exit_code := if accepted v then 0 else 1; outputs_written := false |}
  else match convert a with
       | ConvertIDF => {| exit_code := if idf_ok then 0 else 1; outputs_written := false |}
       | ConvertOther => {| exit_code := 1; outputs_written := false |}
       | NoConvert =>
         if negb (has_outdir a) then {| exit_code := 1; outputs_written := false |}
         else if negb (accepted v) then {| exit_code := 1; outputs_written := false |}
         else match w with
              | WroteOutputs => {| exit_code := 0; outputs_written := true |}
              | Raised => {| exit_code := 1; outputs_written := false |}
              end
       end.

(* ASCII upper-casing of the five case-insensitive names *)
Definition upper_ascii (c : ascii) : ascii :=
  let n := nat_of_ascii c in if (Nat.leb 97 n && Nat.leb n 122)%bool then ascii_of_nat (n - 32) else c.
Fixpoint upper (s : string) : string := match s with EmptyString => EmptyString | String c t => String (upper_ascii c) (upper t) end.
