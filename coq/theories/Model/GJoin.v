(* Model/GJoin.v — reference description of BaseGHE.combine_sts_lts: short-time points strictly below the first long-time
   point, then the long-time points.  The code itself is gen/Src.combine_sts_lts (regenerated). *)
From Coq Require Import ZArith QArith List Bool.
From GHE Require Import Base.QUtil gen.Src.
Import ListNotations.
Open Scope Q_scope.

Fixpoint strictly_increasing (l : list Q) : Prop :=
  match l with a :: ((b :: _) as t) => a < b /\ strictly_increasing t | _ => True end.
Fixpoint strictly_increasingb (l : list Q) : bool :=
  match l with a :: ((b :: _) as t) => qltb a b && strictly_increasingb t | _ => true end.

(* number of leading short-time points that are <= x (the code's while loop counts these) *)
Fixpoint count_le (x : Q) (l : list Q) : nat :=
  match l with [] => 0 | h :: t => if qleb h x then S (count_le x t) else 0 end.

Definition combine_spec (t_lts g_lts t_sts g_sts : list Q) : list Q * list Q :=
  let k := count_le (hd 0 t_lts) t_sts in (firstn k t_sts ++ t_lts, firstn k g_sts ++ g_lts).

Definition pair_close (tol : Q) (a b : list Q * list Q) : bool :=
  list_eqb (qclose tol) (fst a) (fst b) && list_eqb (qclose tol) (snd a) (snd b).
