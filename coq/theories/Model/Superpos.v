(* Model/Superpos.v — BaseGHE._simulate_detailed: temporal superposition of load steps.
   K i k stands for g(ln((t_i - t_k) * 3600 / t_s)), the combined g-function evaluated by the implementation. *)
From Coq Require Import ZArith QArith List Bool.
From GHE Require Import Base.QUtil.
Import ListNotations.
Open Scope Q_scope.

Record simp := { nbh : Q; Hh : Q; two_pi_k : Q; Tg : Q; Rb : Q; mdot : Q; cp : Q }.

(* q_dot_b = [0] ++ q/nbh ;  q_dot_b_dt[k] = q_dot_b[k+1] - q_dot_b[k] *)
Definition qb (s : simp) (q : list Q) : list Q := 0 :: map (fun x => x / nbh s) q.
Fixpoint diffs (l : list Q) : list Q :=
  match l with a :: ((b :: _) as t) => (b - a) :: diffs t | _ => [] end.

(* delta_tb_i = sum_{k<i} dq[k] / H / two_pi_k * K i k *)
Definition delta_tb (s : simp) (K : nat -> nat -> Q) (dq : list Q) (i : nat) : Q :=
  fold_left Qplus (map (fun k => nth k dq 0 / Hh s / two_pi_k s * K i k) (seq 0 i)) 0.

Definition step (s : simp) (K : nat -> nat -> Q) (q : list Q) (i : nat) : Q * Q :=
  let b := qb s q in
  let d := delta_tb s K (diffs b) i in
  let tb := Tg s + d in
  let tf_bulk := tb + nth i b 0 / Hh s * Rb s in
  (tf_bulk - nth i b 0 / (2 * mdot s * cp s), d).

(* (hp_eft, dTb) for steps 1..n *)
Definition simulate (s : simp) (K : nat -> nat -> Q) (q : list Q) : list (Q * Q) :=
  map (step s K q) (seq 1 (length q)).

(* the documented formula, written from the property *)
Definition formula (s : simp) (K : nat -> nat -> Q) (q : list Q) (n : nat) : Q :=
  let qf := fun i => match i with O => 0 | S j => nth j q 0 end in          (* field load at step i, q_0 = 0 *)
  Tg s
  + fold_left Qplus (map (fun i => (qf (S i) - qf i) * K n i) (seq 0 n)) 0 / (two_pi_k s * Hh s * nbh s)
  + qf n * Rb s / (Hh s * nbh s)
  - qf n / (2 * mdot s * cp s * nbh s).
