(* Model/SearchCases.v — comparison helpers used by the generated correspondence files *)
From Coq Require Import ZArith QArith List Bool.
From GHE Require Import Base.QUtil gen.Src Model.Search.
Import ListNotations.
Open Scope Z_scope.

Definition tab_oracle (tmin tmax : list Q) : oracle :=
  fun k h => match h with Hmin => nthZ tmin k | Hmax => nthZ tmax k end.
Definition tab_oracle2 (tmin tmax : list (list Q)) : oracle2 :=
  fun li k h => match h with Hmin => nthZ (nthZ tmin li) k | Hmax => nthZ (nthZ tmax li) k end.

Definition trace_eqb (a b : trace) : bool :=
  list_eqb (fun x y => (fst x =? fst y) && height_eqb (snd x) (snd y)) a b.

Definition obs := (Z * height * trace)%type.
Definition obs_eqb (a b : obs) : bool :=
  let '(k, h, t) := a in let '(k', h', t') := b in (k =? k') && height_eqb h h' && trace_eqb t t'.
Definition res_eqb {A} (eqb : A -> A -> bool) (a b : result A) : bool :=
  match a, b with Ok x, Ok y => eqb x y | Err x, Err y => exn_eqb x y | _, _ => false end.

Record case1 := { c_cnt : list Z; c_cap : option Z; c_cont : bool; c_iter : nat;
                  c_tmin : list Q; c_tmax : list Q; c_exp : result obs }.
Definition run1 (c : case1) : result obs :=
  match search1d (c_cnt c) (c_cap c) (c_cont c) (c_iter c) (tab_oracle (c_tmin c) (c_tmax c)) with
  | Ok o => Ok (sel o, init_h o, tr_out o) | Err x => Err x end.
Definition ok1 (c : case1) : bool := res_eqb obs_eqb (run1 c) (c_exp c).

(* 2D: observation = (inner list index, selected key, init height, outer trace, inner trace) *)
Definition obs2 := (Z * Z * height * trace * trace)%type.
Definition obs2_eqb (a b : obs2) : bool :=
  let '(l, k, h, t0, t) := a in let '(l', k', h', t0', t') := b in
  (l =? l') && (k =? k') && height_eqb h h' && trace_eqb t0 t0' && trace_eqb t t'.
Record case2 := { d_nested : list (list Z); d_cap : option Z; d_cont : bool; d_iter : nat;
                  d_tmin : list (list Q); d_tmax : list (list Q); d_exp : result obs2 }.
(* outer index k -> li*1000+pos, the numbering the harness uses for fields *)
Definition outer_key (nested : list (list Z)) (k : Z) : Z :=
  if k =? 0 then 0 else (k - 1) * 1000 + (lenZ (nthZ nested (k - 1)) - 1).
Definition outer_trace (nested : list (list Z)) (t : trace) : trace := map (fun kh => (outer_key nested (fst kh), snd kh)) t.
Definition run2 (c : case2) : result obs2 :=
  match search2d (d_nested c) (d_cap c) (d_cont c) (d_iter c) (tab_oracle2 (d_tmin c) (d_tmax c)) with
  | Ok o => Ok (li2 o, sel (out2 o), init_h (out2 o), outer_trace (d_nested c) (tr_outer o), tr_out (out2 o)) | Err x => Err x end.
Definition ok2 (c : case2) : bool := res_eqb obs2_eqb (run2 c) (d_exp c).

(* ZD: observation = (chosen list, selected key, outer trace, per-list traces) *)
Definition obsz := (Z * Z * trace * list (Z * trace))%type.
Definition obsz_eqb (a b : obsz) : bool :=
  let '(l, k, t0, ts) := a in let '(l', k', t0', ts') := b in
  (l =? l') && (k =? k') && trace_eqb t0 t0' &&
  list_eqb (fun x y => (fst x =? fst y) && trace_eqb (snd x) (snd y)) ts ts'.
Record casez := { z_nested : list (list Z); z_cap : option Z; z_cont : bool; z_iter : nat;
                  z_tmin : list (list Q); z_tmax : list (list Q); z_drill : list (list Q); z_exp : result obsz }.
Definition runz (c : casez) : result obsz :=
  match searchZD (z_nested c) (z_cap c) (z_cont c) (z_iter c) (tab_oracle2 (z_tmin c) (z_tmax c))
                 (fun li k => nthZ (nthZ (z_drill c) li) k) with
  | Ok o => Ok (zd_outer o, zd_sel o, outer_trace (z_nested c) (zd_tr_outer o), zd_tr o) | Err x => Err x end.
Definition okz (c : casez) : bool := res_eqb obsz_eqb (runz c) (z_exp c).

Definition count_bad {A} (ok : A -> bool) (l : list A) : nat * nat * list nat :=
  let idx := combine (seq 0 (length l)) l in
  let bad := filter (fun ic => negb (ok (snd ic))) idx in
  (length l, length bad, map fst (firstn 5 bad)).
