(* Model/Hybrid.v — hand model of HybridLoad.process_month_loads (one record per simulated month),
   used for the theorems of C06/C07/C08.  The generated [Src.process_month_loads] is the code itself;
   [sequence_of] below is proved/checked equal to it (see Proof/HybridP.v and the correspondence). *)
From Coq Require Import ZArith QArith Qround List Bool Lia.
From GHE Require Import Base.QUtil gen.Src.
Import ListNotations.
Open Scope Q_scope.

Definition seg := (Q * Q)%type.                      (* (load, end hour) *)
Definition eps6 : Q := 1 # 1000000.
Definition clamp0 (x : Q) : Q := if qltb x 0 then eps6 else x.

Record month := { ipf : bool; Hm : Q; cl : Q; hl : Q; pcl : Q; phl : Q; dcl : Q; dhl : Q;
                  daycl : Q; dayhl : Q; fmh : Q; lmh : Q }.

Definition rate (m : month) : Q :=
  if ipf m then (cl m - hl m - pcl m * dcl m + phl m * dhl m) / (Hm m - dcl m - dhl m)
  else (cl m - hl m) / Hm m.
Definition fhh m := clamp0 (fmh m + dayhl m * 24 + 12 - dhl m / 2).
Definition lhh m := clamp0 (fhh m + dhl m).
Definition fhc m := clamp0 (fmh m + daycl m * 24 + 12 - dcl m / 2).
Definition lhc m := clamp0 (fhc m + dcl m).

Definition cool_sep m := if qltb 0 (pcl m) && ipf m then [(rate m, fhc m); (pcl m, lhc m)] else [].
Definition heat_sep m := if qltb 0 (phl m) && ipf m then [(rate m, fhh m); (- phl m, lhh m)] else [].

Definition single_peak (m : month) : bool := negb (qltb 0 (pcl m) && qltb 0 (phl m)).
Definition segments (m : month) : list seg :=
  let diff := if ipf m then daycl m - dayhl m else 0 in
  if qltb diff 0 || (qeqb diff 0 && single_peak m) then cool_sep m ++ heat_sep m ++ [(rate m, lmh m)]
  else if qltb 0 diff then heat_sep m ++ cool_sep m ++ [(rate m, lmh m)]
  else if ipf m then
    (if qltb 0 (pcl m) then [(rate m, fhc m - dcl m / 2); (pcl m, lhc m - dcl m / 2)] else []) ++
    (if qltb 0 (phl m) then [(- phl m, lhh m + dhl m / 2)] else []) ++ [(rate m, lmh m)]
  else [(rate m, lmh m)].

Fixpoint energy (prev : Q) (l : list seg) : Q :=
  match l with [] => 0 | (q, h) :: t => q * (h - prev) + energy h t end.
Definition last_hour (prev : Q) (l : list seg) : Q := fold_left (fun _ s => snd s) l prev.

(* building the month records from the 13-entry monthly arrays (index 0 unused), single year list [y] *)
Record monthly := { a_cl : list Q; a_hl : list Q; a_pcl : list Q; a_phl : list Q; a_dcl : list Q; a_dhl : list Q;
                    a_daycl : list Q; a_dayhl : list Q }.
Definition mi_of (i : Z) : Z := ((i - 1) mod 12 + 1)%Z.            (* month-of-year index 1..12 *)
Definition mk_month (a : monthly) (years : list Q) (start_m end_m : Z) (i : Z) : month :=
  let k := inject_Z (mi_of i) in
  let iq := inject_Z i in
  {| ipf := (i <? start_m + 12)%Z || (end_m - 12 <? i)%Z;
     Hm := monthdays iq (nthD years 0) * 24;
     cl := nthD (a_cl a) k; hl := nthD (a_hl a) k; pcl := nthD (a_pcl a) k; phl := nthD (a_phl a) k;
     dcl := nthD (a_dcl a) k; dhl := nthD (a_dhl a) k; daycl := nthD (a_daycl a) k; dayhl := nthD (a_dayhl a) k;
     fmh := first_month_hour iq years; lmh := last_month_hour iq years |}.

Definition months_of (a : monthly) (years : list Q) (start_m end_m : Z) : list month :=
  map (mk_month a years start_m end_m) (rangeZ start_m (end_m + 1)).

(* the whole (load, hour) sequence, including the two leading zero entries *)
Definition sequence_of (a : monthly) (years : list Q) (start_m end_m : Z) : list seg :=
  (0, 0) :: (0, first_month_hour (inject_Z start_m) years - 1) :: flat_map segments (months_of a years start_m end_m).

(* the generated code on the same data *)
Definition generated_sequence (a : monthly) (years : list Q) (start_m end_m : Z) : list seg :=
  let '(ld, hr) := process_month_loads [0] [0] (inject_Z start_m) years (inject_Z end_m)
                     (a_cl a) (a_hl a) (a_pcl a) (a_phl a) (a_dcl a) (a_dhl a) (a_daycl a) (a_dayhl a) 12 12 [0] in
  combine ld hr.

Definition seg_close (tol : Q) (x y : seg) : bool := qclose tol (fst x) (fst y) && qclose tol (snd x) (snd y).
Definition seq_close (tol : Q) (l1 l2 : list seg) : bool := list_eqb (seg_close tol) l1 l2.
