(* Model/Domains.v — the candidate-field generators ARE the functions regenerated from coordinates.py / domains.py
   (gen/Src.v).  This file adds the executable checks run on their output and the fingerprints used to compare
   them with the implementation. *)
From Coq Require Import ZArith QArith List Bool.
From GHE Require Import Base.QUtil gen.Src.
Import ListNotations.
Open Scope Q_scope.

Definition field := list (Q * Q).

Definition fingerprint (f : field) : list Q :=
  match f with
  | [] => [0]
  | p0 :: _ =>
    let pl := last f (0, 0) in
    [natQ (length f); qsum (map fst f); qsum (map snd f); qsum (map (fun p => qmul (fst p) (fst p)) f);
     qsum (map (fun p => qmul (snd p) (snd p)) f); qsum (map (fun p => qmul (fst p) (snd p)) f);
     fst p0; snd p0; fst pl; snd pl]
  end.
Definition fp_eqb (a b : list Q) : bool := list_eqb qeqb a b.

(* C03 as an executable check of one field: inside [0,L]x[0,W], pairwise squared distance >= bmin^2 (hence no coincident points) *)
Definition in_land (L W : Q) (p : Q * Q) : bool := qleb 0 (fst p) && qleb (fst p) L && qleb 0 (snd p) && qleb (snd p) W.
Definition dist2 (p q : Q * Q) : Q := (fst p - fst q) * (fst p - fst q) + (snd p - snd q) * (snd p - snd q).
Fixpoint spaced (b2 : Q) (f : field) : bool :=
  match f with
  | [] => true
  | p :: t => forallb (fun q => qleb b2 (dist2 p q)) t && spaced b2 t
  end.
Definition field_ok (L W bmin : Q) (f : field) : bool := forallb (in_land L W) f && spaced (bmin * bmin) f.

Definition sorted_counts (d : list field) : bool :=
  let c := map (fun f => length f) d in
  forallb (fun ab => Nat.leb (fst ab) (snd ab)) (combine c (tl c)).
Definition strictly_sorted_counts (d : list field) : bool :=
  let c := map (fun f => length f) d in
  forallb (fun ab => Nat.ltb (fst ab) (snd ab)) (combine c (tl c)).
