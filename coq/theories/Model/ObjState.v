(* Model/ObjState.v — the GHE object as a state machine: which height and which time axis the stored temperatures
   (hp_eft, dTb) belong to.  Follows ground_heat_exchangers.GHE.simulate / GHE.size after the repairs of F4 and F5. *)
From Coq Require Import ZArith QArith List Bool.
From GHE Require Import Base.QUtil.
Import ListNotations.
Open Scope Q_scope.

Inductive method := Hybrid | Hourly.
Definition method_eqb (a b : method) : bool := match a, b with Hybrid, Hybrid | Hourly, Hourly => true | _, _ => false end.

(* what hp_eft currently holds: nothing, or the result of simulating with [m] at height [h] on the time axis of [axis] *)
Record results := { r_h : Q; r_m : method; r_axis : method }.
Record ghe := { Hcur : Q; stored : option results; times_of : option method }.

Inductive op :=
| SetH (h : Q)
| Simulate (m : method)
| Size (m : method) (evals : list Q) (ret : Q).     (* heights at which solve_root evaluated the objective, returned height *)

Definition do_simulate (g : ghe) (m : method) : ghe :=
  (* hybrid always installs its own axis; hourly (after F5) always builds the hourly axis *)
  {| Hcur := Hcur g; stored := Some {| r_h := Hcur g; r_m := m; r_axis := m |}; times_of := Some m |}.

Definition step (g : ghe) (o : op) : ghe :=
  match o with
  | SetH h => {| Hcur := h; stored := stored g; times_of := times_of g |}
  | Simulate m => do_simulate g m
  | Size m evals ret =>
    (* each objective evaluation sets H and simulates; then the returned height is assigned and (after F4) simulated once more *)
    let g1 := fold_left (fun acc h => do_simulate {| Hcur := h; stored := stored acc; times_of := times_of acc |} m) evals g in
    do_simulate {| Hcur := ret; stored := stored g1; times_of := times_of g1 |} m
  end.
Definition run (g : ghe) (ops : list op) : ghe := fold_left step ops g.

(* the code before the repairs, kept for the refutation lemmas *)
Definition do_simulate_old (g : ghe) (m : method) : ghe :=
  let axis := match m, times_of g with Hourly, Some a => a | _, _ => m end in      (* hourly reused a non-empty stored axis *)
  {| Hcur := Hcur g; stored := Some {| r_h := Hcur g; r_m := m; r_axis := axis |}; times_of := Some axis |}.
Definition step_old (g : ghe) (o : op) : ghe :=
  match o with
  | SetH h => {| Hcur := h; stored := stored g; times_of := times_of g |}
  | Simulate m => do_simulate_old g m
  | Size m evals ret =>
    let g1 := fold_left (fun acc h => do_simulate_old {| Hcur := h; stored := stored acc; times_of := times_of acc |} m) evals g in
    {| Hcur := ret; stored := stored g1; times_of := times_of g1 |}
  end.

(* what the summary reports *)
Record summary := { s_count : nat; s_height : Q; s_drilling : Q; s_eft_of : option results }.
Definition summarise (coords : list (Q * Q)) (g : ghe) : summary :=
  {| s_count := length coords; s_height := Hcur g; s_drilling := Hcur g * natQ (length coords); s_eft_of := stored g |}.

(* ---------- the manager: setters and find_design ---------- *)
Record config := { c_fluid : option nat; c_grout : option nat; c_soil : option nat; c_pipe : option nat; c_borehole : option (Q * nat);
                   c_sim : option nat; c_loads : option nat; c_geom : option nat; c_design : option nat }.
Definition empty_config : config := Build_config None None None None None None None None None.
Inductive mop := SetFluid (x : nat) | SetGrout (x : nat) | SetSoil (x : nat) | SetPipe (x : nat)
               | SetBorehole (nominal_h : Q) (x : nat) | SetSim (x : nat) | SetLoads (x : nat) | SetGeom (x : nat) | SetDesign (x : nat)
               | FindDesign.
Definition mstep (c : config) (o : mop) : config :=
  match o with
  | SetFluid x => Build_config (Some x) (c_grout c) (c_soil c) (c_pipe c) (c_borehole c) (c_sim c) (c_loads c) (c_geom c) (c_design c)
  | SetGrout x => Build_config (c_fluid c) (Some x) (c_soil c) (c_pipe c) (c_borehole c) (c_sim c) (c_loads c) (c_geom c) (c_design c)
  | SetSoil x => Build_config (c_fluid c) (c_grout c) (Some x) (c_pipe c) (c_borehole c) (c_sim c) (c_loads c) (c_geom c) (c_design c)
  | SetPipe x => Build_config (c_fluid c) (c_grout c) (c_soil c) (Some x) (c_borehole c) (c_sim c) (c_loads c) (c_geom c) (c_design c)
  | SetBorehole h x => Build_config (c_fluid c) (c_grout c) (c_soil c) (c_pipe c) (Some (h, x)) (c_sim c) (c_loads c) (c_geom c) (c_design c)
  | SetSim x => Build_config (c_fluid c) (c_grout c) (c_soil c) (c_pipe c) (c_borehole c) (Some x) (c_loads c) (c_geom c) (c_design c)
  | SetLoads x => Build_config (c_fluid c) (c_grout c) (c_soil c) (c_pipe c) (c_borehole c) (c_sim c) (Some x) (c_geom c) (c_design c)
  | SetGeom x => Build_config (c_fluid c) (c_grout c) (c_soil c) (c_pipe c) (c_borehole c) (c_sim c) (c_loads c) (Some x) (c_design c)
  | SetDesign x => Build_config (c_fluid c) (c_grout c) (c_soil c) (c_pipe c) (c_borehole c) (c_sim c) (c_loads c) (c_geom c) (Some x)
  | FindDesign => c          (* reads the configuration; the nominal borehole height is overwritten before every use *)
  end.
(* the physical inputs: everything except the nominal height given to the borehole setter *)
Definition physical (c : config) := (c_fluid c, c_grout c, c_soil c, c_pipe c, option_map snd (c_borehole c), c_sim c, c_loads c, c_geom c, c_design c).

(* ---------- the manager with its design object ----------
   set_design hands the manager's CURRENT input objects to a new design object; the other setters REPLACE the manager's objects (they do not
   edit them), so the design object keeps what it was given until set_design is called again.  find_design searches and sizes with the
   design object's inputs. *)
Record mgr := { m_cfg : config; m_captured : option (option nat * option nat * option nat * option nat * option nat * option nat * option nat * option nat * option nat) }.
Definition new_mgr : mgr := {| m_cfg := empty_config; m_captured := None |}.
Definition gstep (m : mgr) (o : mop) : mgr :=
  match o with
  | SetDesign _ => let c' := mstep (m_cfg m) o in {| m_cfg := c'; m_captured := Some (physical c') |}
  | FindDesign => m
  | _ => {| m_cfg := mstep (m_cfg m) o; m_captured := m_captured m |}
  end.
Definition grun (m : mgr) (ops : list mop) : mgr := fold_left gstep ops m.
(* what find_design works with (None: set_design was never called, find_design has no design object) *)
Definition design_inputs (m : mgr) := m_captured m.
Definition is_set_design (o : mop) : bool := match o with SetDesign _ => true | _ => false end.
