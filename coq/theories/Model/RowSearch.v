(* Model/RowSearch.v — hand-written executable model of search_routines.RowWiseModifiedBisectionSearch.search
   (the decision structure of the RowWise design search; the field generator, the excess temperature and the sizing are oracles).
   Tied to the code by the correspondence run of tools/checks/c02.py (real class, stub generator / excess / sizing).  Definitions only. *)
From Coq Require Import ZArith QArith Qabs List Bool.
From GHE Require Import Base.QUtil.
Import ListNotations.
Open Scope Q_scope.

(* what the search can return / evaluate *)
Inductive probe :=
| PGen (spacing : Q)          (* the field generated for this target spacing *)
| PSingle                      (* the 1X1 field *)
| PSub (kept : nat) (removed : nat).   (* the sparsest field with `removed` boreholes removed, `kept` left *)

Record oracles := {
  o_gen_excess : Q -> Q;       (* excess at maximum height of the field generated for a spacing *)
  o_gen_count  : Q -> nat;     (* its number of boreholes *)
  o_gen_drill  : Q -> Q;       (* total drilling after sizing it *)
  o_single     : Q;            (* excess of the 1X1 field *)
  o_sub        : nat -> Q      (* excess of the sparsest field reduced to k boreholes *)
}.

Record rw_out := {
  rw_sel : probe;              (* the selected field *)
  rw_spec : option probe;      (* the field the returned specifier names (None: the code returned None) *)
  rw_trace : list probe;       (* calculate_excess calls, in order *)
  rw_escaped : bool            (* returned through continue_if_design_unmet *)
}.

(* ---- branch 2: bisection on the target spacing, then the sweep of 11 spacings above the densest satisfactory one.
   State as in the source: spacing_high (the DENSER end), spacing_low, low_e, high_e — initialised (start, stop, t_upper, t_lower);
   a satisfactory probe updates spacing_high and high_e, an unsatisfactory one spacing_low and low_e. *)
Fixpoint spacing_bisect (fuel : nat) (o : oracles) (sh sl low_e high_e m : Q) (spec : option probe) (tr : list probe)
  : Q * option probe * list probe :=
  match fuel with
  | O => (sh, spec, tr)
  | S f =>
    let t := o_gen_excess o m in
    let tr' := tr ++ [PGen m] in
    let '(sh', sl', low_e', high_e', spec') :=
      if qleb t 0 then (m, sl, low_e, t, Some (PGen m)) else (sh, m, t, high_e, spec) in
    let m' := (sl' + sh') * (1 # 2) in
    if qltb (Qabs (low_e' - high_e')) (1 # 10000000000) then (sh', spec', tr') else
    spacing_bisect f o sh' sl' low_e' high_e' m' spec' tr'
  end.

Fixpoint sweep_targets (n : nat) (cur change : Q) : list Q :=
  match n with O => [] | S k => cur :: sweep_targets k (cur + change) change end.

(* best so far: (spacing, drilling) *)
Fixpoint sweep_pick (o : oracles) (ts : list Q) (best : option (Q * Q)) : option (Q * Q) :=
  match ts with
  | [] => best
  | s :: rest =>
    let t := o_gen_excess o s in
    let d := o_gen_drill o s in
    let best' := match best with
                 | None => Some (s, d)
                 | Some (bs, bd) => if qleb t 0 && qltb d bd then Some (s, d) else best
                 end in
    sweep_pick o rest best'
  end.

(* ---- branch 3: bisection on the number of boreholes kept of the sparsest field *)
Fixpoint removal_bisect (fuel : nat) (o : oracles) (nstart nmax nmin : nat) (sel : option probe) (tr : list probe) : option probe * list probe :=
  match fuel with
  | O => (sel, tr)
  | S f =>
    let nbh := Nat.div (nmax + nmin) 2 in
    let p := PSub nbh (nstart - nbh) in
    let t := o_sub o nbh in
    let tr' := tr ++ [p] in
    let '(nmax', nmin', sel') := if qleb t 0 then (nbh, nmin, Some p) else (nmax, nbh, sel) in
    if Nat.leb (nmax' - nmin') 1 then (sel', tr') else removal_bisect f o nstart nmax' nmin' sel' tr'
  end.

(* fixed = true: the code after the two fix commits (the whole sparsest field as the fallback selection; the specifier of the
   selected field).  fixed = false: the code before them, kept so that the refutation theorems have a subject. *)
Definition rw_search (fixed : bool) (o : oracles) (sp_start sp_stop sp_step : Q) (cont : bool) (max_iter : nat) : result rw_out :=
  let t_upper := o_gen_excess o sp_start in
  let t_lower := o_gen_excess o sp_stop in
  let tr0 := [PGen sp_start; PGen sp_stop] in
  if qltb 0 t_upper && qltb 0 t_lower then
    if cont then Ok {| rw_sel := PGen sp_start; rw_spec := Some (PGen sp_start); rw_trace := tr0; rw_escaped := true |}
    else Err ValueError
  else if qltb t_upper 0 && qltb 0 t_lower then
    let '(sh, spec, tr) := spacing_bisect max_iter o sp_start sp_stop t_upper t_lower ((sp_stop + sp_start) * (1 # 2)) None tr0 in
    let ts := sweep_targets 11 sh (((sp_step + sh) - sh) / 10) in
    match sweep_pick o ts None with
    | None => Err TypeError        (* unreachable: the sweep is never empty *)
    | Some (s, _) =>
      Ok {| rw_sel := PGen s; rw_spec := if fixed then Some (PGen s) else spec;
            rw_trace := tr ++ map PGen ts; rw_escaped := false |}
    end
  else if qltb t_lower 0 && qltb t_upper 0 then
    let n := o_gen_count o sp_stop in
    if qleb (o_single o) 0 then
      Ok {| rw_sel := PSingle; rw_spec := Some PSingle; rw_trace := tr0 ++ [PSingle]; rw_escaped := false |}
    else
      let '(sel, tr) := removal_bisect max_iter o n n 1 (if fixed then Some (PGen sp_stop) else None) (tr0 ++ [PSingle]) in
      match sel with
      | None => Err TypeError      (* nothing selected: search() returns None and find_design fails with TypeError (before the fix) *)
      | Some p => Ok {| rw_sel := p; rw_spec := Some p; rw_trace := tr; rw_escaped := false |}
      end
  else Err ValueError.

(* excess of a probe *)
Definition probe_excess (o : oracles) (sp_stop : Q) (p : probe) : Q :=
  match p with
  | PGen s => o_gen_excess o s
  | PSingle => o_single o
  | PSub k _ => o_sub o k
  end.
