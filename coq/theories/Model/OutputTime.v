(* Model/OutputTime.v — specification side of C19: the non-leap calendar, stated
   independently of the code, and the executable checks that compare the
   generated [Src.ghe_time_convert] / [Src.hours_to_month] with it. *)
From Coq Require Import ZArith QArith Qround List Bool Lia Lqa.
From GHE Require Import Base.QUtil gen.Src.
Import ListNotations.
Open Scope Q_scope.

(* the reference calendar: a non-leap year *)
Definition cal_days : list Z := [31; 28; 31; 30; 31; 30; 31; 31; 30; 31; 30; 31]%Z.
Definition cal_hours (k : nat) : Z := (24 * nth k cal_days 0)%Z.             (* hours in month k (0-based) *)
Definition cal_cum (k : nat) : Z := fold_left Z.add (map (fun d => 24 * d)%Z (firstn k cal_days)) 0%Z.
Definition year_hours : Z := cal_cum 12.

(* (month, day, hour) is the calendar label of 0-based hour-of-year h *)
Definition label_ok (h : Z) (lab : Q * Q * Q) : bool :=
  let '(m, d, hr) := lab in
  let mz := Qfloor m in let dz := Qfloor d in let hz := Qfloor hr in
  qeqb m (inject_Z mz) && qeqb d (inject_Z dz) && qeqb hr (inject_Z hz) &&
  (1 <=? mz)%Z && (mz <=? 12)%Z && (1 <=? dz)%Z && (dz <=? nth (Z.to_nat (mz - 1)) cal_days 0)%Z &&
  (1 <=? hz)%Z && (hz <=? 24)%Z &&
  (h =? cal_cum (Z.to_nat (mz - 1)) + 24 * (dz - 1) + (hz - 1))%Z.

Definition all_hours : list Z := rangeZ 0 year_hours.
Definition convert_all_ok : bool := forallb (fun h => label_ok h (ghe_time_convert (inject_Z h))) all_hours.

(* elapsed hours -> fractional months, reference definition:
   year n, month k is the first with r <= cum(k+1), value 12 n + k + (r - cum k)/hours k *)
Fixpoint find_month (r : Q) (k : nat) (fuel : nat) : nat :=
  match fuel with
  | O => k
  | S f => if qleb r (inject_Z (cal_cum (S k))) then k else find_month r (S k) f
  end.
Definition h2m_spec (h : Q) : Q :=
  let n := Qfloor (h / inject_Z year_hours) in
  let r := h - inject_Z n * inject_Z year_hours in
  let k := find_month r 0 11 in
  inject_Z (12 * n) + natQ k + (r - inject_Z (cal_cum k)) / inject_Z (cal_hours k).

(* sample comparison of the generated function with the reference (a test inside Coq, not a proof):
   every 13th half hour of 3 years, and every half hour within +-2 h of each month end of 30 years *)
Definition h2m_grid_stride : list Q := map (fun k => inject_Z (13 * k) / 2) (rangeZ 0 (2 * 3 * year_hours / 13 + 1)).
Definition h2m_grid_ends : list Q :=
  flat_map (fun y => flat_map (fun m => map (fun k => inject_Z (2 * (y * year_hours + cal_cum m) + k) / 2) (rangeZ (-4) 5))
                      (seq 1 12)) (rangeZ 0 30).
Definition h2m_agree_on (l : list Q) : bool := forallb (fun h => qeqb (hours_to_month h) (h2m_spec h)) l.
