(* Model/Radial.v — the implicit finite-volume step of RadialNumericalBH.calc_sts_g_functions.
   Cells 0..n (n = num_cells - 1); cond i = conductance between cell i and cell i+1 (the code's ae of cell i = -aw of cell i+1);
   cap i = rho*cp*volume/time_step of cell i (the code's ad).  Conductances contain logarithms and are taken as data. *)
From Coq Require Import ZArith QArith List Bool.
From GHE Require Import Base.QUtil.
Import ListNotations.
Open Scope Q_scope.

(* the tridiagonal system as the code assembles it (dl, d, du, b), from conductances, capacities, old temperatures, flux *)
Record tri := { t_dl : list Q; t_d : list Q; t_du : list Q; t_b : list Q }.

Definition assemble (cond cap temp : list Q) (q : Q) : tri :=
  let n := (length temp - 1)%nat in
  let c := fun i => nth i cond 0 in let ad := fun i => nth i cap 0 in let t := fun i => nth i temp 0 in
  {| t_dl := map (fun i => if Nat.eqb i (n - 1) then 0 else c i / ad (S i)) (seq 0 n);          (* dl[i] multiplies x_i in row i+1 *)
     t_d := map (fun i => if Nat.eqb i n then 1 else if Nat.eqb i 0 then - c 0%nat / ad 0%nat - 1
                          else - c (i - 1)%nat / ad i - c i / ad i - 1) (seq 0 (S n));
     t_du := map (fun i => c i / ad i) (seq 0 n);
     t_b := map (fun i => if Nat.eqb i n then t n else if Nat.eqb i 0 then - t 0%nat - q / ad 0%nat else - t i) (seq 0 (S n)) |}.

(* residual of a candidate solution x of the assembled system: row i of (A x - b) *)
Definition residual (s : tri) (x : list Q) (i : nat) : Q :=
  let g := fun l j => nth j l 0 in
  (if Nat.eqb i 0 then 0 else g (t_dl s) (i - 1)%nat * g x (i - 1)%nat) + g (t_d s) i * g x i
  + (if Nat.ltb i (length x - 1) then g (t_du s) i * g x (S i) else 0) - g (t_b s) i.

(* g-function values the code derives from the first cell and the borehole-wall cell *)
Definition g_value (c0 rb q init t0 : Q) : Q := c0 * ((t0 - init) / q - rb).
Definition g_bhw_value (c0 q init tw : Q) : Q := c0 * ((tw - init) / q).

(* cell geometry: region of [count] cells of equal thickness starting at r0 *)
Definition cell_in (r0 thick : Q) (j : nat) : Q := r0 + natQ j * thick.
Definition cell_out (r0 thick : Q) (j : nat) : Q := cell_in r0 thick j + thick.
Definition cell_vol (pi_ r0 thick : Q) (j : nat) : Q := pi_ * (cell_out r0 thick j * cell_out r0 thick j - cell_in r0 thick j * cell_in r0 thick j).
