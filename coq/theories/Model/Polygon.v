(* Model/Polygon.v — model of shape.point_polygon_check (second loop verbatim, leaf expressions from gen/Src.v),
   the on-edge loop abstracted by a predicate, and feature_recognition.remove_cutout. *)
From Coq Require Import ZArith QArith List Bool.
From GHE Require Import Base.QUtil gen.Src.
Import ListNotations.
Open Scope Q_scope.

Notation pt := (Q * Q)%type (only parsing).
Notation edge := ((Q * Q) * (Q * Q))%type (only parsing).

(* (contour[idx-1], contour[idx]) for idx = 0.. : the first edge closes the polygon *)
Definition edges (poly : list pt) : list edge :=
  match poly with [] => [] | _ => combine (last poly (0, 0) :: removelast poly) poly end.

Inductive step := Skip | OnEdge | Flip.
Definition edge_step (p : pt) (e : edge) : step :=
  let '(px, py) := p in let '((v1x, v1y), (v2x, v2y)) := e in
  if between py v1y v2y then
    if (qeqb py v1y && qleb v1y v2y) || (qeqb py v2y && qleb v2y v1y) then Skip
    else let c := ppc_cross v1x px v2y py v2x v1y in
         if qeqb c 0 then OnEdge
         else if Bool.eqb (qltb v1y v2y) (qltb 0 c) then Flip else Skip
  else Skip.

(* result codes of the implementation: -1 outside, 0 on edge, 1 inside *)
Fixpoint rays (p : pt) (es : list edge) (inside : bool) : Z :=
  match es with
  | [] => if inside then (-1)%Z else 1%Z           (* the code's flag is inverted: it starts True = "outside" *)
  | e :: t => match edge_step p e with
              | Skip => rays p t inside
              | OnEdge => 0%Z
              | Flip => rays p t (negb inside)
              end
  end.
Definition ppc_rays (poly : list pt) (p : pt) : Z := rays p (edges poly) true.

(* exact on-segment test (what the focal-sum test decides away from the tolerance band) *)
Definition on_segment (p : pt) (e : edge) : bool :=
  let '(px, py) := p in let '((v1x, v1y), (v2x, v2y)) := e in
  qeqb (ppc_cross v1x px v2y py v2x v1y) 0 && between px v1x v2x && between py v1y v2y.

(* the whole function, with the first loop given as a predicate on (point, edge) *)
Definition ppc_with (near : pt -> edge -> bool) (poly : list pt) (p : pt) : Z :=
  if existsb (near p) (edges poly) then 0%Z else ppc_rays poly p.
Definition ppc (poly : list pt) (p : pt) : Z := ppc_with on_segment poly p.

(* reference: crossing number with a ray to +x, half-open in y *)
Definition in_rangeb (py y1 y2 : Q) : bool := (qltb y1 py && qleb py y2) || (qltb y2 py && qleb py y1).
Definition xint (py x1 y1 x2 y2 : Q) : Q := x1 + (py - y1) * (x2 - x1) / (y2 - y1).
Definition crossb (p : pt) (e : edge) : bool :=
  let '(px, py) := p in let '((x1, y1), (x2, y2)) := e in
  in_rangeb py y1 y2 && qltb px (xint py x1 y1 x2 y2).
Definition crossing_count (p : pt) (es : list edge) : nat := length (filter (crossb p) es).
Definition crossing_spec (poly : list pt) (p : pt) : Z :=
  if Nat.odd (crossing_count p (edges poly)) then 1%Z else (-1)%Z.

(* ---------- remove_cutout ---------- *)
Definition remove_cutout (cls : list pt -> pt -> Z) (coords : list pt) (boundaries : list (list pt))
           (remove_inside keep_contour : bool) : list pt :=
  filter (fun c =>
    let rs := map (fun b => cls b c) boundaries in
    let has_in := existsb (Z.eqb 1) rs in let has_edge := existsb (Z.eqb 0) rs in
    if remove_inside then negb has_in && negb (has_edge && negb keep_contour)
    else has_in || (has_edge && keep_contour)) coords.

(* ---------- the on-edge test of the first loop, decided exactly ----------
   sqrt a + sqrt b - sqrt c < t  for squared distances a, b, c (rationals >= 0) and t > 0, by sign analysis and squaring *)
Definition focal_lt (t a b c : Q) : bool :=
  let K := c + t * t - a - b in
  let rpos := qltb 0 K || qltb (K * K) (4 * t * t * c) in          (* K + 2 t sqrt c > 0 *)
  if negb rpos then false else
  let M := 4 * a * b - K * K - 4 * t * t * c in
  let N := 4 * K * t in
  if qleb 0 N then qltb M 0 || qltb (M * M) (N * N * c)
  else qltb M 0 && qltb (N * N * c) (M * M).
Definition d2 (p q : Q * Q) : Q := (fst p - fst q) * (fst p - fst q) + (snd p - snd q) * (snd p - snd q).
Definition near_edge (tol : Q) (p : Q * Q) (e : (Q * Q) * (Q * Q)) : bool :=
  focal_lt tol (d2 (fst e) p) (d2 (snd e) p) (d2 (fst e) (snd e)).
(* point_polygon_check with its tolerance argument *)
Definition ppc_tol (tol : Q) (poly : list (Q * Q)) (p : Q * Q) : Z := ppc_with (near_edge tol) poly p.

(* ---------- domains.polygonal_land_constraint ---------- *)
Fixpoint insert_by_len {A} (x : list A) (l : list (list A)) : list (list A) :=
  match l with
  | [] => [x]
  | h :: t => if Nat.ltb (length h) (length x) then h :: insert_by_len x t else x :: l
  end.
Definition reorder {A} (l : list (list A)) : list (list A) := fold_right insert_by_len [] l.

Definition qmax_list (l : list Q) : Q := match l with [] => 0 | h :: t => fold_left (fun a b => if qltb a b then b else a) t h end.
Definition land_constraint (cls : list (Q * Q) -> (Q * Q) -> Z) (bmin bx by_ : Q) (outlines nogo : list (list (Q * Q)))
           (kc0 kc1 : bool) : list (list (list (Q * Q))) :=
  let pts := concat outlines in
  let L := qmax_list (map fst pts) in let W := qmax_list (map snd pts) in
  let nested := bi_rectangle_nested L W bmin bx by_ false in
  map (fun dom =>
    reorder (filter (fun f => negb (Nat.eqb (length f) 0))
      (map (fun f => let f1 := remove_cutout cls f outlines false kc0 in
                     match f1, nogo with
                     | [], _ => []
                     | _, [] => f1
                     | _, _ => remove_cutout cls f1 nogo true kc1
                     end) dom))) nested.

(* the three tests of the second loop, REGENERATED from shape.py (srcgen.if_test), are the expressions edge_step is written with: an edit of
   the half-open vertex rule, of the collinearity test or of the flip rule is a broken obligation here *)
Lemma edge_step_uses_the_regenerated_tests (p : pt) (e : edge) :
  edge_step p e =
  (let '(px, py) := p in let '((v1x, v1y), (v2x, v2y)) := e in
   if between py v1y v2y then
     if ppc_vertex_rule py v1y v2y then Skip
     else let c := ppc_cross v1x px v2y py v2x v1y in
          if ppc_on_line_rule c then OnEdge else if ppc_flip_rule v1y v2y c then Flip else Skip
   else Skip).
Proof. reflexivity. Qed.
