(* Model/Search.v — executable model of search_routines.Bisection1D.search, Bisection2D, BisectionZD
   (search_successive) and utilities.solve_root / GHE.size, over an ARBITRARY excess oracle.
   Leaf expressions (sign, check_bracket, midpoint, max_iter, root_sign) come from gen/Src.v, i.e. from
   the current source.  Definitions only. *)
From Coq Require Import ZArith QArith Qround List Bool Lia.
From GHE Require Import Base.QUtil gen.Src.
Import ListNotations.
Open Scope Z_scope.

Inductive height := Hmin | Hmax.
Definition height_eqb (a b : height) : bool := match a, b with Hmin, Hmin | Hmax, Hmax => true | _, _ => false end.

Definition oracle := Z -> height -> Q.            (* excess temperature of candidate index at a height *)
Definition trace := list (Z * height).            (* calculate_excess calls, in order *)
Definition dict := list (Z * Q).                  (* calculated_temperatures: insertion-ordered dict *)

Fixpoint dict_set (d : dict) (k : Z) (v : Q) : dict :=
  match d with
  | [] => [(k, v)]
  | (k', v') :: t => if k =? k' then (k, v) :: t else (k', v') :: dict_set t k v
  end.

Definition nthZ {A} `{Default A} (l : list A) (i : Z) : A := nth (Z.to_nat i) l dflt.
Definition lenZ {A} (l : list A) : Z := Z.of_nat (length l).

(* utilities.sign raises ZeroDivisionError on 0 *)
Definition sign_r (x : Q) : result Q := if qeqb x 0 then Err ZeroDivisionError else Ok (sign x).

Definition midZ (l r : Z) : Z := Qfloor (midpoint (inject_Z l) (inject_Z r)).

(* x_r_idx = [idx for idx, x in enumerate(counts) if x < max_boreholes][-1] *)
Definition last_below (cnt : list Z) (cap : Z) : option Z :=
  fold_left (fun acc '(i, c) => if c <? cap then Some i else acc)
            (combine (map Z.of_nat (seq 0 (length cnt))) cnt) None.

(* the while loop; i counts completed iterations *)
Fixpoint bis_loop (fuel : nat) (nd : Z) (e : oracle) (lsign : Q) (l r i : Z) (calc : dict) (tr : trace)
  : result (Z * Z * Z * dict * trace) :=
  match fuel with
  | O => Ok (l, r, i, calc, tr)
  | S f =>
    let c := midZ l r in
    if (c =? l) || (c =? r) then Ok (l, r, i, calc, tr)
    else if nd <=? c then Err IndexError            (* fieldDescriptors[c_idx] *)
    else
      let v := e c Hmax in
      let tr := tr ++ [(c, Hmax)] in
      let calc := dict_set calc c v in
      match sign_r v with
      | Err x => Err x
      | Ok s => if qeqb s lsign then bis_loop f nd e lsign c r (i + 1) calc tr
                else bis_loop f nd e lsign l c (i + 1) calc tr
      end
  end.

(* sorted(zip(num_bh, values)): lexicographic on (count, value); insertion sort is enough (order of equal pairs is irrelevant) *)
Definition pair_leb (a b : Z * Q) : bool :=
  (fst a <? fst b) || ((fst a =? fst b) && qleb (snd a) (snd b)).
Fixpoint insert_sorted (x : Z * Q) (l : list (Z * Q)) : list (Z * Q) :=
  match l with
  | [] => [x]
  | h :: t => if pair_leb x h then x :: l else h :: insert_sorted x t
  end.
Definition sort_pairs (l : list (Z * Q)) : list (Z * Q) := fold_right insert_sorted [] l.

Fixpoint first_negative (l : list (Z * Q)) : option Q :=
  match l with [] => None | (_, v) :: t => if qltb v 0 then Some v else first_negative t end.

Fixpoint index_of_value (d : dict) (v : Q) : option Z :=
  match d with [] => None | (k, v') :: t => if qeqb v' v then Some k else index_of_value t v end.

(* the tail of Bisection1D.search: returns the selected key *)
Definition final_pick (cnt : list Z) (calc : dict) : result Z :=
  let values := map snd calc in
  let negs := filter (fun v => qleb v 0) values in
  match negs with
  | [] => Err ValueError                      (* max() of an empty sequence *)
  | _ =>
    let eoi := qmaxl negs in
    let sorted := sort_pairs (map (fun kv => (nthZ cnt (fst kv), snd kv)) calc) in
    let eoi := match first_negative sorted with Some v => v | None => eoi end in
    match index_of_value calc eoi with
    | Some k => Ok k
    | None => Err ValueError
    end
  end.

Record search_out := { sel : Z; init_h : height; tr_out : trace; calc_out : dict; escaped : bool }.

(* nd = number of field descriptors available (equals the list length except in the outer searches of 2D) *)
Definition search1d_nd (nd : Z) (cnt : list Z) (cap : option Z) (cont : bool) (max_iter : nat) (e : oracle) : result search_out :=
  let n := lenZ cnt in
  match (match cap with None => if n =? 0 then None else Some (n - 1) | Some c => last_below cnt c end) with
  | None => Err IndexError
  | Some xr =>
    if (n =? 0) || (nd <=? 0) || (nd <=? xr) then Err IndexError else
    let t0l := e 0 Hmin in let t0u := e 0 Hmax in let tm1 := e xr Hmax in
    let tr := [(0, Hmin); (0, Hmax); (xr, Hmax)] in
    let calc := dict_set (dict_set [] 0 t0u) xr tm1 in
    bind (sign_r t0l) (fun s0l =>
    bind (sign_r t0u) (fun s0u =>
    if check_bracket s0l s0u then
      Ok {| sel := 0; init_h := Hmax; tr_out := tr; calc_out := calc; escaped := false |}
    else
    bind (sign_r tm1) (fun sm1 =>
    let go (_ : unit) :=
      match bis_loop max_iter nd e s0u 0 xr 0 calc tr with
      | Err x => Err x
      | Ok (l, r, i, calc, tr) =>
        if (i <? 0) || (n <=? i) || (nd <=? i) then Err IndexError else
        let tr := tr ++ [(i, Hmax)] in
        match final_pick cnt calc with
        | Err x => Err x
        | Ok k => if nd <=? k then Err IndexError else
                  Ok {| sel := k; init_h := Hmax; tr_out := tr; calc_out := calc; escaped := false |}
        end
      end in
    if check_bracket s0u sm1 then go tt
    else if qltb t0l 0 then
      if cont then Ok {| sel := 0; init_h := Hmin; tr_out := tr; calc_out := calc; escaped := true |}
      else Err ValueError
    else if qltb 0 tm1 then
      if cont then Ok {| sel := xr; init_h := Hmax; tr_out := tr; calc_out := calc; escaped := true |}
      else Err ValueError
    else go tt)))
  end.

Definition search1d (cnt : list Z) (cap : option Z) (cont : bool) (max_iter : nat) (e : oracle) : result search_out :=
  search1d_nd (lenZ cnt) cnt cap cont max_iter e.

(* ---------------- utilities.solve_root as used by GHE.size ---------------- *)
(* [brent] is scipy's answer, an oracle value; its contract is a hypothesis of the theorems *)
Definition solve_root (f : Q -> Q) (lower upper : Q) (brent : Q) : result Q :=
  let minus := f lower in let plus := f upper in
  if qeqb minus 0 || qeqb plus 0 then Err ZeroDivisionError else
  let sm := root_sign minus in let sp := root_sign_plus plus in
  if qneb sp sm then Ok brent
  else if qeqb sp (-1) && qeqb sm (-1) then Ok lower
  else if qeqb sp 1 && qeqb sm 1 then Ok upper
  else Ok ((lower + upper) / 2)%Q.            (* unreachable: x keeps its initial value *)

(* ---------------- Bisection2D: outer list, then the chosen inner list ---------------- *)
(* nested counts; outer domain = first field of the first list, then the last field of each list *)
Definition outer_cnt (nested : list (list Z)) : list Z :=
  nthZ (nthZ nested 0) 0 :: map (fun l => last l 0) nested.
(* index of field (list li, position p) in a global numbering used by the oracle: (li, p) *)
Definition oracle2 := Z -> Z -> height -> Q.       (* list index, position, height *)
Definition outer_oracle (nested : list (list Z)) (e : oracle2) : oracle :=
  fun k h => if k =? 0 then e 0 0 h else e (k - 1) (lenZ (nthZ nested (k - 1)) - 1) h.

Definition py_index (len i : Z) : option Z :=      (* Python list indexing with negative wrap *)
  if (0 <=? i) && (i <? len) then Some i else if (i <? 0) && (0 <=? len + i) then Some (len + i) else None.

Record search2_out := { li2 : Z; out2 : search_out; tr_outer : trace }.
Definition search2d (nested : list (list Z)) (cap : option Z) (cont : bool) (max_iter : nat) (e : oracle2)
  : result search2_out :=
  if lenZ nested =? 0 then Err IndexError else
  if lenZ (nthZ nested 0) =? 0 then Err IndexError else
  match search1d_nd (lenZ (nthZ nested 0)) (outer_cnt nested) cap cont max_iter (outer_oracle nested e) with
  | Err x => Err x
  | Ok o =>
    match py_index (lenZ nested) (sel o - 1) with
    | None => Err IndexError
    | Some li =>
      match search1d (nthZ nested li) cap cont max_iter (e li) with
      | Err x => Err x
      | Ok o2 => Ok {| li2 := li; out2 := o2; tr_outer := tr_out o |}
      end
    end
  end.

(* ---------------- BisectionZD.search_successive ---------------- *)
(* sized : list index -> position -> total drilling of the sized selected field (nbh * H after size) *)
Fixpoint zd_loop (fuel : nat) (nested : list (list Z)) (cap : option Z) (cont : bool) (max_iter : nat) (e : oracle2)
         (drill : Z -> Z -> Q) (i imax : Z) (old : Q) (heights : list (Z * Q)) (calcs : list (Z * dict))
         (tr : list (Z * trace)) : list (Z * Q) * list (Z * dict) * list (Z * trace) * result unit :=
  match fuel with
  | O => (heights, calcs, tr, Ok tt)
  | S f =>
    if (i <? lenZ nested) && (i <? imax) then
      match search1d (nthZ nested i) cap cont max_iter (e i) with
      | Err ValueError => (heights, calcs, tr, Ok tt)                 (* except ValueError: break *)
      | Err x => (heights, calcs, tr, Err x)
      | Ok o =>
        let calcs := calcs ++ [(i, calc_out o)] in
        let tr := tr ++ [(i, tr_out o)] in
        let td := drill i (sel o) in
        let heights := heights ++ [(i, td)] in
        if qltb old td then (heights, calcs, tr, Ok tt)
        else zd_loop f nested cap cont max_iter e drill (i + 1) imax td heights calcs tr
      end
    else (heights, calcs, tr, Ok tt)
  end.

Fixpoint argmin_first (l : list (Z * Q)) (best : Z * Q) : Z * Q :=
  match l with [] => best | (k, v) :: t => if qltb v (snd best) then argmin_first t (k, v) else argmin_first t best end.

Record zd_out := { zd_outer : Z; zd_sel : Z; zd_tr_outer : trace; zd_tr : list (Z * trace); zd_escaped : bool }.
Definition searchZD (nested : list (list Z)) (cap : option Z) (cont : bool) (max_iter : nat) (e : oracle2)
           (drill : Z -> Z -> Q) : result zd_out :=
  if lenZ nested =? 0 then Err IndexError else
  if lenZ (nthZ nested 0) =? 0 then Err IndexError else
  match search1d (outer_cnt nested) cap cont max_iter (outer_oracle nested e) with
  | Err x => Err x
  | Ok o =>
    let k0 := if 0 <? sel o then sel o - 1 else sel o in
    let '(heights, calcs, tr, st) :=
        zd_loop 8 nested cap cont max_iter e drill k0 (k0 + 7) (99999 # 1)%Q [] [] [] in
    match st with
    | Err x => Err x
    | Ok _ =>
      match heights with
      | [] => Err ValueError                                   (* min() of an empty sequence *)
      | h0 :: rest =>
        let '(ko, _) := argmin_first rest h0 in
        match find (fun kc => fst kc =? ko) calcs with
        | None => Err ValueError      (* unreachable: the temperatures of a list are recorded together with its drilling *)
        | Some kc =>
        let calc := snd kc in
        let values := map snd calc in
        let negs := filter (fun v => qleb v 0) values in
        match negs with
        | [] =>
          (* no field of the chosen list meets the limits (the search of that list escaped through continue_if_design_unmet):
             the field that search returned is kept.  The search is a function of its inputs, so it is simply evaluated again here. *)
          match search1d (nthZ nested ko) cap cont max_iter (e ko) with
          | Ok o2 => Ok {| zd_outer := ko; zd_sel := sel o2; zd_tr_outer := tr_out o; zd_tr := tr; zd_escaped := true |}
          | Err x => Err x
          end
        | _ => match index_of_value calc (qmaxl negs) with
               | Some k => Ok {| zd_outer := ko; zd_sel := k; zd_tr_outer := tr_out o; zd_tr := tr; zd_escaped := false |}
               | None => Err ValueError
               end
        end
        end
      end
    end
  end.
