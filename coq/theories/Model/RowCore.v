(* Model/RowCore.v — exact-arithmetic core of rowwise.py: row count and spacing, distribute, the rectangular lot at
   rotation 0, the rotation sweep's argmax.  Trigonometric float evaluation, the tolerance-driven loops and the no-go /
   perimeter machinery are NOT modelled (C14 is claimed partial). *)
From Coq Require Import ZArith QArith Qround List Bool.
From GHE Require Import Base.QUtil.
Import ListNotations.
Open Scope Q_scope.

(* gen_borehole_config: num_rows = int(d // y_space), s = d / num_rows *)
Definition num_rows (d y : Q) : Z := Qfloor (d / y).
Definition row_step (d y : Q) : Q := d / inject_Z (num_rows d y).

(* distribute(x1, x2, spacing): dx = |x2 - x1| along the unit direction (c, s) *)
Definition n_cols (dx sp : Q) : Z := Qfloor (dx / sp).
Definition act_space (dx sp : Q) : Q := dx / inject_Z (n_cols dx sp).
Definition distribute (x1 : Q * Q) (c s dx sp : Q) : list (Q * Q) :=
  if qltb dx sp then [(fst x1 + dx / 2 * c, snd x1 + dx / 2 * s)]
  else map (fun k => (fst x1 + inject_Z k * act_space dx sp * c, snd x1 + inject_Z k * act_space dx sp * s)) (rangeZ 0 (n_cols dx sp))
       ++ [(fst x1 + dx * c, snd x1 + dx * s)].

(* an axis-aligned W x H lot with a corner at (x0, y0), rotation 0, target spacing sp: rows bottom to top, each row left to right *)
Definition rect_field (x0 y0 W H sp : Q) : list (Q * Q) :=
  flat_map (fun r => distribute (x0, y0 + inject_Z r * row_step H sp) 1 0 W sp) (rangeZ 0 (num_rows H sp + 1)).

(* field_optimization_fr: keep the first rotation whose field is strictly larger than everything before *)
Fixpoint sweep (counts : list nat) (idx : nat) (best : nat * nat) : nat * nat :=          (* (best count, its index) *)
  match counts with
  | [] => best
  | c :: t => if Nat.ltb (fst best) c then sweep t (S idx) (c, idx) else sweep t (S idx) best
  end.
Definition sweep_best (counts : list nat) : nat * nat := sweep counts 0 (0%nat, 0%nat).
