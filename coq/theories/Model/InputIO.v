(* Model/InputIO.v — which keys the tool writes into an input file, which keys its loader reads, and what the tool's own
   schemas demand; every list below is REGENERATED from manager.py / geometry.py / media.py / ... / schemas/*.json. *)
From Coq Require Import ZArith String List Bool.
From GHE Require Import Base.QUtil gen.Src.
Import ListNotations.
Open Scope string_scope.

Inductive geom := GNearSquare | GRectangle | GBiRectangle | GBiZoned | GConstrained | GRowWise.
Inductive pipe := PSingle | PDoubleParallel | PDoubleSeries | PCoaxial.
(* the shape of a configuration: everything that decides WHICH keys are written (values are covered by the correspondence run) *)
Record shape := { s_geom : geom; s_pipe : pipe; s_max_boreholes : bool; s_continue : bool; s_perimeter : bool }.

Definition all_geoms := [GNearSquare; GRectangle; GBiRectangle; GBiZoned; GConstrained; GRowWise].
Definition all_pipes := [PSingle; PDoubleParallel; PDoubleSeries; PCoaxial].
Definition all_shapes : list shape :=
  flat_map (fun g => flat_map (fun p => flat_map (fun mb => flat_map (fun c => map (fun pr =>
    {| s_geom := g; s_pipe := p; s_max_boreholes := mb; s_continue := c; s_perimeter := pr |}) [true; false]) [true; false]) [true; false]) all_pipes) all_geoms.

Definition mem (x : string) (l : list string) : bool := existsb (String.eqb x) l.
Definition subset (a b : list string) : bool := forallb (fun x => mem x b) a.

(* ---- keys written by GHEManager.write_input_file ---- *)
Definition geom_to_input (g : geom) (perimeter : bool) : list string :=
  match g with
  | GNearSquare => keys_geom_near_square | GRectangle => keys_geom_rectangle | GBiRectangle => keys_geom_bi_rectangle
  | GBiZoned => keys_geom_bi_zoned | GConstrained => keys_geom_bi_rectangle_constrained
  | GRowWise => keys_geom_rowwise ++ (if perimeter then keys_geom_rowwise_if_perimeter else [])
  end.
Definition written_geom (s : shape) : list string := geom_to_input (s_geom s) (s_perimeter s) ++ keys_geo_added.
Definition written_design (s : shape) : list string :=
  keys_design_base ++ keys_des_always ++ (if s_max_boreholes s then keys_des_if_max_boreholes else []) ++ (if s_continue s then keys_des_if_continue else []).
Definition written_pipe (s : shape) : list string :=
  keys_pipe_always ++ (match s_pipe s with PCoaxial => keys_pipe_coaxial | _ => keys_pipe_utube ++ keys_pipe_arrangement end).

(* ---- keys read by manager._run_manager_from_cli_worker ---- *)
Definition loader_geom (g : geom) : list string :=
  loader_geom_always ++ match g with
  | GNearSquare => loader_geom_near_square | GRectangle => loader_geom_rectangle | GBiRectangle => loader_geom_bi_rectangle
  | GBiZoned => loader_geom_bi_zoned | GConstrained => loader_geom_bi_rectangle_constrained | GRowWise => loader_geom_rowwise end.
Definition loader_pipe (p : pipe) : list string :=
  loader_pipe_always ++ match p with PCoaxial => loader_pipe_coaxial | _ => loader_pipe_single end.

(* ---- the tool's schemas ---- *)
Definition schema_geom (g : geom) : list string * list string * bool :=
  match g with
  | GNearSquare => (schema_geom_near_square_properties, schema_geom_near_square_required, schema_geom_near_square_additional)
  | GRectangle => (schema_geom_rectangle_properties, schema_geom_rectangle_required, schema_geom_rectangle_additional)
  | GBiRectangle => (schema_geom_bi_rectangle_properties, schema_geom_bi_rectangle_required, schema_geom_bi_rectangle_additional)
  | GBiZoned => (schema_geom_bi_zoned_properties, schema_geom_bi_zoned_required, schema_geom_bi_zoned_additional)
  | GConstrained => (schema_geom_bi_rectangle_constrained_properties, schema_geom_bi_rectangle_constrained_required, schema_geom_bi_rectangle_constrained_additional)
  | GRowWise => (schema_geom_rowwise_properties, schema_geom_rowwise_required, schema_geom_rowwise_additional)
  end.
Definition schema_pipe (p : pipe) : list string * list string * bool :=
  match p with PCoaxial => (schema_pipe_coaxial_properties, schema_pipe_coaxial_required, schema_pipe_coaxial_additional)
             | _ => (schema_pipe_utube_properties, schema_pipe_utube_required, schema_pipe_utube_additional) end.

(* key-level validity: every required key is written; nothing outside `properties` when additional properties are forbidden *)
Definition keys_valid (written : list string) (sch : list string * list string * bool) : bool :=
  let '(props, req, addl) := sch in subset req written && (addl || subset written props).

Definition shape_valid (s : shape) : bool :=
  keys_valid keys_fluid (schema_fluid_properties, schema_fluid_required, schema_fluid_additional) &&
  keys_valid keys_grout (schema_grout_properties, schema_grout_required, schema_grout_additional) &&
  keys_valid keys_soil (schema_soil_properties, schema_soil_required, schema_soil_additional) &&
  keys_valid keys_borehole (schema_borehole_properties, schema_borehole_required, schema_borehole_additional) &&
  keys_valid keys_simulation (schema_simulation_properties, schema_simulation_required, schema_simulation_additional) &&
  keys_valid (written_design s) (schema_design_properties, schema_design_required, schema_design_additional) &&
  keys_valid (written_pipe s) (schema_pipe (s_pipe s)) &&
  keys_valid (written_geom s) (schema_geom (s_geom s)).

(* the loader finds every key it indexes (no KeyError), and every written key is consumed (nothing is lost on the way back) *)
Definition shape_loadable (s : shape) : bool :=
  subset loader_fluid_kwargs keys_fluid && subset keys_fluid loader_fluid_kwargs &&
  subset loader_grout_kwargs keys_grout && subset keys_grout loader_grout_kwargs &&
  subset loader_soil_kwargs keys_soil && subset keys_soil loader_soil_kwargs &&
  subset loader_borehole keys_borehole && subset keys_borehole loader_borehole &&
  subset loader_sim keys_simulation && subset keys_simulation loader_sim &&
  subset loader_design (written_design s) && subset (written_design s) (loader_design ++ loader_design_optional) &&
  subset (loader_pipe (s_pipe s)) (written_pipe s) && subset (written_pipe s) (loader_pipe (s_pipe s)) &&
  subset (loader_geom (s_geom s)) (written_geom s) &&
  subset (written_geom s) (loader_geom (s_geom s) ++ (match s_geom s with GRowWise => loader_geom_rowwise_optional | _ => [] end)).
