(* Base/QUtil.v — rationals, Python-flavoured helpers used by the generated
   source model (gen/Src.v) and by the hand models.  Definitions only plus the
   small rewriting lemmas that strip the [Qred] normalisation wrappers. *)
From Coq Require Import ZArith QArith Qround Qabs Qminmax Qreduction List Bool Lia Lqa.
Import ListNotations.
Open Scope Q_scope.

(* ---------- arithmetic with normalisation (keeps vm_compute fast) ---------- *)
Definition qadd (a b : Q) : Q := Qred (a + b).
Definition qsub (a b : Q) : Q := Qred (a - b).
Definition qmul (a b : Q) : Q := Qred (a * b).
Definition qdiv (a b : Q) : Q := Qred (a / b).
Definition qneg (a : Q) : Q := - a.

Lemma qadd_eq a b : qadd a b == a + b. Proof. apply Qred_correct. Qed.
Lemma qsub_eq a b : qsub a b == a - b. Proof. apply Qred_correct. Qed.
Lemma qmul_eq a b : qmul a b == a * b. Proof. apply Qred_correct. Qed.
Lemma qdiv_eq a b : qdiv a b == a / b. Proof. apply Qred_correct. Qed.

Global Instance qadd_proper : Proper (Qeq ==> Qeq ==> Qeq) qadd.
Proof. intros a b H c d H'. rewrite !qadd_eq, H, H'. reflexivity. Qed.
Global Instance qsub_proper : Proper (Qeq ==> Qeq ==> Qeq) qsub.
Proof. intros a b H c d H'. rewrite !qsub_eq, H, H'. reflexivity. Qed.
Global Instance qmul_proper : Proper (Qeq ==> Qeq ==> Qeq) qmul.
Proof. intros a b H c d H'. rewrite !qmul_eq, H, H'. reflexivity. Qed.
Global Instance qdiv_proper : Proper (Qeq ==> Qeq ==> Qeq) qdiv.
Proof. intros a b H c d H'. rewrite !qdiv_eq, H, H'. reflexivity. Qed.

Ltac qnorm := rewrite ?qadd_eq, ?qsub_eq, ?qmul_eq, ?qdiv_eq; unfold qneg.
Ltac qnorm_in H := rewrite ?qadd_eq, ?qsub_eq, ?qmul_eq, ?qdiv_eq in H; unfold qneg in H.
Ltac qnorm_all := rewrite ?qadd_eq, ?qsub_eq, ?qmul_eq, ?qdiv_eq in *; unfold qneg in *.

(* ---------- comparisons as booleans ---------- *)
Definition qleb (a b : Q) : bool := Qle_bool a b.
Definition qltb (a b : Q) : bool := negb (Qle_bool b a).
Definition qeqb (a b : Q) : bool := Qeq_bool a b.
Definition qneb (a b : Q) : bool := negb (Qeq_bool a b).

Lemma qleb_spec a b : reflect (a <= b) (qleb a b).
Proof. unfold qleb. destruct (Qle_bool a b) eqn:E; constructor.
  - apply Qle_bool_iff; exact E.
  - intro H. apply Qle_bool_iff in H. congruence. Qed.
Lemma qltb_spec a b : reflect (a < b) (qltb a b).
Proof. unfold qltb. destruct (Qle_bool b a) eqn:E; constructor.
  - apply Qle_bool_iff in E. lra.
  - apply Qnot_le_lt. intro H. apply Qle_bool_iff in H. congruence. Qed.
Lemma qeqb_spec a b : reflect (a == b) (qeqb a b).
Proof. unfold qeqb. destruct (Qeq_bool a b) eqn:E; constructor.
  - apply Qeq_bool_iff; exact E.
  - intro H. apply Qeq_bool_iff in H. congruence. Qed.
Lemma qneb_spec a b : reflect (~ a == b) (qneb a b).
Proof. unfold qneb. destruct (Qeq_bool a b) eqn:E; constructor.
  - intro H. apply H. apply Qeq_bool_iff; exact E.
  - intro H. apply Qeq_bool_iff in H. congruence. Qed.

(* ---------- floor / ceil / mod with Python semantics ---------- *)
Definition qfloor (x : Q) : Q := inject_Z (Qfloor x).
Definition qceil (x : Q) : Q := inject_Z (Qceiling x).
Definition qfloordiv (a b : Q) : Q := qfloor (a / b).
Definition qmod (a b : Q) : Q := qsub a (qmul b (qfloor (a / b))).
Definition qtrunc (x : Q) : Q := if qltb x 0 then qceil x else qfloor x.   (* int() *)
Definition qabs (x : Q) : Q := Qabs x.
Definition qmax (a b : Q) : Q := if qltb a b then b else a.    (* Python max(a,b): first maximal *)
Definition qmin (a b : Q) : Q := if qltb b a then b else a.
Definition qpow (a : Q) (n : Z) : Q := Qred (Qpower a n).

Definition Qnat (q : Q) : nat := Z.to_nat (Qfloor q).
Definition natQ (n : nat) : Q := inject_Z (Z.of_nat n).
Definition ZQ (z : Z) : Q := inject_Z z.

(* ---------- lists, Python style ---------- *)
Class Default (A : Type) := dflt : A.
Global Instance Default_Q : Default Q := 0.
Global Instance Default_Z : Default Z := 0%Z.
Global Instance Default_nat : Default nat := 0%nat.
Global Instance Default_bool : Default bool := false.
Global Instance Default_list A : Default (list A) := [].
Global Instance Default_prod A B `{Default A} `{Default B} : Default (A * B) := (dflt, dflt).

(* l[i] with Python negative indexing; out of range gives the default (Python raises IndexError) *)
Definition nthD {A} `{Default A} (l : list A) (i : Q) : A :=
  if qltb i 0 then nth (length l - Qnat (- i)) l dflt else nth (Qnat i) l dflt.
Definition idx_ok {A} (l : list A) (i : Q) : bool :=
  if qltb i 0 then qleb (- i) (natQ (length l)) else qltb i (natQ (length l)).

(* normalise a slice bound *)
Definition slice_bound (len : nat) (i : Q) : nat :=
  if qltb i 0 then (len - Qnat (- i))%nat else Nat.min (Qnat i) len.
Definition sliceD {A} (l : list A) (a b : Q) : list A :=
  let n := length l in
  let ia := slice_bound n a in let ib := slice_bound n b in
  firstn (ib - ia) (skipn ia l).
Definition slice_from {A} (l : list A) (a : Q) : list A := skipn (slice_bound (length l) a) l.
Definition slice_to {A} (l : list A) (b : Q) : list A := firstn (slice_bound (length l) b) l.

Fixpoint set_nth_nat {A} (n : nat) (l : list A) (x : A) : list A :=
  match l, n with
  | [], _ => []
  | _ :: t, O => x :: t
  | h :: t, S k => h :: set_nth_nat k t x
  end.
Definition set_nthD {A} (l : list A) (i : Q) (x : A) : list A :=
  if qltb i 0 then set_nth_nat (length l - Qnat (- i)) l x else set_nth_nat (Qnat i) l x.

Definition qsum (l : list Q) : Q := fold_left qadd l 0.
Definition qlen {A} (l : list A) : Q := natQ (length l).
Definition qmaxl (l : list Q) : Q := match l with [] => 0 | h :: t => fold_left qmax t h end.
Definition qminl (l : list Q) : Q := match l with [] => 0 | h :: t => fold_left qmin t h end.

(* range(a, b) over integer-valued rationals *)
Definition rangeZ (a b : Z) : list Z := map (fun k => (a + Z.of_nat k)%Z) (seq 0 (Z.to_nat (b - a))).
Definition qrange (a b : Q) : list Q := map inject_Z (rangeZ (Qceiling a) (Qceiling b)).
Definition qenumerate {A} (l : list A) : list (Q * A) := combine (map natQ (seq 0 (length l))) l.
Definition repeatQ {A} (x : A) (n : Q) : list A := repeat x (Qnat n).
Definition list_repeat {A} (l : list A) (n : Q) : list A := concat (repeat l (Qnat n)).    (* Python l * n *)

(* first index of x in l (Python list.index); default 0 when absent (Python raises ValueError) *)
Fixpoint qindex_from (l : list Q) (x : Q) (k : nat) : Q :=
  match l with [] => 0 | h :: t => if qeqb h x then natQ k else qindex_from t x (S k) end.
Definition qindex (l : list Q) (x : Q) : Q := qindex_from l x 0.

(* ---------- Python exceptions as values ---------- *)
Inductive exn := ValueError | IndexError | ZeroDivisionError | TypeError | OutOfFuel.
Inductive result (A : Type) := Ok (a : A) | Err (e : exn).
Arguments Ok {A} a. Arguments Err {A} e.
Definition bind {A B} (r : result A) (f : A -> result B) : result B :=
  match r with Ok a => f a | Err e => Err e end.
Definition exn_eqb (a b : exn) : bool :=
  match a, b with
  | ValueError, ValueError | IndexError, IndexError | ZeroDivisionError, ZeroDivisionError
  | TypeError, TypeError | OutOfFuel, OutOfFuel => true
  | _, _ => false end.

(* approximate equality used by the correspondence files: |a-b| <= tol * max(1,|b|) *)
Definition qclose (tol a b : Q) : bool := qleb (Qabs (a - b)) (tol * (if qltb (Qabs b) 1 then 1 else Qabs b)).
Fixpoint list_eqb {A} (eqb : A -> A -> bool) (l1 l2 : list A) : bool :=
  match l1, l2 with
  | [], [] => true
  | a :: t1, b :: t2 => eqb a b && list_eqb eqb t1 t2
  | _, _ => false
  end.
