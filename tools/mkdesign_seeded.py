#!/usr/bin/env python3
"""rewrite the seeded-changes block of DESIGN.md (between the SEEDED markers) from seeded/RESULTS.json and seeded/FIRST_RUN.json"""
import json, os, re
V = os.path.dirname(os.path.dirname(os.path.abspath(__file__)))
res = json.load(open(os.path.join(V, "seeded", "RESULTS.json")))
first = json.load(open(os.path.join(V, "seeded", "FIRST_RUN.json")))
rows = []
n = c_own = c_other = f1 = 0
for r in res:
    if "error" in r:
        continue
    n += 1
    own = r["checks"].get(r["property"], {})
    caught = own.get("exit") == 1
    others = [k for k, v in r["checks"].items() if k != r["property"] and v["exit"] == 1]
    fr = first.get(r["id"], {})
    f1 += 1 if fr.get("caught_by_own_check_at_first_run") else 0
    c_own += 1 if caught else 0
    c_other += 1 if (not caught and others) else 0
    how = ""
    if caught:
        how = "obligation only" if own["no_failing_input"] == own["violations"] else "failing input"
    now = r["property"] if caught else (", ".join(others) if others else "MISSED")
    rows.append(f"| {r['id']} | {r['summary'][:110].replace('|', '/')} | {'caught' if fr.get('caught_by_own_check_at_first_run') else ('missed' if fr else '')} | {now} | {how} | {fr.get('strengthening', '')[:230]} |")
txt = f"""Sub-agents that were given **only** the text of one property and a scratch worktree wrote {n} changes that break a clause of that
property for specific inputs while the whole test suite still passes; each was confirmed here (demo exits 0 on the unchanged tree and 1
with the change; patch applies to HEAD; full suite passes) and is kept under `seeded/<id>/` (`patch.diff`, `demo.py`, `meta.json`).
`tools/seeded_run.py` applies each one in a scratch worktree and runs the check of its property in an isolated work area
(`VERIF_REPO`, `VERIF_WORK`).  When first tried, {f1} of {n} were caught by the check of their own property; every miss was analysed and the
check strengthened (last column) — never by special-casing the change, always by adding the missing clause, input family or
scenario.  With the current checks {c_own} are caught by the check of their own property{' and ' + str(c_other) + ' by the check of the property whose clause they actually break' if c_other else ''}
(quick tier; details and the violated clause per change in `seeded/INDEX.md`).

| id | change | first run | caught now by | through | strengthened after a miss |
|---|---|---|---|---|---|
""" + "\n".join(rows) + """

Patterns in the misses (and what they say about this family of technique): (1) a **stubbed layer hides the code under it** — the
search correspondence replaces `calculate_excess`, so changes inside it are only visible to end-to-end runs; (2) **a clause the model
does not carry is only as good as its oracle** — duration values (C07), `R_fp` (C15), written-vs-given values (C17) had no oracle at
first; (3) **generators must reach the input class** — thin grout, laminar flow, unsorted height families, negative limits,
non-whole-step rotation windows, one-sided loads; (4) **object identity and process history** — cached state keyed by `id()`, module
level caches, lists aliased in place need scenarios that reuse objects and processes; (5) **the glue around the anchors** (wave 4:
manager, design classes, constructors, loaders, writers) — a check that drives the anchor function directly cannot see a change that
sits in front of it; it took a from-scratch reference built from the requested numbers, reuse scenarios on real managers, design-level
oracles through the public interface and the regenerated call-site lists (section 3.3) to see them.  Two wave-4 changes (C16-m7, C16-m8)
leave the observation point of their property (`point_polygon_check`) untouched and are caught by C04, whose clause they break; one
(C10-m7) is a loader change caught by C17.  One change (C15-m8) exposed a genuine defect of the unchanged tree (F23) because catching it
needed a reference that did not come from the implementation.  Wave 5 (20 changes, ten properties) asked for legal-but-unusual values (exactly 0, integer-typed loads, look-alike option values), the second use of an
object / module / process, combinations of optional features and the reporting side: 3 of 20 were caught at first try.  What it took: the
reference simulation moved into an interpreter of its own (module-level caches with incomplete keys survive in the process and would have been
shared by the reference), fluid properties taken straight from pygfunction, zero-valued and integer-typed inputs, second studies on the same
manager with the same report strings, input files through the command-line worker in sequence, the validator called twice on an edited file, and
an oracle on the Q column of the written time table (which exposed F25; a sub-agent's aside led to F24).  The whole set was also run with other PRNG seeds (`VERIF_SEED=1`, the seed `vp check` uses): three
changes (C04-m5, C10-m6, C14-m4) turned out to be caught by a random draw of the default seed only and each got a directed, seed-independent
input family; thirteen changes that were reported through a broken obligation alone (`no-failing-input-found`) were used to extend the oracles
until ten of them are reported with a concrete failing input.  Changes to *translated* functions are always
caught twice: the regenerated definition no longer satisfies the theorem (broken obligation) and the oracle finds an input.
Wave 6 (session 3; six changes, C05 C07 C11 C15 C16 C20, asked for "a rarely taken branch, a helper, a default, a cache"): one caught at once with a
failing input (C20-m9, a dropped `flow_type` argument behind a new default), two through an obligation only (C05-m9 a tolerance inside `sign`,
C15-m9 memoised conversion inputs), three missed (C07-m9 a cache on the short-time model keyed on `t_s`, C11-m9 a `GFunction` kept and refilled instead of
replaced, C16-m9 `isclose` in the half-open vertex rule).  All six are now reported with a concrete failing input; the additions are the
hair's-breadth excess family, three object-reuse scenarios (second borehole on one short-time model, re-bracketed family on a used GHE, second
conversion of one exchanger) and ulp-level points next to vertex levels, plus the regenerated tests of the ray loop.  The lesson repeats pattern (4):
every one of the reuse misses was an object used twice where the harness had built a fresh one each time.
"""
p = os.path.join(V, "DESIGN.md")
s = open(p).read()
s = re.sub(r"<!-- SEEDED-BEGIN -->.*?<!-- SEEDED-END -->", "<!-- SEEDED-BEGIN -->\n" + txt.replace("\\", "\\\\") + "<!-- SEEDED-END -->", s, flags=re.S)
open(p, "w").write(s)
print(n, f1, c_own, c_other)
