#!/usr/bin/env python3
"""seeded_run.py — run checks against the confirmed seeded changes in /verif/seeded/<id>/.

For every seeded change: a scratch git worktree of /repo (under /tmp, removed afterwards) gets patch.diff applied, the check of
the change's property (and any extra checks named on the command line) runs against it in an isolated work area (VERIF_WORK,
own copy of the Coq tree, evidence and replays — nothing under /verif is touched), and the outcome is recorded in
seeded/RESULTS.json and seeded/INDEX.md.   Equivalent to `git -C /repo apply`, run, `git -C /repo checkout -- .`, but parallel.

usage: tools/seeded_run.py [-j N] [--tier quick|thorough] [--only id,id] [--checks C01,C05 | --all-checks]
"""
import argparse, json, os, shutil, subprocess, sys, time
from concurrent.futures import ThreadPoolExecutor
VERIF = os.path.dirname(os.path.dirname(os.path.abspath(__file__)))
SEEDED = os.environ.get("SEEDED_DIR") or os.path.join(VERIF, "seeded")


def sh(cmd, env=None, timeout=7200, cwd=None):
    e = dict(os.environ)
    if env:
        e.update(env)
    p = subprocess.run(cmd, shell=True, capture_output=True, text=True, env=e, timeout=timeout, cwd=cwd)
    return p.returncode, p.stdout + p.stderr


def run_one(sid, checks, tier):
    d = os.path.join(SEEDED, sid)
    meta = json.load(open(os.path.join(d, "meta.json")))
    wt = f"/tmp/sw_{sid}"
    wk = f"/tmp/vw_{sid}"
    sh(f"git -C /repo worktree remove --force {wt}; rm -rf {wt} {wk}")
    rc, out = sh(f"git -C /repo worktree add -q --detach {wt} HEAD && git -C {wt} apply {os.path.join(d, 'patch.diff')}")
    res = {"id": sid, "property": meta["property"], "summary": meta.get("summary", ""), "checks": {}}
    if rc != 0:
        res["error"] = "patch does not apply: " + out[-300:]
    else:
        for c in checks or [meta["property"]]:
            t0 = time.time()
            rc, out = sh(f"./vcheck {c} {tier}", env={"VERIF_REPO": wt, "VERIF_WORK": wk}, cwd=VERIF)
            vio = [l for l in out.splitlines() if l.startswith("VIOLATION")]
            what = []
            for l in vio[:4]:
                try:
                    rp = l.split("replay=")[1].split()[0]
                    pl = json.load(open(rp))
                    what.append((pl.get("required") or "")[:160] + (" | broken: " + str(pl.get("broken_obligation"))[:200] if pl.get("broken_obligation") else ""))
                except Exception:
                    pass
            res["checks"][c] = {"exit": rc, "violations": len(vio), "no_failing_input": sum(1 for l in vio if l.rstrip().endswith("no-failing-input-found")),
                                "required": what, "wall_s": round(time.time() - t0, 1),
                                "summary_line": next((l for l in reversed(out.splitlines()) if l.startswith("[")), out[-200:])}
    sh(f"git -C /repo worktree remove --force {wt}; rm -rf {wt} {wk}; git -C /repo worktree prune")
    return res


def main():
    ap = argparse.ArgumentParser()
    ap.add_argument("-j", type=int, default=4)
    ap.add_argument("--tier", default="quick")
    ap.add_argument("--only", default="")
    ap.add_argument("--checks", default="")
    ap.add_argument("--all-checks", action="store_true")
    a = ap.parse_args()
    ids = sorted(x for x in os.listdir(SEEDED) if os.path.isfile(os.path.join(SEEDED, x, "meta.json")))
    if a.only:
        ids = [i for i in ids if i in a.only.split(",")]
    checks = [f"C{k:02d}" for k in range(1, 21)] if a.all_checks else [c for c in a.checks.split(",") if c]
    with ThreadPoolExecutor(max_workers=a.j) as ex:
        results = list(ex.map(lambda s: run_one(s, checks, a.tier), ids))
    rp = os.path.join(SEEDED, "RESULTS.json")
    old = {}
    if os.path.exists(rp):
        old = {r["id"]: r for r in json.load(open(rp))}
    for r in results:
        if r["id"] in old and not a.all_checks and "error" not in r:      # merge per-check outcomes
            merged = old[r["id"]]
            merged.setdefault("checks", {}).update(r["checks"])
            merged.pop("error", None)
            r = merged
        old[r["id"]] = r
    allr = [old[k] for k in sorted(old) if os.path.isdir(os.path.join(SEEDED, k))]
    json.dump(allr, open(rp, "w"), indent=1)
    first = {}
    fp = os.path.join(SEEDED, "FIRST_RUN.json")
    if os.path.exists(fp):
        first = json.load(open(fp))
    lines = ["# Seeded changes and the checks that catch them", "",
             "Each row: a confirmed property-breaking change written by a sub-agent that saw only the property text (applies to /repo HEAD, the whole test",
             "suite still passes, demo.py exits 1 with it and 0 without).  `first run` = outcome of the property's own quick check when the change was",
             "first tried; `now` = outcome with the current checks.  `input` = a concrete failing input was found on the implementation, `obligation` = only a",
             "broken proof / translator / correspondence was reported (no-failing-input-found).", "",
             "| id | property | change | first run | now | how it is caught now | what was strengthened after a miss |", "|---|---|---|---|---|---|---|"]
    for r in allr:
        own = r.get("checks", {}).get(r["property"])
        if "error" in r:
            lines.append(f"| {r['id']} | {r['property']} | {r['summary'][:120]} | | ERROR {r['error'][:80]} | | |")
            continue
        caught = own and own["exit"] == 1 and own["violations"] > 0
        how = ""
        if caught:
            how = "obligation" if own["no_failing_input"] == own["violations"] else "input"
            if own["required"]:
                how += ": " + own["required"][0][:150].replace("|", "/")
        others = [c for c, v in r.get("checks", {}).items() if c != r["property"] and v["exit"] == 1]
        fr = first.get(r["id"], {})
        f1 = "" if not fr else ("caught" if fr.get("caught_by_own_check_at_first_run") else "MISSED")
        now = ("**" + r["property"] + "**") if caught else ("by " + ", ".join(others) if others else "MISSED")
        lines.append(f"| {r['id']} | {r['property']} | {r['summary'][:170].replace('|', '/')} | {f1} | {now} | {how} | {fr.get('strengthening', '')} |")
    n = sum(1 for r in allr if "error" not in r)
    c = sum(1 for r in allr if "error" not in r and r.get("checks", {}).get(r["property"], {}).get("exit") == 1)
    o = sum(1 for r in allr if "error" not in r and r.get("checks", {}).get(r["property"], {}).get("exit") != 1 and any(v["exit"] == 1 for k, v in r.get("checks", {}).items() if k != r["property"]))
    f1c = sum(1 for r in allr if first.get(r["id"], {}).get("caught_by_own_check_at_first_run"))
    lines += ["", f"{n} confirmed changes; {f1c} were caught by the check of their own property when first tried; now {c} are caught by it"
              f"{' and ' + str(o) + ' more by the check of the property whose clause they break' if o else ''} ({a.tier} tier)."]
    open(os.path.join(SEEDED, "INDEX.md"), "w").write("\n".join(lines) + "\n")
    for r in results:
        print(r["id"], {c: (v["exit"], v["violations"]) for c, v in r.get("checks", {}).items()}, r.get("error", ""))


if __name__ == "__main__":
    main()
