"""e2e.py — run real GHEDesigner designs from a configuration in the tool's own input-file format.
Used as a library by the other drivers and as a command: payload {"configs":[cfg,...], "outdir": optional}.
cfg["loads"] may be {"ground_loads":[...]} or {"synthetic": {"kind":..., "scale":..., "seed":...}}."""
from common import *
import math, random, tempfile, time, shutil
from pathlib import Path


def synthetic_loads(spec):
    kind = spec.get("kind", "balanced")
    scale = float(spec.get("scale", 20000.0))
    rnd = random.Random(int(spec.get("seed", 1)))
    out = []
    phase = rnd.random() * 0.3
    for h in range(8760):
        day = h / 24.0
        hour = h % 24
        season = math.cos(2 * math.pi * (day / 365.0 + phase * 0.1))      # +1 mid-winter
        daily = 0.6 + 0.4 * math.cos(2 * math.pi * (hour - 15) / 24.0)
        if kind == "balanced":
            v = season * daily
        elif kind == "heating":
            v = max(0.0, 0.3 + 0.7 * season) * daily
        elif kind == "cooling":
            v = -max(0.0, 0.3 - 0.7 * season) * daily
        elif kind == "spiky":
            v = 0.3 * season * daily
            if h % 731 == 17:
                v += 1.5 if season > 0 else -1.5
        elif kind == "constant":
            v = float(spec.get("sign", 1.0)) * 0.5
        elif kind == "mixed_days":
            # heating at night, cooling in the afternoon, every day: both peaks often on the same day
            v = (0.8 * season + 0.5) * (1.0 if hour < 8 else 0.0) - (0.6 - 0.5 * season) * (1.0 if 12 <= hour < 18 else 0.0)
        elif kind == "switch":
            # extraction until the end of month `sw`, rejection afterwards: a direction vanishes exactly at a month boundary
            sw = int(spec.get("switch_month", 4))
            cum = [0, 744, 1416, 2160, 2880, 3624, 4344, 5088, 5832, 6552, 7296, 8016, 8760]
            v = (0.4 + 0.3 * daily) if h < cum[sw] else -(0.4 + 0.3 * daily)
        else:
            raise ValueError("unknown synthetic kind " + kind)
        if v != 0.0:
            v *= 1.0 + 0.04 * (rnd.random() - 0.5)      # multiplicative noise: exact zeros stay zero
        out.append(round(v * scale, 3))
    flm = int(spec.get("first_loaded_month", 1))
    if flm > 1:
        cum_ = [0, 744, 1416, 2160, 2880, 3624, 4344, 5088, 5832, 6552, 7296, 8016, 8760]
        out = [0.0] * cum_[flm - 1] + out[cum_[flm - 1]:]       # no load at all in the first months of the year
    sh = int(spec.get("shift_hours", 0))
    if sh:
        out = out[-sh:] + out[:-sh]              # the same year of loads started `shift_hours` later (same length, same annual total)
    for h0, v in spec.get("spikes", []):
        out[int(h0)] = float(v)
    if spec.get("as_int"):
        # whole numbers of watts given as Python ints (a JSON file without decimal points), not multiples of 1000
        out = [int(round(x)) + (1 if int(round(x)) % 1000 == 0 and x != 0 else 0) for x in out]
    return out


def materialise(cfg):
    """replace a synthetic load spec by the hourly list (returns a copy in the tool's input format)"""
    c = json.loads(json.dumps(cfg))
    ld = c.get("loads", {})
    if "synthetic" in ld:
        c["loads"] = {"ground_loads": synthetic_loads(ld["synthetic"])}
    return c


def make_manager(c):
    """mirror of manager._run_manager_from_cli_worker's loading path through the public setters"""
    from ghedesigner.manager import GHEManager
    return configure(GHEManager(), c)


def configure(g, c, only=None, design=True):
    """the public setters, in the command-line order, on a manager that may have been configured (and used) before.
    only = a section name: just the setter(s) of that section of the input are called (followed by set_design)."""
    from ghedesigner.enums import BHPipeType, DesignGeomType
    gc = dict(c["geometric_constraints"])
    dz = c["design"]

    def do(sec):
        return only is None or only == sec
    if do("fluid"):
        g.set_fluid(**c["fluid"])
    if do("grout"):
        g.set_grout(**c["grout"])
    if do("soil"):
        g.set_soil(**c["soil"])
    if do("pipe"):
        pp = dict(c["pipe"])
        arr = pp.pop("arrangement")
        g.set_pipe_type(arr)
        if g.pipe_type == BHPipeType.SINGLEUTUBE:
            g.set_single_u_tube_pipe(**pp)
        elif g.pipe_type == BHPipeType.DOUBLEUTUBEPARALLEL:
            g.set_double_u_tube_pipe_parallel(**pp)
        elif g.pipe_type == BHPipeType.DOUBLEUTUBESERIES:
            g.set_double_u_tube_pipe_series(**pp)
        else:
            g.set_coaxial_pipe(**pp)
    if do("borehole"):
        g.set_borehole(height=c.get("_nominal_height", gc["max_height"]), buried_depth=c["borehole"]["buried_depth"],
                       diameter=c["borehole"]["diameter"])
    if do("loads"):
        g.set_ground_loads_from_hourly_list(c["loads"]["ground_loads"])
    if do("simulation") or do("design"):
        g.set_simulation_parameters(num_months=c["simulation"]["num_months"], max_eft=dz["max_eft"], min_eft=dz["min_eft"],
                                    max_height=gc["max_height"], min_height=gc["min_height"],
                                    max_boreholes=dz.get("max_boreholes"),
                                    continue_if_design_unmet=dz.get("continue_if_design_unmet", False))
    if do("geometric_constraints"):
        if only is not None:          # heights live in the same section of the input
            g.set_simulation_parameters(num_months=c["simulation"]["num_months"], max_eft=dz["max_eft"], min_eft=dz["min_eft"],
                                        max_height=gc["max_height"], min_height=gc["min_height"],
                                        max_boreholes=dz.get("max_boreholes"),
                                        continue_if_design_unmet=dz.get("continue_if_design_unmet", False))
        g.set_design_geometry_type(gc["method"])
        m = g.geom_type
        if m == DesignGeomType.RECTANGLE:
            g.set_geometry_constraints_rectangle(length=gc["length"], width=gc["width"], b_min=gc["b_min"], b_max=gc["b_max"])
        elif m == DesignGeomType.NEARSQUARE:
            g.set_geometry_constraints_near_square(b=gc["b"], length=gc["length"])
        elif m == DesignGeomType.BIRECTANGLE:
            g.set_geometry_constraints_bi_rectangle(length=gc["length"], width=gc["width"], b_min=gc["b_min"],
                                                    b_max_x=gc["b_max_x"], b_max_y=gc["b_max_y"])
        elif m == DesignGeomType.BIZONEDRECTANGLE:
            g.set_geometry_constraints_bi_zoned_rectangle(length=gc["length"], width=gc["width"], b_min=gc["b_min"],
                                                          b_max_x=gc["b_max_x"], b_max_y=gc["b_max_y"])
        elif m == DesignGeomType.BIRECTANGLECONSTRAINED:
            g.set_geometry_constraints_bi_rectangle_constrained(b_min=gc["b_min"], b_max_x=gc["b_max_x"], b_max_y=gc["b_max_y"],
                                                                property_boundary=gc["property_boundary"],
                                                                no_go_boundaries=gc["no_go_boundaries"])
        else:
            g.set_geometry_constraints_rowwise(perimeter_spacing_ratio=gc.get("perimeter_spacing_ratio"),
                                               max_spacing=gc["max_spacing"], min_spacing=gc["min_spacing"],
                                               spacing_step=gc["spacing_step"], max_rotation=gc["max_rotation"],
                                               min_rotation=gc["min_rotation"], rotate_step=gc["rotate_step"],
                                               property_boundary=gc["property_boundary"],
                                               no_go_boundaries=gc["no_go_boundaries"])
    if design:
        g.set_design(flow_rate=dz["flow_rate"], flow_type_str=dz["flow_type"])
    return g


def reference_simulation(c, coords, height):
    """the returned field at the returned height, simulated from the REQUESTED inputs through the low-level classes only
    (GHEFluid / Pipe / Soil / Grout / GHEBorehole / calc_g_func_for_multiple_lengths / GHE): nothing of the manager, the design
    object or the search is reused, so a value lost, swapped or kept from an earlier call on the way in shows up here"""
    from ghedesigner.borehole import GHEBorehole
    from ghedesigner.enums import BHPipeType, TimestepType
    from ghedesigner.gfunction import calc_g_func_for_multiple_lengths
    from ghedesigner.ground_heat_exchangers import GHE
    from ghedesigner.media import GHEFluid, Grout, Pipe, Soil
    from ghedesigner.simulation import SimulationParameters
    from ghedesigner.utilities import borehole_spacing, eskilson_log_times
    fl, gr, so, pp, bh, gc, dz = c["fluid"], c["grout"], c["soil"], dict(c["pipe"]), c["borehole"], c["geometric_constraints"], c["design"]
    fluid = GHEFluid(fluid_str=fl["fluid_name"], percent=fl["concentration_percent"], temperature=fl.get("temperature", 20))
    # the property tables asked for by name, concentration and temperature, straight from pygfunction (own name -> mixture code map)
    import pygfunction as _gt
    _code = {"WATER": "WATER", "PROPYLENEGLYCOL": "MPG", "ETHYLENEGLYCOL": "MEG", "METHYLALCOHOL": "MMA", "ETHYLALCOHOL": "MEA"}[fl["fluid_name"].upper()]
    _pf = _gt.media.Fluid(_code, fl["concentration_percent"], fl.get("temperature", 20))
    fluid_indep = {"rho": float(_pf.rho), "mu": float(_pf.mu), "cp": float(_pf.cp), "k": float(_pf.k)}
    fluid_used = {"rho": float(fluid.rho), "mu": float(fluid.mu), "cp": float(fluid.cp), "k": float(fluid.k)}
    grout = Grout(gr["conductivity"], gr["rho_cp"])
    soil = Soil(so["conductivity"], so["rho_cp"], so["undisturbed_temp"])
    arr = pp.pop("arrangement").upper()
    if arr == "COAXIAL":
        bt = BHPipeType.COAXIAL
        pipe = Pipe((0, 0), [pp["inner_pipe_d_in"] / 2.0, pp["inner_pipe_d_out"] / 2.0], [pp["outer_pipe_d_in"] / 2.0, pp["outer_pipe_d_out"] / 2.0], 0,
                    pp["roughness"], [pp["conductivity_inner"], pp["conductivity_outer"]], pp["rho_cp"])
    else:
        bt = {"SINGLEUTUBE": BHPipeType.SINGLEUTUBE, "DOUBLEUTUBEPARALLEL": BHPipeType.DOUBLEUTUBEPARALLEL, "DOUBLEUTUBESERIES": BHPipeType.DOUBLEUTUBESERIES}[arr]
        n = 1 if arr == "SINGLEUTUBE" else 2
        ro = pp["outer_diameter"] / 2.0
        pipe = Pipe(Pipe.place_pipes(pp["shank_spacing"], ro, n), pp["inner_diameter"] / 2.0, ro, pp["shank_spacing"], pp["roughness"], pp["conductivity"], pp["rho_cp"])
    # built at the maximum height, as every candidate is (the hybrid loads belong to the construction height); the long-time family for
    # the sizing window is then computed for this field and the returned height is set, exactly as the last steps of a design do
    borehole = GHEBorehole(gc["max_height"], bh["buried_depth"], bh["diameter"] / 2.0, 0.0, 0.0)
    nbh = len(coords)
    v = dz["flow_rate"]
    v_sys = v * nbh if dz["flow_type"].upper() == "BOREHOLE" else v
    m_bh = v_sys / nbh / 1000.0 * fluid.rho
    sp = SimulationParameters(1, c["simulation"]["num_months"], dz["max_eft"], dz["min_eft"], gc["max_height"], gc["min_height"])
    b = borehole_spacing(borehole, coords)
    gfn = calc_g_func_for_multiple_lengths(b, [borehole.H], borehole.r_b, borehole.D, m_bh, bt, eskilson_log_times(), coords, fluid, pipe, grout, soil)
    ghe = GHE(v_sys, b, bt, fluid, borehole, pipe, grout, soil, gfn, sp, [float(x) for x in c["loads"]["ground_loads"]])
    ghe.compute_g_functions()
    ghe.bhe.b.H = height
    mx, mn = ghe.simulate(method=TimestepType.HYBRID)
    gf, gb = ghe.grab_g_function(ghe.B_spacing / float(height))
    hl = ghe.hybrid_load
    return {"max": float(mx), "min": float(mn), "excess": float(max(mx - dz["max_eft"], dz["min_eft"] - mn)), "m_flow_borehole": float(m_bh),
            "hybrid_axis_end_h": float(hl.hour[-1]),
            "gfunc": {"x": [float(v) for v in gf.x], "y": [float(v) for v in gf.y]},
            "durations": {"cl": [float(v) for v in hl.monthly_peak_cl_duration[:13]], "hl": [float(v) for v in hl.monthly_peak_hl_duration[:13]]},
            "monthly": {"cl": [float(v) for v in hl.monthly_cl[:13]], "hl": [float(v) for v in hl.monthly_hl[:13]],
                        "pcl": [float(v) for v in hl.monthly_peak_cl[:13]], "phl": [float(v) for v in hl.monthly_peak_hl[:13]]},
            "hp_eft_head": [float(v) for v in ghe.hp_eft[:40]], "fluid_from_pygfunction": fluid_indep, "fluid_of_the_reference": fluid_used,
            "soil_ugt": float(soil.ugt)}


def reference_in_fresh_process(c, coords, height):
    """reference_simulation in an interpreter of its own: nothing that an earlier design left in this process (module-level tables, class
    attributes, caches) can reach it"""
    import subprocess, tempfile
    with tempfile.NamedTemporaryFile("w", suffix=".json", delete=False) as f:
        json.dump({"mode": "reference", "cfg": {k: v for k, v in c.items() if not k.startswith("_")}, "coords": [list(p) for p in coords], "height": height}, f)
        path = f.name
    try:
        with open(path) as fin:
            p = subprocess.run([sys.executable, os.path.abspath(__file__)], stdin=fin, capture_output=True, text=True, timeout=1500,
                               env=dict(os.environ))
        if p.returncode != 0:
            raise RuntimeError("reference process failed: " + p.stderr[-300:])
        return json.loads(p.stdout.strip().splitlines()[-1])
    finally:
        os.unlink(path)


def summarise(g, with_series=False):
    s = g._search
    ghe = s.ghe
    out = {
        "nbh": len(ghe.gFunction.bore_locations),
        "H": ghe.bhe.b.H,
        "coords": [[float(x), float(y)] for x, y in ghe.gFunction.bore_locations],
        "max_eft": max(ghe.hp_eft), "min_eft": min(ghe.hp_eft),
        "search_tracker": s.searchTracker,
        "field_type": ghe.fieldType,
        "m_flow_borehole": ghe.bhe.m_flow_borehole,
        "fluid_rho": float(ghe.bhe.fluid.rho),
        "fluid_props": {"rho": float(ghe.bhe.fluid.rho), "mu": float(ghe.bhe.fluid.mu), "cp": float(ghe.bhe.fluid.cp), "k": float(ghe.bhe.fluid.k)},
        "soil_ugt": float(ghe.bhe.soil.ugt),
        "selected_coords": ([[float(x), float(y)] for x, y in s.selected_coordinates] if getattr(s, "selected_coordinates", None) is not None else None),
        "simulated_months": int(ghe.sim_params.end_month - ghe.sim_params.start_month + 1),
        "durations": {"cl": [float(v) for v in ghe.hybrid_load.monthly_peak_cl_duration[:13]], "hl": [float(v) for v in ghe.hybrid_load.monthly_peak_hl_duration[:13]]},
        "monthly": {"cl": [float(v) for v in ghe.hybrid_load.monthly_cl[:13]], "hl": [float(v) for v in ghe.hybrid_load.monthly_hl[:13]],
                    "pcl": [float(v) for v in ghe.hybrid_load.monthly_peak_cl[:13]], "phl": [float(v) for v in ghe.hybrid_load.monthly_peak_hl[:13]]},
        "hybrid_axis_end_h": float(ghe.hybrid_load.hour[-1]),
        "rb": ghe.bhe.calc_effective_borehole_resistance(),
    }
    if hasattr(s, "coordinates_domain"):
        try:
            out["domain_counts"] = [len(x) for x in s.coordinates_domain]
        except Exception:
            pass
    sp = ghe.sim_params
    out["limits"] = {"max_eft": sp.max_EFT_allowable, "min_eft": sp.min_EFT_allowable, "max_height": sp.max_height,
                     "min_height": sp.min_height, "max_boreholes": sp.max_boreholes, "cont": sp.continue_if_design_unmet}
    if hasattr(s, "calculated_temperatures"):
        out["calculated_temperatures"] = {str(k): v for k, v in s.calculated_temperatures.items()}
    try:
        gf, gb = ghe.grab_g_function(ghe.B_spacing / float(ghe.bhe.b.H))
        out["gfunc"] = {"x": [float(v) for v in gf.x], "y": [float(v) for v in gf.y], "ybhw": [float(v) for v in gb.y]}
    except Exception as ex:
        out["gfunc_error"] = str(ex)
    if with_series:
        out["hp_eft"] = list(ghe.hp_eft)
        out["times"] = [float(t) for t in ghe.times]
    return out


def run(cfg, outdir=None, with_series=False):
    c = materialise(cfg)
    t0 = time.time()
    res = {"ok": False}
    try:
        if c.get("_first_configured_with"):
            # the same manager object used for an earlier study (other values), then configured again for this one
            first = json.loads(json.dumps(c))
            for sec, kv in c["_first_configured_with"].items():
                if sec == "loads" and "synthetic" in kv:
                    first["loads"] = {"ground_loads": synthetic_loads(kv["synthetic"])}
                else:
                    first[sec].update(kv)
            g = make_manager(first)
            try:
                g.find_design()
                import tempfile as _tf
                g.prepare_results("verif", "note", "verif", "it")          # the same project name / notes / author / iteration as the study that follows
                g.write_output_files(Path(_tf.mkdtemp(prefix="verif_first_")))
            except ValueError:
                pass
            configure(g, c)
        elif c.get("_changed_after_design"):
            # the manager was completely set up (design object created, optionally a design found) with OTHER values in one section of the
            # input; then only that section is set again, to the requested values, and set_design is called again
            sec = c["_changed_after_design"]["section"]
            first = json.loads(json.dumps(c))
            if sec == "loads":
                first["loads"] = {"ground_loads": synthetic_loads(c["_changed_after_design"]["values"]["synthetic"])}
            else:
                first[sec].update(c["_changed_after_design"]["values"])
            g = make_manager(first)
            if c["_changed_after_design"].get("design_found_first"):
                try:
                    g.find_design()
                except ValueError:
                    pass
            configure(g, c, only=sec)
        elif c.get("_set_after_design_without_set_design"):
            # complete set-up (set_design included) with OTHER values in one section; then only that section's setter is called with the
            # requested values and find_design follows directly — set_design is NOT called again
            sec = c["_set_after_design_without_set_design"]["section"]
            first = json.loads(json.dumps(c))
            first[sec].update(c["_set_after_design_without_set_design"]["values"])
            g = make_manager(first)
            configure(g, c, only=sec, design=False)
        elif c.get("_design_first_set_with"):
            # set_design was called before with another flow specification; only set_design is called again (no other setter)
            first = json.loads(json.dumps(c))
            first["design"].update(c["_design_first_set_with"])
            g = make_manager(first)
            g.set_design(flow_rate=c["design"]["flow_rate"], flow_type_str=c["design"]["flow_type"])
        else:
            g = make_manager(c)
        g.find_design()
        res = summarise(g, with_series)
        res["ok"] = True
        if c.get("_hourly_before_write"):
            # a user of the API who looks at the hourly temperatures of the design before writing the results
            from ghedesigner.enums import TimestepType as _T
            g._search.ghe.simulate(method=_T.HOURLY)
        if c.get("_hourly_then_hybrid_before_write"):
            # ... and then simulates the design with the hybrid method again before writing
            from ghedesigner.enums import TimestepType as _T2
            g._search.ghe.simulate(method=_T2.HOURLY)
            g._search.ghe.simulate(method=_T2.HYBRID)
        if outdir:
            g.prepare_results("verif", "note", "verif", "it")
            g.write_output_files(Path(outdir), c.get("_suffix", ""))
            res["outdir"] = outdir
            res["suffix"] = c.get("_suffix", "")
            res["summary_nbh"] = g.results.output_dict["ghe_system"]["number_of_boreholes"]
        # re-simulate the returned object at the returned height (what C01/C05/C12 observe)
        from ghedesigner.enums import TimestepType
        ghe = g._search.ghe
        mx, mn = ghe.simulate(method=TimestepType.HYBRID)
        res["resim_max"], res["resim_min"] = mx, mn
        res["resim_excess"] = ghe.cost(mx, mn)
        res["hp_eft_head"] = [float(v) for v in ghe.hp_eft[:40]]
        try:
            res["reference"] = reference_in_fresh_process(c, [tuple(p) for p in res["coords"]], float(res["H"]))
        except Exception as ex_:
            res["reference_error"] = f"{type(ex_).__name__}: {str(ex_)[:200]}"
        # the candidate just before the selected one, evaluated afresh at the maximum height (C05: it must fail there);
        # through initialize_ghe + simulate, not through the search's own calculate_excess / calculated_temperatures
        s = g._search
        dom = getattr(s, "coordinates_domain", None)
        if dom and c["geometric_constraints"]["method"].upper() in ("NEARSQUARE", "RECTANGLE", "BIRECTANGLE"):
            locs = res["coords"]
            idx = next((i for i, f in enumerate(dom) if len(f) == len(locs) and
                        all(abs(float(a[0]) - b[0]) < 1e-9 and abs(float(a[1]) - b[1]) < 1e-9 for a, b in zip(f, locs))), None)
            res["selected_index"] = idx
            if idx is not None and idx >= 1:
                s.initialize_ghe(dom[idx - 1], s.sim_params.max_height)
                pmx, pmn = s.ghe.simulate(method=s.method)
                res["pred_excess_at_hmax"] = s.ghe.cost(pmx, pmn)
                res["pred_nbh"] = len(dom[idx - 1])
    except Exception as ex:  # the exception class is part of what several properties observe
        res = {"ok": False, "exc": type(ex).__name__, "msg": str(ex)[:300]}
        g = None
    res["wall"] = round(time.time() - t0, 2)
    return res, g


def make_manager_permuted(c, order_seed):
    """the same configuration through the public setters in another admissible order"""
    import random as _r
    from ghedesigner.manager import GHEManager
    from ghedesigner.enums import BHPipeType
    g = GHEManager()
    gc = dict(c["geometric_constraints"])
    dz = c["design"]
    pp = dict(c["pipe"])
    arr = pp.pop("arrangement")

    def set_pipe():
        g.set_pipe_type(arr)
        if g.pipe_type == BHPipeType.SINGLEUTUBE:
            g.set_single_u_tube_pipe(**pp)
        elif g.pipe_type == BHPipeType.DOUBLEUTUBEPARALLEL:
            g.set_double_u_tube_pipe_parallel(**pp)
        elif g.pipe_type == BHPipeType.DOUBLEUTUBESERIES:
            g.set_double_u_tube_pipe_series(**pp)
        else:
            g.set_coaxial_pipe(**pp)

    def set_geom():
        tmp = make_geom(g, gc)
    steps = [lambda: g.set_fluid(**c["fluid"]), lambda: g.set_grout(**c["grout"]), lambda: g.set_soil(**c["soil"]), set_pipe,
             lambda: g.set_borehole(height=c.get("_nominal_height", gc["max_height"]), buried_depth=c["borehole"]["buried_depth"], diameter=c["borehole"]["diameter"]),
             lambda: g.set_ground_loads_from_hourly_list(c["loads"]["ground_loads"]),
             lambda: g.set_simulation_parameters(num_months=c["simulation"]["num_months"], max_eft=dz["max_eft"], min_eft=dz["min_eft"],
                                                 max_height=gc["max_height"], min_height=gc["min_height"], max_boreholes=dz.get("max_boreholes"),
                                                 continue_if_design_unmet=dz.get("continue_if_design_unmet", False)),
             set_geom]
    _r.Random(order_seed).shuffle(steps)
    for st in steps:
        st()
    g.set_design(flow_rate=dz["flow_rate"], flow_type_str=dz["flow_type"])
    return g


def make_geom(g, gc):
    from ghedesigner.enums import DesignGeomType
    g.set_design_geometry_type(gc["method"])
    m = g.geom_type
    if m == DesignGeomType.RECTANGLE:
        g.set_geometry_constraints_rectangle(length=gc["length"], width=gc["width"], b_min=gc["b_min"], b_max=gc["b_max"])
    elif m == DesignGeomType.NEARSQUARE:
        g.set_geometry_constraints_near_square(b=gc["b"], length=gc["length"])
    elif m == DesignGeomType.BIRECTANGLE:
        g.set_geometry_constraints_bi_rectangle(length=gc["length"], width=gc["width"], b_min=gc["b_min"], b_max_x=gc["b_max_x"], b_max_y=gc["b_max_y"])
    elif m == DesignGeomType.BIZONEDRECTANGLE:
        g.set_geometry_constraints_bi_zoned_rectangle(length=gc["length"], width=gc["width"], b_min=gc["b_min"], b_max_x=gc["b_max_x"], b_max_y=gc["b_max_y"])
    elif m == DesignGeomType.BIRECTANGLECONSTRAINED:
        g.set_geometry_constraints_bi_rectangle_constrained(b_min=gc["b_min"], b_max_x=gc["b_max_x"], b_max_y=gc["b_max_y"],
                                                            property_boundary=gc["property_boundary"], no_go_boundaries=gc["no_go_boundaries"])
    else:
        g.set_geometry_constraints_rowwise(perimeter_spacing_ratio=gc.get("perimeter_spacing_ratio"), max_spacing=gc["max_spacing"], min_spacing=gc["min_spacing"],
                                           spacing_step=gc["spacing_step"], max_rotation=gc["max_rotation"], min_rotation=gc["min_rotation"],
                                           rotate_step=gc["rotate_step"], property_boundary=gc["property_boundary"], no_go_boundaries=gc["no_go_boundaries"])


def result_key(g, outdir=None):
    """everything a user can observe of a design, for bit-for-bit comparison"""
    s = summarise(g, with_series=True)
    key = {"nbh": s["nbh"], "H": s["H"], "coords": s["coords"], "hp_eft": s["hp_eft"], "tracker": s["search_tracker"]}
    if outdir:
        g.prepare_results("verif", "note", "verif", "it")
        g.write_output_files(Path(outdir))
        files = {}
        for fn in ("BoreFieldData.csv", "Loadings.csv", "Gfunction.csv", "TimeDependentValues.csv"):
            files[fn] = (Path(outdir) / fn).read_text()
        js = json.loads((Path(outdir) / "SimulationSummary.json").read_text())
        js.pop("simulation_time_stamp", None)
        js.pop("simulation_runtime", None)
        files["SimulationSummary.json"] = json.dumps(js, sort_keys=True)
        key["files"] = files
    return key


def run_history(c):
    """metamorphic histories for C13: all must give the result of the canonical fresh run"""
    import tempfile
    cfg = materialise(c["cfg"])
    other = materialise(c["other"]) if c.get("other") else None
    tmp = tempfile.mkdtemp(prefix="verif_c13_")
    out = {}
    try:
        if c.get("similar_first"):
            # the FIRST design of this process has the same fields, heights and flow but other grout / pipe conductivities;
            # the check compares the design that follows with the same configuration run in a process of its own
            sim0 = json.loads(json.dumps(cfg))
            sim0["grout"]["conductivity"] = cfg["grout"]["conductivity"] * 2.0
            for kk in ("conductivity", "conductivity_inner", "conductivity_outer"):
                if kk in sim0["pipe"]:
                    sim0["pipe"][kk] = sim0["pipe"][kk] * 1.5
            gs0 = make_manager(sim0)
            try:
                gs0.find_design()
            except ValueError:
                pass
        g0 = make_manager(cfg)
        g0.find_design()
        base = result_key(g0, os.path.join(tmp, "base"))
        out["base"] = {"nbh": base["nbh"], "H": base["H"]}
        variants = {}
        only = c.get("variants")
        if only is not None:
            # a reduced history (expensive design methods): only the named variants
            if "set_design_twice" in only:
                g5 = make_manager(cfg)
                g5.set_design(flow_rate=cfg["design"]["flow_rate"], flow_type_str=cfg["design"]["flow_type"])
                g5.find_design()
                variants["set_design_twice"] = result_key(g5, os.path.join(tmp, "v6"))
            if "repeat_same_manager" in only:
                g0.find_design()
                variants["repeat_same_manager"] = result_key(g0, os.path.join(tmp, "v1"))
            diffs = {}
            for name, v in variants.items():
                d = [k for k in ("nbh", "H", "coords", "hp_eft", "tracker") if v[k] != base[k]]
                d += [fn for fn in base["files"] if v["files"][fn] != base["files"][fn]]
                diffs[name] = d
                if d:
                    out.setdefault("detail", {})[name] = {"nbh": v["nbh"], "H": v["H"]}
            out["diffs"] = diffs
            out["ok"] = True
            return out
        # 1. repeat the search on the same manager
        g0.find_design()
        variants["repeat_same_manager"] = result_key(g0, os.path.join(tmp, "v1"))
        # 2. rebuild the manager
        g1 = make_manager(cfg)
        g1.find_design()
        variants["rebuilt_manager"] = result_key(g1, os.path.join(tmp, "v2"))
        # 3. permuted setter order
        g2 = make_manager_permuted(cfg, c.get("order_seed", 7))
        g2.find_design()
        variants["permuted_setters"] = result_key(g2, os.path.join(tmp, "v3"))
        # 4. another nominal borehole height
        g3 = make_manager(dict(cfg, _nominal_height=c.get("nominal", 77.7)))
        g3.find_design()
        variants["other_nominal_height"] = result_key(g3, os.path.join(tmp, "v4"))
        # 5. another design earlier in the same process
        if other:
            go = make_manager(other)
            try:
                go.find_design()
            except ValueError:
                pass
            g4 = make_manager(cfg)
            g4.find_design()
            variants["after_other_design"] = result_key(g4, os.path.join(tmp, "v5"))
        # 5b. earlier in the same process, the SAME fields, heights and flow with other thermal properties (grout, pipe conductivity)
        sim = json.loads(json.dumps(cfg))
        sim["grout"]["conductivity"] = cfg["grout"]["conductivity"] * 2.0
        for kk in ("conductivity", "conductivity_inner", "conductivity_outer"):
            if kk in sim["pipe"]:
                sim["pipe"][kk] = sim["pipe"][kk] * 1.5
        gs = make_manager(sim)
        try:
            gs.find_design()
        except ValueError:
            pass
        g4b = make_manager(cfg)
        g4b.find_design()
        variants["after_similar_design_other_grout"] = result_key(g4b, os.path.join(tmp, "v5b"))
        # 5c. an input corrected after set_design, then set_design again with the same flow (soil conductivity first entered wrongly)
        wrong = json.loads(json.dumps(cfg))
        wrong["soil"]["conductivity"] = cfg["soil"]["conductivity"] * 0.6
        g4c = make_manager(wrong)
        g4c.set_soil(**cfg["soil"])
        g4c.set_design(flow_rate=cfg["design"]["flow_rate"], flow_type_str=cfg["design"]["flow_type"])
        g4c.find_design()
        variants["input_corrected_then_set_design_again"] = result_key(g4c, os.path.join(tmp, "v5c"))
        # 5d. a manager used for another study first (other horizon, other limits), then configured again for this one
        study1 = json.loads(json.dumps(cfg))
        study1["simulation"]["num_months"] = 12 if cfg["simulation"]["num_months"] != 12 else 36
        study1["design"]["max_eft"] = cfg["design"]["max_eft"] - 3.0
        g4d = make_manager(study1)
        try:
            g4d.find_design()
        except ValueError:
            pass
        configure(g4d, cfg)
        g4d.find_design()
        variants["manager_reconfigured_after_another_study"] = result_key(g4d, os.path.join(tmp, "v5d"))
        # 6. set_design called twice, find_design after re-setting the design
        g5 = make_manager(cfg)
        g5.set_design(flow_rate=cfg["design"]["flow_rate"], flow_type_str=cfg["design"]["flow_type"])
        g5.find_design()
        variants["set_design_twice"] = result_key(g5, os.path.join(tmp, "v6"))
        diffs = {}
        for name, v in variants.items():
            d = [k for k in ("nbh", "H", "coords", "hp_eft", "tracker") if v[k] != base[k]]
            d += [fn for fn in base["files"] if v["files"][fn] != base["files"][fn]]
            diffs[name] = d
            if d:
                out.setdefault("detail", {})[name] = {"nbh": v["nbh"], "H": v["H"]}
        out["diffs"] = diffs
        out["ok"] = True
    except Exception as ex:
        import traceback
        out = {"ok": False, "exc": type(ex).__name__, "msg": traceback.format_exc()[-500:]}
    finally:
        shutil.rmtree(tmp, ignore_errors=True)
    return out


def run_cli_sequence(cfgs):
    """several input files run one after the other through the command-line worker in ONE process (what a batch script importing the
    package does); returns what each run wrote"""
    import tempfile, shutil, io, contextlib
    import ghedesigner.manager as M
    tmp = Path(tempfile.mkdtemp(prefix="verif_cliseq_"))
    out = []
    try:
        for i, cfg in enumerate(cfgs):
            c = materialise(cfg)
            ip = tmp / f"in{i}.json"
            ip.write_text(json.dumps({k: v for k, v in c.items() if not k.startswith("_")}))
            od = tmp / f"out{i}"
            err = io.StringIO()
            try:
                with contextlib.redirect_stderr(err), contextlib.redirect_stdout(err):
                    rc = M._run_manager_from_cli_worker(ip, od)
                r = {"rc": rc}
            except Exception as ex:      # the class is part of the observation
                r = {"exc": type(ex).__name__, "msg": str(ex)[:160]}
            sp = od / "SimulationSummary.json"
            if sp.exists():
                d = json.loads(sp.read_text())
                gs = d["ghe_system"]
                r.update({"nbh": gs["number_of_boreholes"], "H": gs["active_borehole_length"]["value"], "field_specifier": gs.get("field_specifier"),
                          "max": d["simulation_results"]["max_hp_eft"]["value"], "min": d["simulation_results"]["min_hp_eft"]["value"],
                          "borefield": (od / "BoreFieldData.csv").read_text(),
                          "time_column": [float(l.split(",")[0]) for l in (od / "TimeDependentValues.csv").read_text().splitlines()[1:]]})
            out.append(r)
    finally:
        shutil.rmtree(tmp, ignore_errors=True)
    return out


if __name__ == "__main__":
    p = read_payload()
    if p.get("mode") == "reference":
        emit(reference_simulation(p["cfg"], [tuple(x) for x in p["coords"]], float(p["height"])))
        sys.exit(0)
    if p.get("mode") == "cli_sequence":
        emit([run_cli_sequence(seq) for seq in p["sequences"]])
        sys.exit(0)
    if p.get("mode") == "history":
        emit([run_history(c) for c in p["cases"]])
        sys.exit(0)
    outs = []
    for i, cfg in enumerate(p["configs"]):
        od = None
        if p.get("outdir"):
            od = os.path.join(p["outdir"], f"run{i}")
        r, _ = run(cfg, od, p.get("with_series", False))
        outs.append(r)
    emit(outs)
