"""domains_drv.py — real domains.py generators on Fraction or float inputs.
payload {"cases":[{"fn": name, "args":[[num,den]...], "float": bool}]} -> per field fingerprints + property facts"""
from common import *
import math
from ghedesigner import domains as D


def fingerprint(field):
    field = [(Fraction(p[0]), Fraction(p[1])) for p in field]     # coordinates.py mixes float 0.0 literals into exact inputs
    n = len(field)
    sx = sum(p[0] for p in field)
    sy = sum(p[1] for p in field)
    sxx = sum(p[0] * p[0] for p in field)
    syy = sum(p[1] * p[1] for p in field)
    sxy = sum(p[0] * p[1] for p in field)
    return [n] + [unfr(v) for v in (sx, sy, sxx, syy, sxy, field[0][0], field[0][1], field[-1][0], field[-1][1])] if n else [0]


def facts(field):
    """bbox, min squared pairwise distance (exact), duplicates"""
    if not any(isinstance(v, float) and v != 0.0 for p in field for v in p):
        field = [(Fraction(p[0]), Fraction(p[1])) for p in field]
    xs = [p[0] for p in field]
    ys = [p[1] for p in field]
    md = None
    n = len(field)
    # grid hashing is unnecessary at these sizes (<= ~400 points)
    for i in range(n):
        xi, yi = field[i]
        for j in range(i + 1, n):
            d = (xi - field[j][0]) ** 2 + (yi - field[j][1]) ** 2
            if md is None or d < md:
                md = d
    return {"n": n, "xmin": unfr(min(xs)), "xmax": unfr(max(xs)), "ymin": unfr(min(ys)), "ymax": unfr(max(ys)),
            "mind2": unfr(md) if md is not None else None}


if __name__ == "__main__":
    p = read_payload()
    out = []
    for c in p["cases"]:
        flt = c.get("float", False)
        args = [(float(fr(a)) if flt else (fr(a) if fr(a).denominator != 1 or c["fn"] != "square_and_near_square" else int(fr(a)))) for a in c["args"]]
        if c["fn"] == "square_and_near_square":
            args = [int(fr(c["args"][0])), int(fr(c["args"][1])), (float(fr(c["args"][2])) if flt else fr(c["args"][2]))]
        try:
            dom, desc = getattr(D, c["fn"])(*args)
            nested = dom if c["fn"] in ("bi_rectangle_nested", "bi_rectangle_zoned_nested") else [dom]
            o = {"ok": True, "fp": ([[fingerprint(f) for f in l] for l in nested] if not flt else [])}
            if c.get("facts", True):
                o["facts"] = [[facts(f) for f in l] for l in nested]
            o["ndesc"] = [len(d) for d in (desc if c["fn"] in ("bi_rectangle_nested", "bi_rectangle_zoned_nested") else [desc])]
            out.append(o)
        except Exception as ex:
            out.append({"ok": False, "exc": type(ex).__name__, "msg": str(ex)[:200]})
    emit(out)
