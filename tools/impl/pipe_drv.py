"""pipe_drv.py — real to_single() of double U-tube / coaxial / single U-tube exchangers (C15)"""
from common import *
from math import pi


def run_case(c):
    from ghedesigner.borehole import GHEBorehole
    from ghedesigner.borehole_heat_exchangers import MultipleUTube, CoaxialPipe, SingleUTube
    from ghedesigner.enums import DoubleUTubeConnType
    from ghedesigner.media import GHEFluid, Grout, Pipe, Soil
    fluid = GHEFluid(c.get("fluid", "water"), c.get("conc", 0.0))
    b = GHEBorehole(c["H"], 2.0, c["rb"], 0.0, 0.0)
    soil = Soil(c["ks"], 2.3e6, 15.0)
    grout = Grout(c["kg"], 3.9e6)
    kind = c["kind"]
    if kind in ("dp", "ds"):
        pipe = Pipe(Pipe.place_pipes(c["s"], c["ro"], 2), c["ri"], c["ro"], c["s"], 1e-6, c["kp"], 1.54e6)
        bhe = MultipleUTube(c["m"], fluid, b, pipe, grout, soil, config=DoubleUTubeConnType.PARALLEL if kind == "dp" else DoubleUTubeConnType.SERIES)
        vf, vp, rc, rp = bhe.u_tube_volumes()
    elif kind == "cx":
        if c.get("via_manager"):
            # the pipe object as the public interface builds it from the user's numbers
            from ghedesigner.manager import GHEManager
            g = GHEManager()
            g.set_coaxial_pipe(inner_pipe_d_in=2 * c["r_ii"], inner_pipe_d_out=2 * c["r_io"], outer_pipe_d_in=2 * c["r_oi"], outer_pipe_d_out=2 * c["r_oo"], roughness=1e-6,
                               conductivity_inner=c.get("kp_in", c["kp"]), conductivity_outer=c.get("kp_out", c["kp"]), rho_cp=1.54e6)
            pipe = g._pipe
        else:
            pipe = Pipe((0, 0), [c["r_ii"], c["r_io"]], [c["r_oi"], c["r_oo"]], 0, 1e-6, [c.get("kp_in", c["kp"]), c.get("kp_out", c["kp"])], 1.54e6)
        bhe = CoaxialPipe(c["m"], fluid, b, pipe, grout, soil)
        vf, vp, rc, rp = bhe.concentric_tube_volumes()
        # the film coefficient at the inner surface of the OUTER pipe (where the fluid of the annulus meets the wall that faces the grout),
        # straight from pygfunction for the requested numbers
        import pygfunction as gt
        h_in_wall, h_out_wall = gt.pipes.convective_heat_transfer_coefficient_concentric_annulus(
            c["m"], c["r_io"], c["r_oi"], fluid.mu, fluid.rho, fluid.k, fluid.cp, 1e-6)
        extra = {"h_outer_wall": float(h_out_wall), "h_inner_wall": float(h_in_wall), "R_fp_orig": float(bhe.R_fp)}
    else:
        pipe = Pipe(Pipe.place_pipes(c["s"], c["ro"], 1), c["ri"], c["ro"], c["s"], 1e-6, c["kp"], 1.54e6)
        bhe = SingleUTube(c["m"], fluid, b, pipe, grout, soil)
        eq = bhe.to_single()
        return {"ok": True, "identity": eq is bhe}
    if kind != "cx":
        # film coefficient of one tube for the requested numbers, straight from pygfunction: two U-tubes in parallel share the borehole's
        # flow, two in series carry all of it
        import pygfunction as gt
        m_pipe = c["m"] / 2.0 if kind == "dp" else c["m"]
        h_ind = gt.pipes.convective_heat_transfer_coefficient_circular_pipe(m_pipe, c["ri"], fluid.mu, fluid.rho, fluid.k, fluid.cp, 1e-6)
        extra = {"R_fp_orig": float(bhe.R_fp), "h_tube": float(h_ind)}
    Rb = float(bhe.calc_effective_borehole_resistance())
    eq = bhe.to_single()
    Rb2 = float(eq.calc_effective_borehole_resistance())
    reuse = {}
    if c.get("reuse_m"):
        # the same exchanger object taken to another operating point the way the library itself updates one (set the attribute, recompute the
        # fluid-to-pipe resistance, refresh the multipole resistances), converted again, and compared with a freshly built exchanger at that point
        m2 = c["reuse_m"]
        bhe.m_flow_borehole = m2
        if kind in ("dp", "ds"):
            bhe.m_flow_pipe = bhe.calc_mass_flow_pipe(m2, DoubleUTubeConnType.PARALLEL if kind == "dp" else DoubleUTubeConnType.SERIES)
            bhe.calc_fluid_pipe_resistance()
            bhe.update_thermal_resistances(bhe.R_fp)
        else:
            bhe.calc_fluid_pipe_resistance()
            bhe.update_thermal_resistances(bhe.R_ff, bhe.R_fp)
        eq2 = bhe.to_single()
        fresh = run_case({k: v for k, v in c.items() if k != "reuse_m"} | {"m": m2})
        reuse = {"reuse": {"eq_R_fp": float(eq2.R_fp), "eq_k_pipe": float(eq2.pipe.k), "eq_r_in": float(eq2.pipe.r_in), "R_fp_orig": float(bhe.R_fp),
                           "fresh_eq_R_fp": fresh.get("eq_R_fp"), "fresh_eq_k_pipe": fresh.get("eq_k_pipe"), "fresh_R_fp_orig": fresh.get("R_fp_orig")}}
    return {**reuse, "ok": True, "vf": float(vf), "vp": float(vp), "rc": float(rc), "rp": float(rp), "Rb": Rb, "Rb_eq": Rb2,
            "eq_r_in": float(eq.pipe.r_in), "eq_r_out": float(eq.pipe.r_out), "eq_k_pipe": float(eq.pipe.k), "eq_k_grout": float(eq.grout.k),
            "eq_R_fp": float(eq.R_fp), "eq_R_p": float(eq.R_p), "eq_rb": float(eq.b.r_b), "k_grout_orig": c["kg"], **extra}


if __name__ == "__main__":
    p = read_payload()
    res = []
    for c in p["cases"]:
        try:
            res.append(run_case(c))
        except Exception as ex:
            import traceback
            res.append({"ok": False, "exc": type(ex).__name__, "msg": traceback.format_exc()[-300:]})
    emit(res)
