"""hybrid.py — drive the real HybridLoad.
payload {"inject":[{"months":N, "cl":[13 fr], "hl":..., "pcl":..., "phl":..., "dcl":..., "dhl":..., "daycl":..., "dayhl":...}],
         "profiles":[{"months":N, "loads": synthetic-spec | list}]}"""
from common import *
import math
import numpy as np
from fractions import Fraction
from ghedesigner.ground_loads import HybridLoad, first_month_hour, last_month_hour, monthdays


def run_inject(c):
    h = object.__new__(HybridLoad)
    h.start_month = c.get("start", 1)
    h.end_month = c["months"]
    h.years = [2019]
    h.peak_retain_start = 12
    h.peak_retain_end = 12
    conv = (lambda x: fr(x)) if not c.get("float") else (lambda x: float(fr(x)))
    h.monthly_cl = [conv(x) for x in c["cl"]]
    h.monthly_hl = [conv(x) for x in c["hl"]]
    h.monthly_peak_cl = [conv(x) for x in c["pcl"]]
    h.monthly_peak_hl = [conv(x) for x in c["phl"]]
    h.monthly_peak_cl_duration = [conv(x) for x in c["dcl"]]
    h.monthly_peak_hl_duration = [conv(x) for x in c["dhl"]]
    h.monthly_peak_cl_day = [int(fr(x)) for x in c["daycl"]]
    h.monthly_peak_hl_day = [int(fr(x)) for x in c["dayhl"]]
    h.load = np.array(0)
    h.hour = np.array(0)
    h.step_func_load = np.array(0)
    try:
        h.process_month_loads()
        return {"ok": True, "load": [unfr(x) for x in h.load.tolist()], "hour": [unfr(x) for x in h.hour.tolist()],
                "n_cl": len(h.monthly_cl)}
    except Exception as ex:
        return {"ok": False, "exc": type(ex).__name__, "msg": str(ex)[:200]}


_bhe = None


_parts = {}


def parts(grout_rhocp=3901000.0):
    """one borehole + short-time model per grout heat capacity (same soil, height and R_b*: only the short-time response differs)"""
    if grout_rhocp not in _parts:
        from ghedesigner.borehole import GHEBorehole
        from ghedesigner.borehole_heat_exchangers import SingleUTube
        from ghedesigner.media import GHEFluid, Grout, Pipe, Soil
        from ghedesigner.radial_numerical_borehole import RadialNumericalBH
        pipe = Pipe(Pipe.place_pipes(0.01856, 0.02108, 1), 0.01702, 0.02108, 0.01856, 1e-6, 0.4, 1542000.0)
        soil = Soil(2.0, 2343493.0, 18.3)
        grout = Grout(1.0, grout_rhocp)
        fluid = GHEFluid("water", 0.0)
        b = GHEBorehole(100.0, 2.0, 0.075, 0.0, 0.0)
        bhe = SingleUTube(0.5, fluid, b, pipe, grout, soil)
        rn = RadialNumericalBH(bhe)
        rn.calc_sts_g_functions(bhe)
        _parts[grout_rhocp] = (bhe, rn)
    return _parts[grout_rhocp]


def run_profile(c):
    from ghedesigner.simulation import SimulationParameters
    import e2e
    loads = c["loads"] if isinstance(c["loads"], list) else e2e.synthetic_loads(c["loads"])
    for (h0, v) in c.get("spikes", []):
        loads[h0] = v
    bhe, rn = parts(c.get("grout_rhocp", 3901000.0))
    sp = SimulationParameters(1, c["months"], 35, 5, 135, 60)
    if c.get("reuse_rn"):
        # ONE short-time model object serving two boreholes in turn (same height and soil, hence the same t_s; another grout conductivity): a
        # hybrid load is built for the first, the short-time response is recomputed for the second, and the hybrid load under test is built then
        from ghedesigner.borehole import GHEBorehole
        from ghedesigner.borehole_heat_exchangers import SingleUTube
        from ghedesigner.media import GHEFluid, Grout, Pipe, Soil
        from ghedesigner.radial_numerical_borehole import RadialNumericalBH

        def mk(kg):
            pipe = Pipe(Pipe.place_pipes(0.01856, 0.02108, 1), 0.01702, 0.02108, 0.01856, 1e-6, 0.4, 1542000.0)
            return SingleUTube(0.5, GHEFluid("water", 0.0), GHEBorehole(100.0, 2.0, 0.075, 0.0, 0.0), pipe, Grout(kg, 3901000.0), Soil(2.0, 2343493.0, 18.3))
        bhe_a, bhe = mk(c["reuse_rn"][0]), mk(c["reuse_rn"][1])
        rn = RadialNumericalBH(bhe_a)
        rn.calc_sts_g_functions(bhe_a)
        HybridLoad(list(loads), bhe_a, rn, sp)
        rn.calc_sts_g_functions(bhe)
    import warnings as w
    with w.catch_warnings(record=True) as ws:
        w.simplefilter("always")
        try:
            h = HybridLoad(loads, bhe, rn, sp)
        except Exception as ex:
            return {"ok": False, "exc": type(ex).__name__, "msg": str(ex)[:200]}
    rej = [abs(x) / 1000.0 if x < 0 else 0.0 for x in loads]
    ext = [x / 1000.0 if x >= 0 else 0.0 for x in loads]
    return {"ok": True, "load": [float(x) for x in h.load], "hour": [float(x) for x in h.hour],
            "cl": h.monthly_cl, "hl": h.monthly_hl, "pcl": h.monthly_peak_cl, "phl": h.monthly_peak_hl,
            "dcl": [float(x) for x in h.monthly_peak_cl_duration], "dhl": [float(x) for x in h.monthly_peak_hl_duration],
            "daycl": h.monthly_peak_cl_day, "dayhl": h.monthly_peak_hl_day,
            "acl": [float(x) for x in h.monthly_avg_cl], "ahl": [float(x) for x in h.monthly_avg_hl], "days_in_month": [int(x) for x in h.days_in_month],
            "raw": [float(x) for x in loads],
            "warnings": len(ws), "rej_sum": sum(rej), "ext_sum": sum(ext),
            "hourly_rej_month": [sum(rej[a:b]) for a, b in month_slices()],
            "hourly_ext_month": [sum(ext[a:b]) for a, b in month_slices()],
            "hourly_rej_peak": [max(rej[a:b]) for a, b in month_slices()],
            "hourly_ext_peak": [max(ext[a:b]) for a, b in month_slices()],
            "hourly_rej_peak_day": [rej[a:b].index(max(rej[a:b])) // 24 for a, b in month_slices()],
            "hourly_ext_peak_day": [ext[a:b].index(max(ext[a:b])) // 24 for a, b in month_slices()],
            "two_day_cl": h.two_day_hourly_peak_cl_loads, "two_day_hl": h.two_day_hourly_peak_hl_loads,
            # what the duration's defining equation needs: the hourly series, the short-time response at lags 1..48 h, R_b*, 2 pi k
            "rej": rej, "ext": ext,
            "kernel": [float(rn.g_sts(math.log(k * 3600.0 / rn.t_s))) for k in range(1, 49)],
            "rb": float(bhe.calc_effective_borehole_resistance()), "two_pi_k": 2 * math.pi * bhe.soil.k}


def month_slices():
    days = [31, 28, 31, 30, 31, 30, 31, 31, 30, 31, 30, 31]
    out, a = [], 0
    for d in days:
        out.append((a, a + 24 * d))
        a += 24 * d
    return out


if __name__ == "__main__":
    p = read_payload()
    out = {"inject": [run_inject(c) for c in p.get("inject", [])],
           "profiles": [run_profile(c) for c in p.get("profiles", [])],
           "calendar": [[m, first_month_hour(m, [2019]), last_month_hour(m, [2019]), monthdays(m, 2019)] for m in p.get("calendar", [])],
           "calendar_leap": [[m, first_month_hour(m, [2020]), last_month_hour(m, [2020]), monthdays(m, 2020)] for m in p.get("calendar", [])],
           "calendar_multi": [first_month_hour(25, [2019, 2019, 2020]), last_month_hour(24, [2019, 2019, 2020])]}
    emit(out)
