"""rowsearch_stub.py — the REAL search_routines.RowWiseModifiedBisectionSearch.search with table oracles (C01/C02).
The field generator, the excess temperature and the sizing are replaced by deterministic functions of the target spacing /
of the number of boreholes kept; everything the search decides (branches, bisections, sweep, selection, specifier) is real code.
case: {"start","stop","step": dyadic floats, "cont": bool, "max_iter": int,
       "gen": {"a","b","noise":[...]} -> excess(spacing) = a + b*spacing + noise[k], count(spacing), drill(spacing);
       "single": float, "sub": {"need": k, "noise": [...]} -> excess of the sparsest field reduced to k boreholes}"""
from common import *
import types
from fractions import Fraction


def run_case(c):
    import ghedesigner.search_routines as sr
    S = sr.RowWiseModifiedBisectionSearch
    s = object.__new__(S)
    gc = types.SimpleNamespace(min_spacing=c["start"], max_spacing=c["stop"], spacing_step=c["step"], rotate_step=5.0,
                               property_boundary=[[0, 0], [100, 0], [100, 100], [0, 100]], no_go_boundaries=[],
                               min_rotation=-5.0, max_rotation=0.0, perimeter_spacing_ratio=None)
    s.geometricConstraints = gc
    s.sim_params = types.SimpleNamespace(max_height=135.0, min_height=60.0, continue_if_design_unmet=c["cont"], max_boreholes=None)
    s.max_iter = c.get("max_iter", 10)
    s.advanced_tracking = [["TargetSpacing", "Field Specifier", "nbh", "ExcessTemperature"]]
    s.checkedFields = []
    s.searchTracker = []
    s.disp = False
    queried = {}

    def facts(sp):
        """deterministic oracle of the field generated for a target spacing"""
        f = Fraction(sp)
        key = f"{f.numerator}/{f.denominator}"
        g = c["gen"]
        k = int(f * 8) % len(g["noise"])
        exc = g["a"] + g["b"] * float(f) + g["noise"][k]
        n = max(2, int(g["n0"] / float(f)))
        drill = float(n) * (60.0 + 70.0 * ((int(f * 8) * 37) % 11) / 11.0)
        queried[key] = {"spacing": [f.numerator, f.denominator], "excess": exc, "count": n, "drill": drill}
        return key, exc, n, drill

    def gen(spacing, rotate_step, prop_bound, ng_zones=None, rotate_start=None, rotate_stop=None, **kw):
        key, exc, n, drill = facts(spacing)
        # distinct distances from the first point (no ties in the proximity sort)
        field = [[float(i) * float(spacing) + 0.01 * i * i, 0.0] for i in range(n)]
        return field, "G" + key
    trace = []

    def calc(coords, h, field_specifier="N/A"):
        trace.append(field_specifier)
        if field_specifier == "1X1":
            t = c["single"]
        elif "_BR" in field_specifier:
            k = len(coords)
            sub = c["sub"]
            t = (sub["need"] - k) + 0.5 + sub["noise"][k % len(sub["noise"])]
        else:
            key = field_specifier[1:]
            t = queried[key]["excess"]
        s.searchTracker.append([field_specifier, t, 0.0, 0.0])
        return t

    class _G:
        def __init__(self, H):
            self.bhe = types.SimpleNamespace(b=types.SimpleNamespace(H=H))

        def compute_g_functions(self):
            pass

        def size(self, method=None):
            pass

    def init_ghe(coords, h, field_specifier="N/A"):
        key = field_specifier[1:] if field_specifier.startswith("G") and "_BR" not in field_specifier else None
        H = (queried[key]["drill"] / len(coords)) if key in queried else h
        s.ghe = _G(H)
    real_gen = sr.field_optimization_fr
    sr.field_optimization_fr = gen
    s.calculate_excess = calc
    s.initialize_ghe = init_ghe
    try:
        try:
            coords, spec = s.search()
            out = {"ok": True, "spec": spec, "n": (len(coords) if coords is not None else None), "none": coords is None}
        except Exception as ex:
            out = {"ok": False, "exc": type(ex).__name__, "msg": str(ex)[:120]}
    finally:
        sr.field_optimization_fr = real_gen
    out["trace"] = trace
    out["table"] = list(queried.values())
    return out


if __name__ == "__main__":
    p = read_payload()
    emit([run_case(c) for c in p["cases"]])
