"""search_stub.py — drive the REAL Bisection1D.search / Bisection2D / BisectionZD with a table oracle.
payload {"cases":[{kind:"1d"|"2d"|"zd", cnt|nested, cap, cont, max_iter, tmin, tmax, (drill)}]}
tables hold [num,den] pairs; for 2d/zd they are nested per list."""
from common import *
import io, contextlib
import ghedesigner.search_routines as sr
from ghedesigner.simulation import SimulationParameters
from ghedesigner.enums import TimestepType

HMIN, HMAX = 50.0, 100.0


def field(n, tag):
    return [(float(i), float(tag)) for i in range(n)]


def hname(h):
    return "Hmin" if h == HMIN else ("Hmax" if h == HMAX else f"H={h}")


def run1d(c):
    cnt = c["cnt"]
    dom = [field(n, i) for i, n in enumerate(cnt)]
    tmin = [fr(x) for x in c["tmin"]]
    tmax = [fr(x) for x in c["tmax"]]
    s = object.__new__(sr.Bisection1D)
    s.coordinates_domain = dom
    s.fieldDescriptors = [str(i) for i in range(len(dom))]
    s.sim_params = SimulationParameters(1, 12, 35, 5, HMAX, HMIN, c.get("cap"), c.get("cont", False))
    s.max_iter = c.get("max_iter", 15)
    s.disp = False
    s.searchTracker = []
    s.calculated_temperatures = {}
    ids = {id(f): i for i, f in enumerate(dom)}
    trace, init = [], []

    def ce(coords, h, field_specifier="N/A"):
        i = ids[id(coords)]
        trace.append([i, hname(h)])
        init[:] = [i, hname(h)]
        return (tmin if h == HMIN else tmax)[i]

    def ig(coords, h, field_specifier="N/A"):
        init[:] = [ids[id(coords)], hname(h)]

    s.calculate_excess = ce
    s.initialize_ghe = ig
    out = {}
    try:
        with contextlib.redirect_stdout(io.StringIO()):
            k, coords = s.search()
        out = {"ok": True, "sel": k, "init": list(init), "trace": trace, "coords_is_sel": coords is dom[k],
               "calc": {str(a): unfr(b) for a, b in s.calculated_temperatures.items()}}
    except Exception as ex:
        out = {"ok": False, "exc": type(ex).__name__, "trace": trace}
    return out


class _B:
    pass


def run_nested(c, cls):
    nested_cnt = c["nested"]
    nested = [[field(n, 1000 * li + p) for p, n in enumerate(l)] for li, l in enumerate(nested_cnt)]
    tmin = [[fr(x) for x in l] for l in c["tmin"]]
    tmax = [[fr(x) for x in l] for l in c["tmax"]]
    drill = [[fr(x) for x in l] for l in c.get("drill", [])]
    ids = {}
    for li, l in enumerate(nested):
        for p, f in enumerate(l):
            ids[id(f)] = (li, p)
    fd = [[f"{li}_{p}" for p, _ in enumerate(l)] for li, l in enumerate(nested)]
    segs = []          # list of traces, one per search() call
    state = {"cur": None, "init": None}
    orig_init = sr.Bisection1D.__init__
    orig_search = sr.Bisection1D.search

    def fake_init(self, coordinates_domain, field_descriptors, *a, **k):
        self.searchTracker = []
        self.calculated_temperatures = {}
        self.sim_params = SimulationParameters(1, 12, 35, 5, HMAX, HMIN, c.get("cap"), c.get("cont", False))
        self.max_iter = c.get("max_iter", 15)
        self.disp = False
        self.coordinates_domain = coordinates_domain
        self.fieldDescriptors = field_descriptors

    def traced_search(self):
        segs.append([])
        return orig_search(self)

    class FakeGHE:
        def __init__(self):
            self.bhe = _B()
            self.bhe.b = _B()
            self.bhe.b.H = None

        def compute_g_functions(self):
            pass

        def size(self, method):
            li, p = state["cur"]
            # drill table holds nbh*H; recover H exactly
            self.bhe.b.H = drill[li][p] / len(nested[li][p])

    def ce(self, coords, h, field_specifier="N/A"):
        li, p = ids[id(coords)]
        segs[-1].append([li, p, hname(h)])
        state["cur"] = (li, p)
        state["init"] = [li, p, hname(h)]
        self.ghe = FakeGHE()
        return (tmin if h == HMIN else tmax)[li][p]

    def ig(self, coords, h, field_specifier="N/A"):
        state["cur"] = ids[id(coords)]
        state["init"] = [state["cur"][0], state["cur"][1], hname(h)]
        self.ghe = FakeGHE()

    sr.Bisection1D.__init__ = fake_init
    sr.Bisection1D.search = traced_search
    cls.calculate_excess = ce
    cls.initialize_ghe = ig
    try:
        with contextlib.redirect_stdout(io.StringIO()):
            z = cls(nested, fd, 1.0, None, None, None, None, None, None, None, None, method=TimestepType.HYBRID,
                    flow_type=None)
        li, p = ids[id(z.selected_coordinates)]
        out = {"ok": True, "sel": z.selection_key, "sel_list": li, "sel_pos": p, "init": state["init"], "segs": segs}
        if cls is sr.BisectionZD:
            out["H"] = unfr(z.ghe.bhe.b.H) if z.ghe.bhe.b.H is not None else None
            out["heights"] = {str(k): unfr(v) for k, v in z.calculated_heights.items()}
    except Exception as ex:
        out = {"ok": False, "exc": type(ex).__name__, "segs": segs}
    finally:
        sr.Bisection1D.__init__ = orig_init
        sr.Bisection1D.search = orig_search
        for n in ("calculate_excess", "initialize_ghe"):
            if n in cls.__dict__:
                delattr(cls, n)
    return out


if __name__ == "__main__":
    p = read_payload()
    outs = []
    for c in p["cases"]:
        if c["kind"] == "1d":
            outs.append(run1d(c))
        elif c["kind"] == "2d":
            outs.append(run_nested(c, sr.Bisection2D))
        else:
            outs.append(run_nested(c, sr.BisectionZD))
    emit(outs)
