"""rowwise_drv.py — real rowwise.field_optimization_fr / distribute / gen_borehole_config with a wall-clock limit (C14).
Non-terminating calls also grow memory: every case runs in a forked child with a CPU and address-space limit."""
from common import *
import math, os, resource, signal, multiprocessing as mp


def _work(c, conn):
    try:
        resource.setrlimit(resource.RLIMIT_AS, (3 * 1024 ** 3, 3 * 1024 ** 3))
        from ghedesigner.rowwise import field_optimization_fr, field_optimization_wp_space_fr, gen_shape, distribute, gen_borehole_config
        from ghedesigner.constants import DEG_TO_RAD
        if c["mode"] == "distribute":
            r = {}
            distribute(list(c["x1"]), list(c["x2"]), c["spacing"], r, c.get("rotate", 0.0))
            conn.send({"ok": True, "pts": [[float(a), float(b)] for a, b in r.values()]})
            return
        pb, ng = gen_shape(c["poly"], c.get("nogo"))
        if c["mode"] == "config":
            f = gen_borehole_config(pb, c["spacing"], c["spacing"], no_go=ng if c.get("nogo") else None, rotate=c.get("rotate", 0.0) * DEG_TO_RAD)
            conn.send({"ok": True, "pts": [[float(a), float(b)] for a, b in f]})
            return
        if c["mode"] == "sweep_counts":
            # the sweep exactly as field_optimization_fr walks it (radians, accumulated)
            from ghedesigner.constants import RAD_TO_DEG
            counts, tried = [], []
            rt = c["rot_start"] * DEG_TO_RAD
            stop = c["rot_stop"] * DEG_TO_RAD
            while rt < stop:
                f = gen_borehole_config(pb, c["spacing"], c["spacing"], rotate=rt, no_go=ng if c.get("nogo") else None, intersection_tolerance=1e-5)
                counts.append(len(f))
                tried.append(rt * RAD_TO_DEG)
                rt += c["rot_step"] * DEG_TO_RAD
            conn.send({"ok": True, "counts": counts, "tried": tried})
            return
        if c.get("perimeter") is not None:
            f, name = field_optimization_wp_space_fr(c["perimeter"], c["spacing"], c["rot_step"], pb, ng_zones=ng, rotate_start=c["rot_start"] * DEG_TO_RAD, rotate_stop=c["rot_stop"] * DEG_TO_RAD)
        else:
            f, name = field_optimization_fr(c["spacing"], c["rot_step"], pb, ng_zones=ng, rotate_start=c["rot_start"] * DEG_TO_RAD, rotate_stop=c["rot_stop"] * DEG_TO_RAD)
        conn.send({"ok": True, "pts": [[float(a), float(b)] for a, b in f], "name": name})
    except MemoryError:
        conn.send({"ok": False, "exc": "MemoryError", "msg": "address-space limit reached"})
    except Exception as ex:
        conn.send({"ok": False, "exc": type(ex).__name__, "msg": str(ex)[:200]})


def run_case(c):
    parent, child = mp.Pipe()
    p = mp.Process(target=_work, args=(c, child))
    p.start()
    limit = c.get("timeout", 30)
    if parent.poll(limit):
        res = parent.recv()
        p.join(5)
    else:
        res = {"ok": False, "exc": "Timeout", "msg": f"no result after {limit} s"}
    if p.is_alive():
        p.kill()
        p.join()
    return res


if __name__ == "__main__":
    p = read_payload()
    emit([run_case(c) for c in p["cases"]])
