"""radial_drv.py — real RadialNumericalBH with a spy on LAPACK dgtsv (C10)"""
from common import *
import math
import numpy as np


def fine_reference(cells_regions, q, init, dt, nsteps, refine=4):
    """independent implicit solver of the same layered radial conduction problem on a mesh `refine` times finer with dt/refine
    regions: list of (r_start, r_end, count, k, rhocp)"""
    from scipy.linalg import solve_banded
    rin, rout, k, c = [], [], [], []
    for (a, b, cnt, kk, cc) in cells_regions:
        m = cnt * refine
        th = (b - a) / m
        for j in range(m):
            rin.append(a + j * th); rout.append(a + (j + 1) * th); k.append(kk); c.append(cc)
    rin, rout, k, c = map(np.array, (rin, rout, k, c))
    rc = 0.5 * (rin + rout)
    vol = math.pi * (rout ** 2 - rin ** 2)
    n = len(rin)
    res_half_out = np.log(rout / rc) / (2 * math.pi * k)
    res_half_in = np.log(rc / rin) / (2 * math.pi * k)
    cond = 1.0 / (res_half_out[:-1] + res_half_in[1:])          # between i and i+1
    h = dt / refine
    cap = c * vol / h
    ab = np.zeros((3, n))
    ab[1, :] = cap
    ab[1, :-1] += cond
    ab[1, 1:] += cond
    ab[0, 1:] = -cond
    ab[2, :-1] = -cond
    # far-field cell fixed
    ab[1, -1] = 1.0
    ab[2, -2] = -cond[-1]
    ab[0, -1] = -cond[-1]
    ab[2, -2] = 0.0 if False else ab[2, -2]
    T = np.full(n, init, dtype=float)
    # last row: T_n = init -> set row: diag 1, lower 0
    ab[2, n - 2] = 0.0
    out_wall = None
    for step in range(nsteps * refine):
        rhs = cap * T
        rhs[0] += q
        rhs[-1] = init
        T = solve_banded((1, 1), ab, rhs)
    return T


def run_case(c):
    import ghedesigner.radial_numerical_borehole as R
    from ghedesigner.borehole import GHEBorehole
    from ghedesigner.borehole_heat_exchangers import SingleUTube
    from ghedesigner.media import GHEFluid, Grout, Pipe, Soil
    real = R.dgtsv
    caps = {"n": 0, "steps": {}}
    want = set(c.get("capture", [0, 1, 2, 50, 400]))
    stored_hist = []

    def spy(dl, d, du, b, overwrite_b=0):
        k = caps["n"]
        told = -b.copy()
        before = (dl.copy(), d.copy(), du.copy(), b.copy()) if k in want else None
        r = real(dl, d, du, b, overwrite_b=overwrite_b)
        if before is not None:
            caps["steps"][k] = {"dl": before[0].tolist(), "d": before[1].tolist(), "du": before[2].tolist(), "b": before[3].tolist(), "x": b.tolist()}
        caps["last"] = b.copy()
        caps["size"] = len(b)
        caps["far_sum"] = caps.get("far_sum", 0.0) + float(b[-2] - b[-1])     # the heat that crosses into the fixed far-field cell
        caps["all_T0"] = caps.get("all_T0", []) + [float(b[0])]
        caps["n"] = k + 1
        return r
    R.dgtsv = spy
    try:
        rp_in, rp_out, s = c["r_in"], c["r_out"], c["s"]
        pipe = Pipe(Pipe.place_pipes(s, rp_out, 1), rp_in, rp_out, s, 1e-6, c.get("k_pipe", 0.4), 1542000.0)
        soil = Soil(c["k_soil"], c.get("rhocp_soil", 2343493.0), 18.3)
        grout = Grout(c["k_grout"], c.get("rhocp_grout", 3901000.0))
        fluid = GHEFluid("water", 0.0)
        b = GHEBorehole(c["H"], 2.0, c["r_b"], 0.0, 0.0)
        bhe = SingleUTube(c["m_flow"], fluid, b, pipe, grout, soil)
        rn = R.RadialNumericalBH(bhe)
        Rb = float(bhe.calc_effective_borehole_resistance())
        Rf = float(bhe.R_f) / 2
        cells = rn.fill_radial_cells(Rf, Rb - Rf)
        rn.calc_sts_g_functions(bhe)
    finally:
        R.dgtsv = real
    P = R.CellProps
    n = cells.shape[1]
    Cap = (cells[P.RHO_CP] * cells[P.VOL] / 120.0)
    cond = []
    for i in range(n - 1):
        f1 = math.log(cells[P.R_OUT, i] / cells[P.R_CENTER, i]) / (2 * math.pi * cells[P.K, i])
        f2 = math.log(cells[P.R_CENTER, i + 1] / cells[P.R_IN, i + 1]) / (2 * math.pi * cells[P.K, i + 1])
        cond.append(1.0 / (f1 + f2))
    T = caps["last"]
    nsteps = caps["n"]
    m_ = len(T)                 # the solved system may cover fewer cells than the table (it must not: judged by the check)
    stored = float(np.sum((Cap[:m_ - 1] * 120.0) * (T[:m_ - 1] - 20.0)))
    # the end of the computed period as the implementation reports it: the time its last (un-resampled) point is labelled with
    t_end = float(rn.t_s * math.exp(rn.lntts[-1]))
    out = {"ok": True, "t_end_reported": t_end, "t_s": float(rn.t_s), "n_cells": n, "nsteps": nsteps, "Rb": Rb, "Rf_half": Rf, "k_soil": c["k_soil"],
           "r_in": cells[P.R_IN].tolist(), "r_out": cells[P.R_OUT].tolist(), "r_center": cells[P.R_CENTER].tolist(),
           "k": cells[P.K].tolist(), "cap": Cap.tolist(), "cond": cond, "steps": caps["steps"],
           "stored": stored, "injected": 120.0 * nsteps, "system_size": int(caps.get("size", 0)), "leaked": 120.0 * cond[min(m_, n) - 2] * caps.get("far_sum", 0.0),
           "T_last": T.tolist(), "T0_series": caps["all_T0"],
           "lntts": rn.lntts.tolist(), "g": rn.g.tolist(), "g_bhw": rn.g_bhw.tolist(),
           "fluid_mass": float(np.sum(Cap[:3] * 120.0)), "fluid_mass_expected": 2 * math.pi * rp_in ** 2 * fluid.rhoCp,
           "r_fluid": rn.r_fluid, "r_far": rn.r_far_field, "bh_wall_idx": rn.bh_wall_idx, "counts": [3, 1, 4, 27, 500],
           "regions": [[rn.r_fluid, rn.r_convection], [rn.r_convection, rn.r_in_tube], [rn.r_in_tube, rn.r_out_tube], [rn.r_out_tube, rn.r_borehole], [rn.r_borehole, rn.r_far_field]]}
    if c.get("reuse"):
        # the same RadialNumericalBH object used for a second borehole (GHE.simulate re-uses one object for every height it tries):
        # its results must be those of a fresh object built for that second borehole
        r2 = c["reuse"]
        soil2 = Soil(r2.get("k_soil", c["k_soil"]), r2.get("rhocp_soil", c.get("rhocp_soil", 2343493.0)), 18.3)
        grout2 = Grout(r2.get("k_grout", c["k_grout"]), r2.get("rhocp_grout", c.get("rhocp_grout", 3901000.0)))
        fluid2 = GHEFluid(r2.get("fluid", "water"), r2.get("conc", 0.0))
        b2 = GHEBorehole(r2.get("H", c["H"]), 2.0, c["r_b"], 0.0, 0.0)
        bhe2 = SingleUTube(r2.get("m_flow", c["m_flow"]), fluid2, b2, pipe, grout2, soil2)
        rn.calc_sts_g_functions(bhe2)
        fresh = R.RadialNumericalBH(bhe2)
        fresh.calc_sts_g_functions(bhe2)
        out["reuse"] = {"lntts_equal": bool(np.array_equal(rn.lntts, fresh.lntts)), "g_equal": bool(np.array_equal(rn.g, fresh.g)),
                        "g_bhw_equal": bool(np.array_equal(rn.g_bhw, fresh.g_bhw)),
                        "max_dev_g": float(np.max(np.abs(np.array(rn.g) - np.array(fresh.g)))) if len(rn.g) == len(fresh.g) else None,
                        "g_end_reused": float(rn.g[-1]), "g_end_fresh": float(fresh.g[-1])}
    if c.get("fine", False):
        regs = []
        bounds = out["regions"]
        cnts = out["counts"]
        idx = 0
        # the layered problem from its physical description, NOT from the implementation's cell table: a well-mixed fluid core with the
        # thermal mass of the fluid in both legs, a film layer carrying R_f/2, pipe and grout layers that together carry R_b* - R_f/2
        # (their own heat capacities), soil.  Radii are the model's documented layer radii.
        k_film = math.log(rn.r_in_tube / rn.r_convection) / (2 * math.pi * Rf)
        k_pg = math.log(rn.r_borehole / rn.r_in_tube) / (2 * math.pi * (Rb - Rf))
        c_fluid = 2.0 * rp_in ** 2 * fluid.rhoCp / (rn.r_convection ** 2 - rn.r_fluid ** 2)
        props = [(200.0, c_fluid), (k_film, 1.0), (k_pg, 1542000.0), (k_pg, c.get("rhocp_grout", 3901000.0)), (c["k_soil"], c.get("rhocp_soil", 2343493.0))]
        for ((a, bnd), cnt), (kk_, cc_) in zip(zip(bounds, cnts), props):
            regs.append((a, bnd, cnt, float(kk_), float(cc_)))
            idx += cnt
        # the reference runs for the period the implementation REPORTS (its last ln(t/ts)), not for its number of solves
        ref_steps = max(1, int(round(t_end / 120.0)))
        Tf = fine_reference(regs, 1.0, 20.0, 120.0, ref_steps, refine=c.get("refine", 4))
        out["fine_T0"] = float(Tf[0])
        out["coarse_T0"] = float(T[0])
    return out


if __name__ == "__main__":
    p = read_payload()
    res = []
    for c in p["cases"]:
        try:
            res.append(run_case(c))
        except Exception as ex:
            import traceback
            res.append({"ok": False, "exc": type(ex).__name__, "msg": traceback.format_exc()[-500:]})
    emit(res)
