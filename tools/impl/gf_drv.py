"""gf_drv.py — real combine_sts_lts / borehole_radius_correction / g_function_interpolation, real GHE g-functions, FLS anchor (C11)"""
from common import *
import math
import numpy as np


def run_combine(c):
    from ghedesigner.ground_heat_exchangers import BaseGHE
    try:
        f = BaseGHE.combine_sts_lts(list(c["t_lts"]), list(c["g_lts"]), list(c["t_sts"]), list(c["g_sts"]))
        return {"ok": True, "x": [float(v) for v in f.x], "y": [float(v) for v in f.y]}
    except Exception as ex:
        return {"ok": False, "exc": type(ex).__name__, "msg": str(ex)[:200]}


def run_interp(c):
    """GFunction with the given stored heights / curves: interpolate at each stored height, and the radius correction"""
    from ghedesigner.gfunction import GFunction
    import warnings
    out = {"ok": True, "at_stored": [], "corr": []}
    try:
        for h in c["heights"]:
            G = GFunction(b=c["B"], d=2.0, r_b_values={hh: c["rb"] for hh in c["heights"]}, g_lts={hh: list(cv) for hh, cv in zip(c["heights"], c["curves"])},
                          log_time=list(c["log_time"]), bore_locations=[(0.0, 0.0)])
            with warnings.catch_warnings(record=True) as w:
                warnings.simplefilter("always")
                gf, rb, d, heq = G.g_function_interpolation(c["B"] / h)
            out["at_stored"].append({"h": h, "h_eq": float(heq), "g": [float(v) for v in gf], "rb": float(rb), "warnings": len(w)})
        g0 = list(c["curves"][0])
        for (ra, rb_) in c.get("radii", []):
            out["corr"].append({"ra": ra, "rb": rb_, "g": [float(v) for v in GFunction.borehole_radius_correction(g0, ra, rb_)]})
    except Exception as ex:
        import traceback
        out = {"ok": False, "exc": type(ex).__name__, "msg": traceback.format_exc()[-400:]}
    return out


def run_ghe(c):
    import ghe_drv
    g = ghe_drv.build(c)
    H = c.get("H_eval", g.bhe.b.H)
    g.bhe.b.H = H
    if c.get("first_rb"):
        # the object was asked for its g-function before, when its borehole had another radius
        want_rb = g.bhe.b.r_b
        g.bhe.b.r_b = c["first_rb"]
        g.grab_g_function(g.B_spacing / H)
        g.bhe.b.r_b = want_rb
    gf, gb = g.grab_g_function(g.B_spacing / H)
    G = g.gFunction
    glts, rbv, _, _ = G.g_function_interpolation(g.B_spacing / H)
    corr = G.borehole_radius_correction(glts, rbv, g.bhe.b.r_b)
    return {"ok": True, "x": [float(v) for v in gf.x], "y": [float(v) for v in gf.y], "ybhw": [float(v) for v in gb.y],
            "lts_t": [float(v) for v in G.log_time], "lts_corr": [float(v) for v in corr],
            "lts_raw": [float(v) for v in glts], "rb_table": float(rbv), "rb_sim": float(g.bhe.b.r_b),
            "sts_t": [float(v) for v in g.radial_numerical.lntts], "sts_g": [float(v) for v in g.radial_numerical.g],
            "stored_heights": [float(h) for h in G.g_lts.keys()]}


def run_plan(c):
    """the decisions of the real g_function_interpolation: which kind / fill_value reach scipy (spied), which h_eq is returned, which exception"""
    import warnings
    import ghedesigner.gfunction as gfm
    from ghedesigner.gfunction import GFunction
    calls = []

    class Dummy:
        def __call__(self, h):
            return np.float64(0.0)

    def spy_interp1d(x, y, kind="linear", fill_value=None, **kw):
        calls.append({"kind": kind, "fill": fill_value, "x": [float(v) for v in x]})
        return Dummy()

    def spy_lagrange(x, y):
        calls.append({"kind": "lagrange", "fill": None, "x": [float(v) for v in x]})
        return Dummy()
    old = (gfm.interp1d, gfm.lagrange)
    gfm.interp1d, gfm.lagrange = spy_interp1d, spy_lagrange
    try:
        hs = c["heights"]
        G = GFunction(b=c["B"], d=2.0, r_b_values={h: 0.075 for h in hs}, g_lts={h: [1.0 + 0.01 * h, 2.0 + 0.01 * h] for h in hs},
                      log_time=[-8.5, -7.0], bore_locations=[(0.0, 0.0)])
        b_over_h = c["B"] / c["h"]
        h0 = 1 / b_over_h * G.B            # the first statement of the method, repeated here: the model starts after it
        out = {"h0": float(h0).hex()}
        with warnings.catch_warnings(record=True) as w:
            warnings.simplefilter("always")
            try:
                if c["kind"] == "default":
                    gf, rb, d, heq = G.g_function_interpolation(b_over_h)
                else:
                    gf, rb, d, heq = G.g_function_interpolation(b_over_h, kind=c["kind"])
                out.update({"ret": True, "h_eq": float(heq).hex(), "calls": calls[:1], "ncalls": len(calls), "warned": len(w),
                            "single": (len(calls) == 0), "g": [float(v) for v in gf]})
            except Exception as ex:
                out.update({"ret": False, "exc": type(ex).__name__})
        return out
    finally:
        gfm.interp1d, gfm.lagrange = old


def run_rebracket(c):
    """one GHE object whose long-time family is recomputed for other height brackets after it was used: at every stored height of the current
    family the curve handed to the simulation must carry that height's stored, radius-corrected values on the long-time points"""
    import ghe_drv
    g = ghe_drv.build(c)
    out = {"ok": True, "stages": []}
    for (lo, hi) in c["brackets"]:
        g.sim_params.min_height, g.sim_params.max_height = lo, hi
        g.compute_g_functions()
        G = g.gFunction
        st = {"bracket": [lo, hi], "heights": [float(h) for h in G.g_lts.keys()], "at": []}
        for h in list(G.g_lts.keys()):
            try:
                gf, gb = g.grab_g_function(g.B_spacing / h)
                nl = len(G.log_time)
                want = [v - math.log(g.bhe.b.r_b / G.r_b_values[h]) for v in G.g_lts[h]]
                st["at"].append({"h": float(h), "ok": True, "dev": float(max(abs(a - b) for a, b in zip([float(v) for v in gf.y][-nl:], want))),
                                 "increasing": bool(all(b > a for a, b in zip(gf.x, gf.x[1:])))})
            except Exception as ex:
                st["at"].append({"h": float(h), "ok": False, "exc": type(ex).__name__, "msg": str(ex)[:160]})
        out["stages"].append(st)
    return out


def ierf(x):
    from scipy.special import erf
    return x * erf(x) - (1 - np.exp(-x * x)) / np.sqrt(np.pi)


def h_ij(t, alpha, d, H1, D1, H2, D2):
    from scipy.integrate import quad

    def f(s):
        a = ierf((D2 - D1 + H2) * s) - ierf((D2 - D1) * s) + ierf((D2 - D1 - H1) * s) - ierf((D2 - D1 + H2 - H1) * s)
        b = ierf((D2 + D1 + H2) * s) - ierf((D2 + D1) * s) + ierf((D2 + D1 + H1) * s) - ierf((D2 + D1 + H2 + H1) * s)
        return np.exp(-d * d * s * s) / (s * s) * (a + b)
    lo = 1 / np.sqrt(4 * alpha * t)
    v, _ = quad(f, lo, np.inf, epsabs=1e-13, epsrel=1e-12, limit=400)
    return v / (2 * H2)


def run_fls(c):
    """long-time curve under the uniform-heat-rate condition vs the analytical finite-line-source superposition; MIFT single borehole"""
    from ghedesigner.borehole import GHEBorehole
    from ghedesigner.enums import BHPipeType
    from ghedesigner.gfunction import calculate_g_function
    from ghedesigner.media import GHEFluid, Grout, Pipe, Soil
    from ghedesigner.utilities import eskilson_log_times
    from ghedesigner.coordinates import rectangle
    pipe = Pipe(Pipe.place_pipes(0.01856, 0.02108, 1), 0.01702, 0.02108, 0.01856, 1e-6, 0.4, 1542000.0)
    soil = Soil(2.0, 2343493.0, 18.3)
    grout = Grout(1.0, 3901000.0)
    fluid = GHEFluid("water", 0.0)
    alpha = soil.k / soil.rhoCp
    lt = np.array(eskilson_log_times())[::c.get("stride", 3)]
    coords = rectangle(c["nx"], c["ny"], c["B"], c["B"])
    H, D, rb = c["H"], c["D"], c["rb"]
    b = GHEBorehole(H, D, rb, 0.0, 0.0)
    ts = H * H / (9 * alpha)
    times = np.exp(lt) * ts
    gu = calculate_g_function(0.3, BHPipeType.SINGLEUTUBE, times, coords, b, fluid, pipe, grout, soil, boundary="UHTR").gFunc
    n = len(coords)
    ga = []
    for t in times:
        cache, tot = {}, 0.0
        for i in range(n):
            for j in range(n):
                d = rb if i == j else math.hypot(coords[i][0] - coords[j][0], coords[i][1] - coords[j][1])
                k = round(d, 9)
                if k not in cache:
                    cache[k] = h_ij(t, alpha, d, H, D, H, D)
                tot += cache[k]
        ga.append(tot / n)
    out = {"ok": True, "uhtr": [float(v) for v in gu], "fls": ga, "n": n}
    # the same curve as the tool stores it: through calc_g_func_for_multiple_lengths (what the design searches call)
    from ghedesigner.gfunction import calc_g_func_for_multiple_lengths
    fam = calc_g_func_for_multiple_lengths(c["B"], [H], rb, D, 0.3, BHPipeType.SINGLEUTUBE, list(lt), coords, fluid, pipe, grout, soil, boundary="UHTR")
    out["uhtr_family"] = [float(v) for v in fam.g_lts[H]]
    if n == 1:
        gm = calculate_g_function(0.3, BHPipeType.SINGLEUTUBE, times, coords, b, fluid, pipe, grout, soil, boundary="MIFT").gFunc
        out["mift"] = [float(v) for v in gm]
    return out


if __name__ == "__main__":
    p = read_payload()
    fn = {"combine": run_combine, "interp": run_interp, "ghe": run_ghe, "fls": run_fls, "plan": run_plan, "rebracket": run_rebracket}[p["mode"]]
    res = []
    for c in p["cases"]:
        try:
            res.append(fn(c))
        except Exception as ex:
            import traceback
            res.append({"ok": False, "exc": type(ex).__name__, "msg": traceback.format_exc()[-400:]})
    emit(res)
