"""design_stub.py — the REAL Design*.find_design (design classes + Bisection1D/2D/ZD constructors and search) reached through GHEManager,
with only the field simulation replaced: calculate_excess / initialize_ghe of Bisection1D are patched at class level by a synthetic excess
that is strictly decreasing in the borehole count and in the height.  Long candidate lists (hundreds of fields) cost nothing this way.
payload {"cases":[{"cfg": <input format>, "thresholds":[t...]}]}: excess(field, h) = t - n - (h - hmin) / (hmax - hmin) / 2, n = boreholes"""
from common import *
import io, contextlib
import e2e
import ghedesigner.search_routines as sr


def run_case(c):
    cfg = e2e.materialise(c["cfg"])
    g = e2e.make_manager(cfg)
    d = g._design
    gc = cfg["geometric_constraints"]
    hmin, hmax = float(gc["min_height"]), float(gc["max_height"])
    dom = getattr(d, "coordinates_domain", None)
    nested = getattr(d, "coordinates_domain_nested", None)
    out = {"ok": True, "counts": [len(f) for f in dom] if dom is not None else [[len(f) for f in l] for l in nested], "runs": []}
    if c.get("want_extents"):
        import numpy as np

        def ext(f):
            a = np.asarray([[float(x), float(y)] for x, y in f], dtype=float)
            md = None
            if 1 < len(a) <= 700:
                d2 = ((a[:, None, :] - a[None, :, :]) ** 2).sum(-1)
                d2[np.arange(len(a)), np.arange(len(a))] = np.inf
                md = float(np.sqrt(d2.min()))
            return [float(a[:, 0].min()), float(a[:, 1].min()), float(a[:, 0].max()), float(a[:, 1].max()), md, len(a)]
        out["extents"] = [ext(f) for f in dom] if dom is not None else [[ext(f) for f in l] for l in nested]
    orig = (sr.Bisection1D.calculate_excess, sr.Bisection1D.initialize_ghe)
    state = {}

    def ce(self, coordinates, h, field_specifier="N/A"):
        n = len(coordinates)
        state["evaluated"].append([n, float(h)])
        state["last_init"] = [n, float(h), field_specifier]
        return state["t"] - n - (float(h) - hmin) / (hmax - hmin) / 2.0

    def ig(self, coordinates, h, field_specifier="N/A"):
        state["last_init"] = [len(coordinates), float(h), field_specifier]
    sr.Bisection1D.calculate_excess = ce
    sr.Bisection1D.initialize_ghe = ig
    try:
        for t in c["thresholds"]:
            state.update({"t": float(t), "evaluated": [], "last_init": None})
            try:
                with contextlib.redirect_stdout(io.StringIO()):
                    s = d.find_design()
                sel = s.selected_coordinates
                out["runs"].append({"t": t, "ok": True, "selected_n": len(sel), "evaluated": state["evaluated"], "last_init": state["last_init"],
                                    "max_iter": getattr(s, "max_iter", None), "cap": s.sim_params.max_boreholes, "cont": s.sim_params.continue_if_design_unmet,
                                    "search_limits": [s.sim_params.min_height, s.sim_params.max_height],
                                    "selected_is_a_candidate": any(sel is f for f in (dom if dom is not None else [f for l in nested for f in l]))})
            except Exception as ex:
                out["runs"].append({"t": t, "ok": False, "exc": type(ex).__name__, "msg": str(ex)[:160], "evaluated": state["evaluated"]})
    finally:
        sr.Bisection1D.calculate_excess, sr.Bisection1D.initialize_ghe = orig
    return out


if __name__ == "__main__":
    p = read_payload()
    res = []
    for c in p["cases"]:
        try:
            res.append(run_case(c))
        except Exception as ex:
            import traceback
            res.append({"ok": False, "exc": type(ex).__name__, "msg": traceback.format_exc()[-500:]})
    emit(res)
