"""C19 driver: real OutputManager time converters and row builders"""
from common import *
from types import SimpleNamespace
from ghedesigner.output import OutputManager

p = read_payload()
out = {}
out["convert"] = [[unfr(v) for v in OutputManager.ghe_time_convert(h)] for h in p.get("hours", [])]
out["h2m_exact"] = [unfr(OutputManager.hours_to_month(fr(x))) for x in p.get("h2m_points", [])]
out["h2m_float"] = [OutputManager.hours_to_month(float(x)) for x in p.get("h2m_float_points", [])]
if "loads" in p:
    loads = p["loads"]
    design = SimpleNamespace(ghe=SimpleNamespace(hourly_extraction_ground_loads=loads))
    om = object.__new__(OutputManager)
    out["loading_rows"] = om.get_hourly_loading_data(design)
if "coords" in p:
    design = SimpleNamespace(ghe=SimpleNamespace(gFunction=SimpleNamespace(bore_locations=[tuple(c) for c in p["coords"]])))
    out["bore_rows"] = OutputManager.get_borehole_location_data(design)
if "gfunc" in p:
    g = p["gfunc"]
    gf = SimpleNamespace(x=g["x"], y=g["y"])
    gb = SimpleNamespace(x=g["x"], y=g["ybhw"])
    design = SimpleNamespace(ghe=SimpleNamespace(bhe=SimpleNamespace(b=SimpleNamespace(H=100.0)), B_spacing=5.0,
                                                 grab_g_function=lambda bh: (gf, gb)))
    try:
        out["g_rows"] = OutputManager.get_g_function_data(design)
    except Exception as ex:      # the stub object offers what the writer is documented to read: grab_g_function (the curve used in the simulation)
        out["g_rows_error"] = f"{type(ex).__name__}: {str(ex)[:200]}"
emit(out)
