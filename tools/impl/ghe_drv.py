"""ghe_drv.py — real GHE objects (small fields, real pygfunction g-functions) for C09 / C12 / C13 / C20.
payload {"cases":[{"nx":..,"ny":..,"months":..,"H":..,"loads":spec,"pipe":name,"flow":[type,value],"ops":[...]}]}"""
from common import *
import numpy as np
from math import pi, log
import e2e


def build(c):
    from ghedesigner.borehole import GHEBorehole
    from ghedesigner.enums import BHPipeType, TimestepType
    from ghedesigner.gfunction import calc_g_func_for_multiple_lengths
    from ghedesigner.ground_heat_exchangers import GHE
    from ghedesigner.media import GHEFluid, Grout, Pipe, Soil
    from ghedesigner.simulation import SimulationParameters
    from ghedesigner.utilities import eskilson_log_times
    from ghedesigner.coordinates import rectangle
    ptype = c.get("pipe", "SINGLEUTUBE")
    if ptype == "SINGLEUTUBE":
        pipe = Pipe(Pipe.place_pipes(0.01856, 0.02108, 1), 0.01702, 0.02108, 0.01856, 1e-6, 0.4, 1542000.0)
        bt = BHPipeType.SINGLEUTUBE
    elif ptype.startswith("DOUBLE"):
        pipe = Pipe(Pipe.place_pipes(0.01856, 0.02108, 2), 0.01702, 0.02108, 0.01856, 1e-6, 0.4, 1542000.0)
        bt = BHPipeType.DOUBLEUTUBEPARALLEL if ptype.endswith("PARALLEL") else BHPipeType.DOUBLEUTUBESERIES
    else:
        pipe = Pipe((0, 0), [0.0221, 0.025], [0.0487, 0.055], 0, 1e-6, [0.4, 0.4], 1542000.0)
        bt = BHPipeType.COAXIAL
    soil = Soil(c.get("k", 2.0), 2343493.0, c.get("ugt", 18.3))
    grout = Grout(1.0, 3901000.0)
    fluid = GHEFluid(c.get("fluid", "water"), c.get("conc", 0.0))
    H = c.get("H", 100.0)
    b = GHEBorehole(H, 2.0, c.get("rb", 0.075), 0.0, 0.0)
    B = c.get("B", 5.0)
    coords = rectangle(c.get("nx", 2), c.get("ny", 2), B, B)
    sp = SimulationParameters(1, c.get("months", 12), 35, 5, c.get("hmax", 135.0), c.get("hmin", 60.0))
    ftype, fval = c.get("flow", ["BOREHOLE", 0.5])
    nbh = len(coords)
    v_sys = fval * nbh if ftype == "BOREHOLE" else fval
    m_bh = v_sys / nbh / 1000.0 * fluid.rho
    heights = c.get("heights", [H])
    g = calc_g_func_for_multiple_lengths(B, heights, c.get("rb_table", c.get("rb", 0.075)), 2.0, m_bh, bt, eskilson_log_times(), coords, fluid, pipe, grout, soil)
    loads = e2e.synthetic_loads(c["loads"])
    if c.get("extra_day"):            # a leap year of loads: 29 February repeats 28 February with other magnitudes
        day = [x * 1.7 + 300.0 for x in loads[1392:1416]]
        loads = loads[:1416] + day + loads[1416:]
    for (h0, v) in c.get("spikes", []):
        loads[h0] = v
    kw = {"load_years": list(c["load_years"])} if c.get("load_years") else {}
    ghe = GHE(v_sys, B, bt, fluid, b, pipe, grout, soil, g, sp, loads, **kw)
    ghe._verif_loads = [float(x) for x in loads]        # the hourly series as handed to the constructor (W, extraction positive)
    return ghe


def run_c09(c):
    from ghedesigner.enums import TimestepType
    ghe = build(c)
    method = TimestepType.HYBRID if c.get("method", "HYBRID") == "HYBRID" else TimestepType.HOURLY
    captured = {}
    orig = ghe._simulate_detailed

    def spy(q_dot, time_values, g):
        captured["q"] = [float(x) for x in q_dot]
        captured["t"] = [float(x) for x in time_values]
        captured["g"] = g
        return orig(q_dot, time_values, g)
    ghe._simulate_detailed = spy
    if "scale" in c:
        ghe.hybrid_load.load = ghe.hybrid_load.load * c["scale"]
        ghe.hourly_extraction_ground_loads = [x * c["scale"] for x in ghe.hourly_extraction_ground_loads]
    # the object may have been used at other heights before (the searches and the root solver do exactly that): simulate there first
    for h0 in c.get("earlier_heights", []):
        ghe.bhe.b.H = h0
        ghe.simulate(method=method)
    if c.get("earlier_heights"):
        ghe.bhe.b.H = c.get("H", 100.0)
    mx, mn = ghe.simulate(method=method)
    n = len(captured["q"])
    nmax = c.get("steps", n)
    ts = ghe.radial_numerical.t_s
    tv = [0.0] + captured["t"]
    # the documented formula takes ln(t_n - t_(i-1)): it is defined on the strictly increasing prefix of the time axis
    # (the hybrid scheme can emit a negative time step when peak windows overlap; C08 excludes that case, the code warns)
    mono = next((i - 1 for i in range(1, len(tv)) if tv[i] <= tv[i - 1]), len(tv) - 1)
    nmax = min(nmax, mono)
    out = {"n": n, "increasing_prefix": mono, "hp_eft": [float(x) for x in ghe.hp_eft[:nmax]], "dTb": [float(x) for x in ghe.dTb[:nmax]],
           "q": captured["q"][:nmax], "t": captured["t"][:nmax],
           "params": {"nbh": ghe.nbh, "H": ghe.bhe.b.H, "two_pi_k": 2 * pi * ghe.bhe.soil.k, "Tg": ghe.bhe.soil.ugt,
                      "Rb": float(ghe.bhe.calc_effective_borehole_resistance()), "mdot": ghe.bhe.m_flow_borehole, "cp": ghe.bhe.fluid.cp, "ts": ts},
           "max": mx, "min": mn}
    if c.get("want_K", True):
        gfun = captured["g"]
        out["K"] = [[float(gfun(log((tv[i] - tv[k]) * 3600.0 / ts))) for k in range(i)] for i in range(1, min(nmax, n) + 1)]
    if method == TimestepType.HOURLY:
        # the whole load sequence and time axis of an hourly run: the year of loads handed to the constructor, repeated end to end,
        # one step per hour of the horizon (the property's q_i and t_i for the hourly method)
        months = c.get("months", 12)
        want_n = int(months / 12.0 * 8760.0)
        year = [-x for x in ghe._verif_loads]
        want_q = (year * (-(-want_n // 8760)))[:max(want_n, 0)] if len(year) == 8760 else None
        if want_q is not None:
            bad = next((i for i in range(min(len(want_q), n)) if want_q[i] != captured["q"][i] or captured["t"][i] != float(i + 1)), None)
            out["sequence"] = {"expected_steps": want_n, "steps": n, "first_difference": bad,
                               "detail": None if bad is None else {"step": bad + 1, "q": captured["q"][bad], "q_expected": want_q[bad], "t": captured["t"][bad]}}
            late = {}
            for st in c.get("late_steps", []):
                if 1 <= st <= min(n, want_n):
                    gfun = captured["g"]
                    late[str(st)] = {"hp_eft": float(ghe.hp_eft[st - 1]),
                                     "K": [float(v) for v in gfun(np.log((st - np.arange(0, st)) * 3600.0 / ts))]}
            out["late"] = late
            out["year_q_W"] = year
            out["raw_year_W"] = list(ghe._verif_loads)
            # what the implementation handed to the superposition at a few steps (before the sign change: extraction positive)
            out["q_at"] = {str(st): -captured["q"][st - 1] for st in c.get("late_steps", []) if 1 <= st <= n}
    # the property's raw inputs: field loads in W at each step, hours
    if method == TimestepType.HYBRID:
        out["raw_q_W"] = [float(x) * 1000.0 for x in ghe.hybrid_load.load[2:2 + nmax]]
        out["raw_t_h"] = [float(x) for x in ghe.hybrid_load.hour[2:2 + nmax]]
    else:
        out["raw_q_W"] = [-float(x) for x in ghe.hourly_extraction_ground_loads[:nmax]]
        out["raw_t_h"] = [float(i + 1) for i in range(nmax)]
    return out


def run_ops(c):
    """drive one real GHE through an operation sequence; after each simulate/size compare its stored temperatures with a
    FRESH object simulated at the same height with the same method"""
    import copy
    from ghedesigner.enums import TimestepType
    ghe = build(c)
    g0 = copy.deepcopy(ghe.gFunction)
    M = {"hybrid": TimestepType.HYBRID, "hourly": TimestepType.HOURLY}

    def fresh(h, m):
        f = build(dict(c, _reuse_g=True))
        return f

    # build() computes the g-function again (deterministic); to keep this cheap, reuse a deep copy of the pristine table
    def fresh_sim(h, m):
        from ghedesigner.ground_heat_exchangers import GHE
        from ghedesigner.borehole import GHEBorehole
        # same construction height as the object under test (the hybrid loads are built once, at construction)
        b = GHEBorehole(c.get("H", 100.0), ghe.bhe.b.D, ghe.bhe.b.r_b, 0.0, 0.0)
        f = GHE(ghe.V_flow_system, ghe.B_spacing, ghe.bhe_type, ghe.bhe.fluid, b, copy.deepcopy(ghe.bhe.pipe), ghe.bhe.grout, ghe.bhe.soil,
                copy.deepcopy(g0), ghe.sim_params, list(ghe.hourly_extraction_ground_loads))
        f.bhe.b.H = h
        return f.simulate(method=M[m])
    out = []
    last_m = None
    for op in c["ops"]:
        rec = {"op": op}
        try:
            if op[0] == "setH":
                ghe.bhe.b.H = op[1]
            elif op[0] in ("hybrid", "hourly"):
                last_m = op[0]
                mx, mn = ghe.simulate(method=M[op[0]])
                rec.update(ret=[mx, mn])
            elif op[0] == "size":
                last_m = op[1] if len(op) > 1 and op[1] in M else "hybrid"
                evals = []
                orig = ghe.simulate

                def spy(method, _o=orig):
                    evals.append(float(ghe.bhe.b.H))
                    return _o(method=method)
                ghe.simulate = spy
                import ghedesigner.ground_heat_exchangers as GM
                real_root = GM.solve_root
                roots = []

                def root_spy(*a, **k):
                    r = real_root(*a, **k)
                    roots.append(float(r))
                    return r
                GM.solve_root = root_spy
                try:
                    ghe.size(method=M[last_m])
                finally:
                    del ghe.simulate
                    GM.solve_root = real_root
                rec.update(evals=evals, root=(roots[-1] if roots else None))
            rec["H"] = float(ghe.bhe.b.H)
            # the object's inputs after the operation: the year of hourly loads it was constructed with
            hl = ghe.hourly_extraction_ground_loads
            rec["loads_len"] = len(hl)
            rec["loads_same"] = bool(len(hl) == len(ghe._verif_loads) and all(float(a) == b for a, b in zip(hl, ghe._verif_loads)))
            if len(ghe.hp_eft) > 0 and last_m is not None:
                rec["stored"] = [max(ghe.hp_eft), min(ghe.hp_eft), len(ghe.hp_eft)]
                fm = fresh_sim(rec["H"], last_m)
                rec["fresh"] = [fm[0], fm[1]]
        except Exception as ex:
            rec["exc"] = type(ex).__name__
            rec["msg"] = str(ex)[:200]
        out.append(rec)
    return {"ok": True, "trace": out}


def run_flow(c):
    """retrieve_flow of both search classes on a field of n boreholes"""
    import ghedesigner.search_routines as sr
    from ghedesigner.enums import FlowConfigType
    out = []
    for cls in (sr.Bisection1D, sr.RowWiseModifiedBisectionSearch):
        s = object.__new__(cls)
        s.V_flow = c["v"]
        s.flow_type = FlowConfigType.BOREHOLE if c["type"] == "BOREHOLE" else FlowConfigType.SYSTEM
        coords = [(float(i), 0.0) for i in range(c["n"])]
        vs, mb = s.retrieve_flow(coords, c["rho"])
        out.append([vs, mb])
    return {"ok": True, "res": out}


def run_hybrid(c):
    """the hybrid loads carried by a real GHE object (not a bare HybridLoad), read after the operations a design run performs on it"""
    from ghedesigner.enums import TimestepType
    ghe = build(c)
    for op in c.get("ops", []):
        if op == "simulate":
            ghe.simulate(method=TimestepType.HYBRID)
        elif op == "size":
            ghe.compute_g_functions() if hasattr(ghe, "compute_g_functions") else None
            ghe.size(method=TimestepType.HYBRID)
    out = {"ok": True, "load": [float(x) for x in ghe.hybrid_load.load], "hour": [float(x) for x in ghe.hybrid_load.hour],
           "hourly": ghe._verif_loads, "times_end": float(ghe.times[-1]) if len(getattr(ghe, "times", [])) else None}
    if c.get("csv_rows"):
        # the rows of TimeDependentValues.csv as the real row builder makes them for this object (time and Q columns only)
        from types import SimpleNamespace
        from ghedesigner.output import OutputManager
        om = object.__new__(OutputManager)
        rows = om.get_loading_data(SimpleNamespace(ghe=ghe))[1:]
        out["csv_tq"] = [[float(r_[0]), float(r_[2])] for r_ in rows]
    return out


def run_pair(c):
    """the same field simulated with flow given per borehole (v) and for the system (N v)"""
    from ghedesigner.enums import TimestepType
    res = []
    n = c.get("nx", 2) * c.get("ny", 2)
    for flow in (["BOREHOLE", c["v"]], ["SYSTEM", c["v"] * n]):
        g = build(dict(c, flow=flow))
        mx, mn = g.simulate(method=TimestepType.HYBRID)
        res.append({"m_flow": g.bhe.m_flow_borehole, "rb": float(g.bhe.calc_effective_borehole_resistance()), "max": mx, "min": mn,
                    "rho": g.bhe.fluid.rho, "v_bh": g.V_flow_borehole})
    return {"ok": True, "pair": res, "n": n}


if __name__ == "__main__":
    p = read_payload()
    out = []
    for c in p["cases"]:
        try:
            if p.get("mode", "c09") == "c09":
                out.append(dict(run_c09(c), ok=True))
            elif p["mode"] == "ops":
                out.append(run_ops(c))
            elif p["mode"] == "flow":
                out.append(run_flow(c))
            elif p["mode"] == "hybrid":
                out.append(run_hybrid(c))
            elif p["mode"] == "pair":
                out.append(run_pair(c))
        except Exception as ex:
            import traceback
            out.append({"ok": False, "exc": type(ex).__name__, "msg": traceback.format_exc()[-600:]})
    emit(out)
