"""validate_drv.py — the validator called more than once in ONE process on the same path whose content changes in between (an editor session,
a batch script, a notebook).  payload {"valid": <instance>, "corruptions": [[label, <instance>], ...]}"""
from common import *
import io, contextlib, tempfile, shutil
from pathlib import Path

if __name__ == "__main__":
    p = read_payload()
    import ghedesigner.manager as M
    from ghedesigner.validate import validate_input_file
    tmp = Path(tempfile.mkdtemp(prefix="verif_c18v_"))
    out = []

    def verdict(path):
        err = io.StringIO()
        try:
            with contextlib.redirect_stderr(err), contextlib.redirect_stdout(err):
                a = validate_input_file(path)
        except Exception as ex:
            a = "EXC:" + type(ex).__name__
        try:
            with contextlib.redirect_stderr(err), contextlib.redirect_stdout(err):
                b = M._run_manager_from_cli(str(path), None, True, None)
        except Exception as ex:
            b = "EXC:" + type(ex).__name__
        return [a, b]
    try:
        for k, (label, bad) in enumerate(p["corruptions"]):
            f1 = tmp / f"a{k}.json"          # valid first, then corrupted
            f1.write_text(json.dumps(p["valid"]))
            v1 = verdict(f1)
            f1.write_text(json.dumps(bad))
            v2 = verdict(f1)
            f2 = tmp / f"b{k}.json"          # corrupted first, then repaired
            f2.write_text(json.dumps(bad))
            w1 = verdict(f2)
            f2.write_text(json.dumps(p["valid"]))
            w2 = verdict(f2)
            out.append({"label": label, "valid_then_corrupted": [v1, v2], "corrupted_then_repaired": [w1, w2]})
    finally:
        shutil.rmtree(tmp, ignore_errors=True)
    emit(out)
