"""helpers shared by the implementation drivers (run under /venv/bin/python with PYTHONPATH=/repo)"""
import json, os, sys, warnings
from fractions import Fraction
warnings.filterwarnings("ignore")
REPO = os.environ.get("VERIF_REPO", "/repo")
if REPO not in sys.path:
    sys.path.insert(0, REPO)


def read_payload():
    return json.loads(sys.stdin.read())


def fr(x):
    """[num, den] -> Fraction"""
    return Fraction(int(x[0]), int(x[1]))


def unfr(x):
    """number -> [num, den] exactly"""
    f = Fraction(x)
    return [f.numerator, f.denominator]


def emit(obj):
    sys.stdout.write("\n" + json.dumps(obj) + "\n")
