"""geom.py — real shape.point_polygon_check / feature_recognition.remove_cutout on generated inputs.
payload {"ppc":[{"poly":[[x,y]...], "pts":[[num,den,num,den]...]}], "cutout":[...], "float": bool}"""
from common import *
from ghedesigner.shape import point_polygon_check
from ghedesigner.feature_recognition import remove_cutout


def conv(v, flt):
    f = Fraction(int(v[0]), int(v[1]))
    return float(f) if flt else f


if __name__ == "__main__":
    p = read_payload()
    out = {"ppc": [], "cutout": []}
    _reuse = {}
    for c in p.get("ppc", []):
        flt = c.get("float", True)
        poly = [(conv(v[0:2], flt), conv(v[2:4], flt)) for v in c["poly"]]
        # one list object per vertex count, edited in place from polygon to polygon (a caller may do that):
        # the classification must depend on the vertices only, never on the identity of the list
        buf = _reuse.setdefault(len(poly), [None] * len(poly))
        buf[:] = poly
        poly = buf
        res = []
        for q in c["pts"]:
            pt = (conv(q[0:2], flt), conv(q[2:4], flt))
            try:
                res.append(point_polygon_check(poly, pt) if "tol" not in c else point_polygon_check(poly, pt, on_edge_tolerance=c["tol"]))
            except Exception as ex:
                res.append("EXC:" + type(ex).__name__)
        out["ppc"].append(res)
    for c in p.get("cutout", []):
        flt = c.get("float", False)
        coords = [(conv(v[0:2], flt), conv(v[2:4], flt)) for v in c["coords"]]
        bs = [[(conv(v[0:2], flt), conv(v[2:4], flt)) for v in b] for b in c["boundaries"]]
        try:
            kept = remove_cutout(coords, bs, remove_inside=c["remove_inside"], keep_contour=c["keep_contour"])
            out["cutout"].append({"ok": True, "kept": [coords.index(k) for k in kept], "n": len(kept)})
        except Exception as ex:
            out["cutout"].append({"ok": False, "exc": type(ex).__name__, "msg": str(ex)[:200]})
    out["land"] = []
    for c in p.get("land", []):
        from ghedesigner.domains import polygonal_land_constraint, bi_rectangle_nested
        from ghedesigner.feature_recognition import determine_largest_rectangle
        flt = c.get("float", False)
        outl = [[(conv(v[0:2], flt), conv(v[2:4], flt)) for v in b] for b in c["outlines"]]
        nogo = [[(conv(v[0:2], flt), conv(v[2:4], flt)) for v in b] for b in c["nogo"]]
        bmin, bx, by = (conv(v, flt) for v in (c["bmin"], c["bx"], c["by"]))
        try:
            kw = {}
            if "keep_contour" in c:
                kw["keep_contour"] = list(c["keep_contour"])
            dom, desc = polygonal_land_constraint(bmin, bx, by, outl, nogo, **kw)
            rect = determine_largest_rectangle(outl)
            xs, ys = list(zip(*rect))
            grid, _ = bi_rectangle_nested(max(xs), max(ys), bmin, bx, by)
            def pts(f):
                return [[unfr(Fraction(x)), unfr(Fraction(y))] for x, y in f]
            out["land"].append({"ok": True, "fields": [[pts(f) for f in l] for l in dom],
                                "grid": [[pts(f) for f in l] for l in grid] if c.get("want_grid") else None,
                                "ndesc": [len(d) for d in desc]})
        except Exception as ex:
            out["land"].append({"ok": False, "exc": type(ex).__name__, "msg": str(ex)[:200]})
    out["design"] = []
    for c in p.get("design", []):
        # the same lot through the public interface: GHEManager setters + set_design; what the search will be handed
        from e2e import make_manager, materialise
        from ghedesigner.domains import bi_rectangle_nested
        try:
            g = make_manager(materialise(c["cfg"]))
            d = g._design
            dom = d.coordinates_domain_nested
            gc = c["cfg"]["geometric_constraints"]
            ob = gc["property_boundary"]
            ob = [ob] if isinstance(ob[0][0], (int, float)) else ob
            L = max(float(v[0]) for o in ob for v in o)
            W = max(float(v[1]) for o in ob for v in o)
            grid, _ = bi_rectangle_nested(L, W, gc["b_min"], gc["b_max_x"], gc["b_max_y"])
            def pts(f):
                return [[unfr(Fraction(x)), unfr(Fraction(y))] for x, y in f]
            out["design"].append({"ok": True, "fields": [[pts(f) for f in l] for l in dom], "grid": [[pts(f) for f in l] for l in grid],
                                  "ndesc": [len(x) for x in d.fieldDescriptors]})
        except Exception as ex:
            out["design"].append({"ok": False, "exc": type(ex).__name__, "msg": str(ex)[:200]})
    emit(out)
