"""geom.py — real shape.point_polygon_check / feature_recognition.remove_cutout on generated inputs.
payload {"ppc":[{"poly":[[x,y]...], "pts":[[num,den,num,den]...]}], "cutout":[...], "float": bool}"""
from common import *
from ghedesigner.shape import point_polygon_check
from ghedesigner.feature_recognition import remove_cutout


def conv(v, flt):
    f = Fraction(int(v[0]), int(v[1]))
    return float(f) if flt else f


if __name__ == "__main__":
    p = read_payload()
    out = {"ppc": [], "cutout": []}
    for c in p.get("ppc", []):
        flt = c.get("float", True)
        poly = [(conv(v[0:2], flt), conv(v[2:4], flt)) for v in c["poly"]]
        res = []
        for q in c["pts"]:
            pt = (conv(q[0:2], flt), conv(q[2:4], flt))
            try:
                res.append(point_polygon_check(poly, pt) if "tol" not in c else point_polygon_check(poly, pt, on_edge_tolerance=c["tol"]))
            except Exception as ex:
                res.append("EXC:" + type(ex).__name__)
        out["ppc"].append(res)
    for c in p.get("cutout", []):
        flt = c.get("float", False)
        coords = [(conv(v[0:2], flt), conv(v[2:4], flt)) for v in c["coords"]]
        bs = [[(conv(v[0:2], flt), conv(v[2:4], flt)) for v in b] for b in c["boundaries"]]
        try:
            kept = remove_cutout(coords, bs, remove_inside=c["remove_inside"], keep_contour=c["keep_contour"])
            out["cutout"].append({"ok": True, "kept": [coords.index(k) for k in kept], "n": len(kept)})
        except Exception as ex:
            out["cutout"].append({"ok": False, "exc": type(ex).__name__, "msg": str(ex)[:200]})
    emit(out)
