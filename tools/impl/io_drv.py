"""io_drv.py — write_input_file -> validate_input_file -> CLI loading path -> write_input_file again (C17)"""
from common import *
import tempfile, shutil
from pathlib import Path
import e2e


def roundtrip(c):
    import ghedesigner.manager as M
    from ghedesigner.validate import validate_input_file
    cfg = e2e.materialise(c)
    if c.get("_years_of_loads", 1) > 1:
        yl = cfg["loads"]["ground_loads"]
        cfg["loads"]["ground_loads"] = [round(v * (1.0 + 0.01 * k), 3) for k in range(c["_years_of_loads"]) for v in yl]
    tmp = Path(tempfile.mkdtemp(prefix="verif_c17_"))
    out = {}
    try:
        g = e2e.make_manager(cfg)
        p1 = tmp / "in1.json"
        g.write_input_file(p1)
        txt1 = p1.read_text()
        d1 = json.loads(txt1)
        out["keys"] = {sec: sorted(d1[sec].keys()) for sec in ("fluid", "grout", "soil", "pipe", "borehole", "simulation", "geometric_constraints", "design")}
        out["nulls"] = [f"{sec}.{k}" for sec in out["keys"] for k in d1[sec] if d1[sec][k] is None]
        # the written file against the configuration handed to the API (same format): every value given is the value written
        wv = []
        for sec in out["keys"]:
            for k, v in cfg.get(sec, {}).items():
                w = d1[sec].get(k, "<absent>")
                if k == "property_boundary" and isinstance(v, list) and v and isinstance(v[0][0], (int, float)) and isinstance(w, list) and w and isinstance(w[0][0], list):
                    v = [v]              # one outline may be given bare; the constrained-search writer stores the list of outlines
                same = (w == v) or (isinstance(v, str) and isinstance(w, str) and w.upper() == v.upper()) or \
                    (isinstance(v, (int, float)) and not isinstance(v, bool) and isinstance(w, (int, float)) and abs(w - v) <= 1e-9 * max(1.0, abs(v)))
                if not same:
                    wv.append(f"{sec}.{k}: given {v!r}, written {w!r}")
        out["written_vs_given"] = wv[:8]
        import io, contextlib
        err = io.StringIO()
        with contextlib.redirect_stderr(err):
            out["validate_errors"] = validate_input_file(p1)
        out["validate_msg"] = err.getvalue()[-300:]
        # the CLI loading path, with the design run replaced by a capture of the manager
        captured = {}
        orig = (M.GHEManager.find_design, M.GHEManager.prepare_results, M.GHEManager.write_output_files)

        def fd(self, throw=True):
            captured["m"] = self
            return 0
        M.GHEManager.find_design = fd
        M.GHEManager.prepare_results = lambda self, *a, **k: None
        M.GHEManager.write_output_files = lambda self, *a, **k: None
        try:
            with contextlib.redirect_stderr(err):
                rc = M._run_manager_from_cli_worker(p1, tmp / "out")
        finally:
            M.GHEManager.find_design, M.GHEManager.prepare_results, M.GHEManager.write_output_files = orig
        out["load_rc"] = rc
        if "m" in captured:
            p2 = tmp / "in2.json"
            captured["m"].write_input_file(p2)
            txt2 = p2.read_text()
            out["same_bytes"] = (txt1 == txt2)
            if txt1 != txt2:
                d2 = json.loads(txt2)
                diff = []
                for sec in d1:
                    if d1[sec] != d2.get(sec):
                        if isinstance(d1[sec], dict):
                            diff += [f"{sec}.{k}: {d1[sec].get(k)!r} -> {d2[sec].get(k)!r}" for k in set(d1[sec]) | set(d2[sec]) if d1[sec].get(k) != d2[sec].get(k)]
                        else:
                            diff.append(sec)
                out["diff"] = diff[:8]
        else:
            out["same_bytes"] = None
        out["ok"] = True
    except Exception as ex:
        import traceback
        out = {"ok": False, "exc": type(ex).__name__, "msg": traceback.format_exc()[-500:]}
    finally:
        shutil.rmtree(tmp, ignore_errors=True)
    return out


def same_design(c):
    """the design found through the API against the design found by running the file the API wrote through the command-line entry"""
    import ghedesigner.manager as M
    cfg = e2e.materialise(c)
    tmp = Path(tempfile.mkdtemp(prefix="verif_c17d_"))
    out = {}
    try:
        g = e2e.make_manager(cfg)
        p1 = tmp / "in1.json"
        g.write_input_file(p1)
        try:
            g.find_design()
            api = e2e.summarise(g)
            api = {"nbh": api["nbh"], "H": api["H"], "max": api.get("max_eft"), "min": api.get("min_eft"), "rho": api.get("fluid_rho")}
        except ValueError as ex:
            api = {"exc": "ValueError"}
        import io, contextlib
        err = io.StringIO()
        with contextlib.redirect_stderr(err), contextlib.redirect_stdout(err):
            rc = M._run_manager_from_cli(str(p1), str(tmp / "out"), False, None)
        cli = {"rc": rc}
        sp = tmp / "out" / "SimulationSummary.json"
        if sp.exists():
            dd = json.loads(sp.read_text())
            d = dd["ghe_system"]
            cli.update({"nbh": d["number_of_boreholes"], "H": d["active_borehole_length"]["value"], "max": dd["simulation_results"]["max_hp_eft"]["value"],
                        "min": dd["simulation_results"]["min_hp_eft"]["value"], "rho": d["fluid_density"]["value"]})
        out = {"ok": True, "api": api, "cli": cli}
    except Exception as ex:
        import traceback
        out = {"ok": False, "exc": type(ex).__name__, "msg": traceback.format_exc()[-500:]}
    finally:
        shutil.rmtree(tmp, ignore_errors=True)
    return out


if __name__ == "__main__":
    p = read_payload()
    if p.get("mode") == "same_design":
        emit([same_design(c) for c in p["cases"]])
    else:
        emit([roundtrip(c) for c in p["cases"]])
