"""lib.py — shared machinery of the checks: source regeneration, Coq build, evaluation of generated
case files inside Coq, Print Assumptions parsing, evidence, violations, known findings."""
import fcntl, hashlib, json, os, random, re, shutil, subprocess, sys, time
from fractions import Fraction

VERIF = os.path.dirname(os.path.dirname(os.path.abspath(__file__)))
REPO = os.environ.get("VERIF_REPO", "/repo")
# VERIF_WORK (optional): an isolated work area — its own copy of the Coq tree, build directory, evidence and replays — so that
# several trees (e.g. seeded changes in scratch worktrees, VERIF_REPO) can be checked in parallel without touching /verif's outputs
WORK = os.environ.get("VERIF_WORK") or VERIF
COQ = os.path.join(WORK, "coq")
BUILD = os.path.join(WORK, "build")
if WORK != VERIF and not os.path.exists(COQ):
    shutil.copytree(os.path.join(VERIF, "coq"), COQ, ignore=shutil.ignore_patterns("*.vo", "*.vok", "*.vos", "*.glob", "*.aux", ".*.aux", "Makefile*", ".Makefile.d"))
PY = "/venv/bin/python"
NPROC = os.cpu_count() or 8

os.makedirs(BUILD, exist_ok=True)
os.makedirs(os.path.join(WORK, "evidence"), exist_ok=True)
os.makedirs(os.path.join(WORK, "replays"), exist_ok=True)


def sh(cmd, timeout=600, cwd=None, env=None, inp=None):
    e = dict(os.environ)
    e.update({"PYTHONPATH": REPO, "PYTHONHASHSEED": "0", "PIP_NO_INDEX": "1", "OMP_NUM_THREADS": "1",
              "OPENBLAS_NUM_THREADS": "1", "MKL_NUM_THREADS": "1", "NUMEXPR_NUM_THREADS": "1"})
    if env:
        e.update(env)
    try:
        p = subprocess.run(cmd, shell=isinstance(cmd, str), cwd=cwd, env=e, input=inp, capture_output=True, text=True,
                           timeout=timeout)
        return p.returncode, p.stdout, p.stderr
    except subprocess.TimeoutExpired as ex:
        return 124, (ex.stdout or b"").decode() if isinstance(ex.stdout, bytes) else (ex.stdout or ""), "TIMEOUT"


# ---------------------------------------------------------------- Q literals
def q(v):
    """exact Coq Q literal of an int / float / Fraction"""
    if isinstance(v, bool):
        return "true" if v else "false"
    fr = Fraction(v)
    n, d = fr.numerator, fr.denominator
    return f"({n} # {d})" if n >= 0 else f"(-{-n} # {d})"


def qlist(vs):
    return "[" + "; ".join(q(v) for v in vs) + "]"


def z(v):
    v = int(v)
    return f"{v}" if v >= 0 else f"({v})"


def coq_bool(b):
    return "true" if b else "false"


# ---------------------------------------------------------------- repo hash
def repo_hash():
    h = hashlib.sha256()
    for root, dirs, files in os.walk(os.path.join(REPO, "ghedesigner")):
        dirs[:] = sorted(d for d in dirs if d not in ("__pycache__", "tests"))
        for f in sorted(files):
            if f.endswith((".py", ".json")):
                p = os.path.join(root, f)
                h.update(p.encode())
                with open(p, "rb") as fh:
                    h.update(fh.read())
    return h.hexdigest()[:16]


class Lock:
    def __init__(self, name="coq"):
        self.path = os.path.join(BUILD, f".{name}.lock")

    def __enter__(self):
        self.f = open(self.path, "w")
        fcntl.flock(self.f, fcntl.LOCK_EX)
        return self

    def __exit__(self, *a):
        fcntl.flock(self.f, fcntl.LOCK_UN)
        self.f.close()


class Check:
    def __init__(self, pid, tier, seed):
        self.pid = pid
        self.tier = tier
        self.seed = seed
        self.rng = random.Random(seed * 1000003 + int(pid[1:]))
        self.t0 = time.time()
        self.violations = []
        self.known_hits = []
        self.broken = []            # broken obligations / correspondences (names)
        self.cov = {"evaluations": 0, "distinct_nontrivial": 0, "rule": "", "samples": [],
                    "obligations": 0, "discharged": 0, "checker_cmd": "", "trusted_base": [],
                    "traces_validated_against_impl": 0}
        self.assumptions = []
        self.notes = []
        self.scratch = os.path.join(BUILD, f"run_{pid}_{os.getpid()}")
        os.makedirs(self.scratch, exist_ok=True)
        self.findings = load_known_findings()
        self.srcgen_status = None
        self.theorems = []
        self.axioms = {}

    # ------------------------------------------------------------ srcgen + coq build
    def regenerate(self):
        """regenerate gen/Src.v from /repo; returns status dict"""
        with Lock():
            rc, out, err = sh([PY, os.path.join(VERIF, "tools", "srcgen.py")], timeout=120, env={"VERIF_COQ": COQ})
        line = [l for l in out.splitlines() if l.startswith("{")]
        st = json.loads(line[-1]) if line else {"ok": False, "error": (err or out)[-400:]}
        self.srcgen_status = st
        if not st.get("ok"):
            self.broken.append({"name": "srcgen (source no longer extractable)", "detail": st.get("error")})
        return st

    def coq_make(self, targets, timeout=1500):
        """full .vo build of the given targets (relative to coq/); returns (ok, failing_file, log_tail)"""
        with Lock():
            if not os.path.exists(os.path.join(COQ, "Makefile")):
                sh("coq_makefile -f _CoqProject -o Makefile", cwd=COQ, timeout=120)
            tg = " ".join(targets)
            rc, out, err = sh(f"timeout {timeout} make -j{NPROC} {tg}", cwd=COQ, timeout=timeout + 30)
        log = (out + "\n" + err)
        if rc == 0:
            return True, None, ""
        m = re.findall(r'File "\./([^"]+)", line (\d+)', log)
        failing = m[-1] if m else None
        return False, failing, log[-1500:]

    def build(self, props_file, extra=()):
        """regenerate + build the closure of Props/<pid>.v.  A failure is recorded as a broken obligation."""
        st = self.regenerate()
        targets = [f"theories/Props/{props_file}.vo"] + [f"theories/{e}.vo" for e in extra]
        if not st.get("ok"):
            # Src.v is stale: the theorems on disk no longer speak about the current source
            self.model_ok = self._models_built(extra)
            return False
        ok, failing, log = self.coq_make(targets)
        if not ok:
            name = "coq build"
            if failing:
                name = f"{failing[0]}:{failing[1]} ({self._lemma_at(failing[0], int(failing[1]))})"
            self.broken.append({"name": name, "detail": log[-600:]})
            # try to at least get the models so that the correspondence can run
            self.model_ok = self._try_models(extra)
            return False
        self.model_ok = True
        self.read_assumptions(props_file)
        return True

    def _models_built(self, extra):
        return all(os.path.exists(os.path.join(COQ, "theories", e + ".vo")) for e in extra)

    def _try_models(self, extra):
        models = [f"theories/{e}.vo" for e in extra if e.startswith("Model/")]
        if not models:
            return False
        ok, _, _ = self.coq_make(models)
        return ok

    def _lemma_at(self, relfile, line):
        try:
            with open(os.path.join(COQ, relfile)) as f:
                lines = f.readlines()
            for i in range(min(line, len(lines)) - 1, -1, -1):
                m = re.match(r"\s*(Lemma|Theorem|Corollary|Example|Definition|Fixpoint|Instance)\s+(\w+)", lines[i])
                if m:
                    return m.group(2)
        except OSError:
            pass
        return "?"

    def read_assumptions(self, props_file):
        """compile the Props file once more to capture Print Assumptions output (cheap: deps are built)"""
        path = os.path.join(COQ, "theories", "Props", props_file + ".v")
        with open(path) as f:
            src = f.read()
        self.theorems = re.findall(r"^(?:Theorem|Corollary|Lemma)\s+(\w+)", src, re.M)
        with Lock():
            rc, out, err = sh(f"timeout 600 coqc -Q theories GHE theories/Props/{props_file}.v", cwd=COQ, timeout=630)
        blocks = {}
        cur = None
        names = re.findall(r"^Print Assumptions\s+(\w+)\.", src, re.M)
        idx = 0
        for line in out.splitlines():
            if line.startswith("Closed under the global context"):
                if idx < len(names):
                    blocks[names[idx]] = []
                    idx += 1
                cur = None
            elif line.startswith("Axioms:"):
                if idx < len(names):
                    cur = names[idx]
                    blocks[cur] = []
                    idx += 1
            elif cur is not None and line and not line.startswith(" ") and ":" in line:
                blocks[cur].append(line.split(":")[0].strip())
            elif cur is not None and line.startswith("  ") is False and line.strip() == "":
                pass
        self.axioms = blocks
        self.cov["obligations"] = len(self.theorems)
        self.cov["discharged"] = len(self.theorems) if rc == 0 else 0
        self.cov["checker_cmd"] = f"cd coq && make theories/Props/{props_file}.vo  (coqc 8.16.1, full .vo build; Print Assumptions under every theorem)"
        allax = sorted({a for v in blocks.values() for a in v})
        self.cov["axioms_per_theorem"] = blocks
        self.cov["theorems"] = self.theorems
        self.cov["axioms"] = allax
        return blocks

    # ------------------------------------------------------------ evaluating case files inside Coq
    def coq_eval(self, name, text, timeout=300):
        """write build/run_x/<name>.v and compile it; returns stdout"""
        path = os.path.join(self.scratch, name + ".v")
        with open(path, "w") as f:
            f.write(text)
        rc, out, err = sh(f"timeout {timeout} coqc -Q {COQ}/theories GHE {path}", cwd=self.scratch, timeout=timeout + 20)
        return rc, out, err

    def coq_eval_many(self, files, timeout=300):
        """files: list of (name, text); run in parallel; returns list of (name, rc, out, err)"""
        from concurrent.futures import ThreadPoolExecutor
        with ThreadPoolExecutor(max_workers=NPROC) as ex:
            res = list(ex.map(lambda nt: (nt[0],) + self.coq_eval(nt[0], nt[1], timeout), files))
        return res

    # ------------------------------------------------------------ reporting
    def violation(self, kind, inp, observed, required, broken_obligation=None, found_input=True, extra=None, signature=None):
        payload = {"property": self.pid, "kind": kind, "seed": self.seed, "tier": self.tier, "input": inp,
                   "observed": observed, "required": required, "broken_obligation": broken_obligation,
                   "failing_input_found": found_input}
        if extra:
            payload.update(extra)
        sig = signature or hashlib.sha256(json.dumps([kind, inp], sort_keys=True, default=str).encode()).hexdigest()[:12]
        kf = self.is_known(sig)
        if kf is not None:
            # a listed finding: identified by this exact input; reported as KNOWN-FINDING, not as a violation
            if not any(k[0] is kf for k in self.known_hits):
                self.known_hits.append((kf, kf.get("what", required)))
            return None
        path = os.path.join(WORK, "replays", f"{self.pid}_{sig}.json")
        with open(path, "w") as f:
            json.dump(payload, f, indent=1, default=str)
        self.violations.append((path, found_input, payload))
        return path

    def is_known(self, signature):
        """open known finding with this signature?"""
        for kf in self.findings:
            if kf.get("property") == self.pid and kf.get("status") == "open" and kf.get("signature") == signature:
                return kf
        return None

    def known(self, kf, what):
        self.known_hits.append((kf, what))

    def open_findings(self, kind=None):
        return [k for k in self.findings if k.get("property") == self.pid and k.get("status") == "open"
                and (kind is None or k.get("kind") == kind)]

    def listed_inputs(self, kind=None):
        """inputs of every listed finding of this property (open and fixed): the regression corpus that runs first"""
        return [k for k in self.findings if k.get("property") == self.pid and "input" in k and (kind is None or k.get("kind") == kind)]

    def finish(self, level="proof", assumptions=None):
        wall = time.time() - self.t0
        if NONFINITE and not self.violations:
            names = sorted(set(f"{s_}: {t_}" for s_, t_ in NONFINITE))
            self.broken.append({"name": "the implementation returned non-finite numbers (NaN / Infinity) to the harness and no oracle flagged them "
                                        "(NaN passes any tolerance comparison)", "detail": "; ".join(names)[:300] + f" ({len(NONFINITE)} values)"})
        # broken obligations without any violation found on the implementation
        if self.broken and not any(v[1] for v in self.violations):
            names = "; ".join(b["name"] for b in self.broken)
            self.violation("broken-obligation", {"obligations": self.broken}, "theorem or correspondence no longer checks",
                           "the proof obligations and the model/implementation correspondence must check",
                           broken_obligation=names, found_input=False)
        tb = [
            "Coq 8.16.1 kernel; vm_compute used; no native_compute",
            "axioms per theorem as printed by Print Assumptions on this run: " + json.dumps(self.axioms, sort_keys=True),
            "tools/srcgen.py (Python ast -> Gallina translator, fail-closed) regenerated gen/Src.v from /repo on this run: "
            + json.dumps({k: self.srcgen_status.get(k) for k in ("ok", "sha", "changed", "definitions")} if self.srcgen_status else None),
            "hand-written models are tied to the code by the correspondence runs counted in traces_validated_against_impl",
        ] + list(self.cov.get("trusted_base", []))
        self.cov["trusted_base"] = tb
        if not self.cov.get("discharged"):
            # schema: proof keys need >= 1; a run whose proofs did not check reports the generic counts instead
            self.cov["obligations_not_discharged"] = self.cov.pop("obligations", 0)
            self.cov.pop("discharged", None)
        self.cov["distinct_nontrivial"] = max(int(self.cov.get("distinct_nontrivial", 0)), 0)
        ev = {"property_id": self.pid, "tier": self.tier, "seed": self.seed, "level": level, "coverage": self.cov,
              "assumptions": (assumptions or []) + self.assumptions, "wall_s": round(wall, 2),
              "violations": len(self.violations),
              "known_findings_reproduced": [k[0].get("signature") for k in self.known_hits],
              "broken_obligations": self.broken, "notes": self.notes, "repo_hash": repo_hash()}
        if not getattr(self, "replaying", False):       # a replay never rewrites the evidence of the last check run
            with open(os.path.join(WORK, "evidence", f"{self.pid}.json"), "w") as f:
                json.dump(ev, f, indent=1, default=str)
        shutil.rmtree(self.scratch, ignore_errors=True)
        for kf, what in self.known_hits:
            print(f"KNOWN-FINDING: property={self.pid} {what}")
        for path, found, payload in self.violations:
            tail = "" if found else " no-failing-input-found"
            print(f"VIOLATION property={self.pid} replay={path}{tail}")
        print(f"[{self.pid}] tier={self.tier} seed={self.seed} evaluations={self.cov['evaluations']} "
              f"theorems={self.cov.get('discharged', 0)}/{self.cov.get('obligations', self.cov.get('obligations_not_discharged'))} violations={len(self.violations)} "
              f"known={len(self.known_hits)} wall={wall:.1f}s")
        return 1 if self.violations else 0

    def sample(self, s, cap=6):
        if len(self.cov["samples"]) < cap:
            self.cov["samples"].append(s)


def load_known_findings():
    p = os.path.join(VERIF, "known_findings.json")
    if os.path.exists(p):
        with open(p) as f:
            return json.load(f).get("findings", [])
    return []


def parse_eval_outputs(out):
    """split the stdout of a file with several `Eval vm_compute in ...` into the printed values (as strings)"""
    vals = []
    cur = None
    for line in out.splitlines():
        if line.startswith("     = "):
            if cur is not None:
                vals.append(cur)
            cur = line[7:]
        elif line.startswith("     : "):
            if cur is not None:
                vals.append(cur)
                cur = None
        elif cur is not None:
            cur += " " + line.strip()
    if cur is not None:
        vals.append(cur)
    return vals


NONFINITE = []          # (driver script, token) for every NaN / Infinity a driver returned in this run


def run_impl(script, payload, timeout=600):
    """run tools/impl/<script> under the repo's python with a JSON payload on stdin; returns parsed JSON"""
    rc, out, err = sh([PY, os.path.join(VERIF, "tools", "impl", script)], inp=json.dumps(payload), timeout=timeout)
    lines = [l for l in out.splitlines() if l.startswith("{") or l.startswith("[")]
    if rc != 0 or not lines:
        return {"_error": f"rc={rc}: {(err or out)[-800:]}"}

    def nonfinite(tok):
        # NaN / Infinity coming back from the implementation must never pass a comparison silently (NaN > tol is False)
        NONFINITE.append((script, tok))
        return float("nan") if tok == "NaN" else float(tok.replace("Infinity", "inf"))
    return json.loads(lines[-1], parse_constant=nonfinite)


# ---------------------------------------------------------------- cached end-to-end runs
def e2e_runs(cfgs, with_series=False, timeout=1800, parallel=8):
    """run real designs (tools/impl/e2e.py) with a cache keyed by the hash of /repo's sources + the config.
    returns a list of result dicts (each with 'outdir' holding the written output files)."""
    from concurrent.futures import ThreadPoolExecutor
    with open(os.path.join(VERIF, "tools", "impl", "e2e.py"), "rb") as fh:
        rh = repo_hash() + "_" + hashlib.sha256(fh.read()).hexdigest()[:8]
    base = os.path.join(BUILD, "cache", rh)
    os.makedirs(base, exist_ok=True)
    # drop caches of other source states
    croot = os.path.join(BUILD, "cache")
    for d in os.listdir(croot):
        if d != rh:
            shutil.rmtree(os.path.join(croot, d), ignore_errors=True)

    def one(cfg):
        key = hashlib.sha256(json.dumps([cfg, with_series], sort_keys=True).encode()).hexdigest()[:16]
        d = os.path.join(base, key)
        rj = os.path.join(d, "result.json")
        if os.path.exists(rj):
            with open(rj) as f:
                return json.load(f)
        os.makedirs(d, exist_ok=True)
        res = run_impl("e2e.py", {"configs": [cfg], "outdir": d, "with_series": with_series}, timeout=timeout)
        if isinstance(res, dict) and "_error" in res:
            r = {"ok": False, "exc": "HarnessError", "msg": res["_error"]}
        else:
            r = res[0]
        r["cfg"] = cfg
        if r.get("exc") != "HarnessError":
            with open(rj, "w") as f:
                json.dump(r, f)
        return r

    with ThreadPoolExecutor(max_workers=parallel) as ex:
        return list(ex.map(one, cfgs))
