#!/bin/sh
# build the whole Coq development from the files on disk (offline); regenerate gen/Src.v from /repo first
set -e
cd "$(dirname "$0")/.."
mkdir -p build evidence replays coq/theories/gen
PYTHONPATH=/repo PYTHONHASHSEED=0 /venv/bin/python tools/srcgen.py | grep -v '^WARNING' || true
cd coq
coq_makefile -f _CoqProject -o Makefile > /dev/null
timeout 3000 make -j16 2>&1 | tail -5
