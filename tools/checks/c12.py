"""C12 — reported results are self-consistent and describe the returned design."""
import csv, json, os, re
from fractions import Fraction as F
from lib import *
from configs import cfg

HEADER = """From Coq Require Import ZArith QArith List Bool.
From GHE Require Import Base.QUtil Model.ObjState.
Import ListNotations. Open Scope Q_scope.
"""
TOL = 1e-3


def gen_ops(rng, n):
    ops = []
    for _ in range(n):
        r = rng.random()
        if r < 0.35:
            ops.append(["hybrid"])
        elif r < 0.55:
            ops.append(["setH", rng.choice([60.0, 75.5, 100.0, 120.0, 135.0])])
        elif r < 0.8:
            ops.append(["size"])
        else:
            ops.append(["hourly"])
    ops.append(rng.choice([["size"], ["hybrid"]]))
    return ops


def op_cases(rng, tier):
    cs = []
    # loads chosen so that sizing ends bracketed, clamped low, clamped high
    for k, (scale, kind, dims) in enumerate([(300.0, "balanced", None), (9000.0, "balanced", (1, 2)), (60000.0, "heating", None), (7000.0, "cooling", (1, 2))] * (1 if tier == "quick" else 4)):
        ops = gen_ops(rng, rng.randrange(3, 7))
        if not any(o[0] == "size" for o in ops):          # every sequence sizes at least once (bracketed: cases 2 and 4; clamped: 1 and 3)
            ops.insert(rng.randrange(len(ops)), ["size"])
        nx, ny = dims if dims else (rng.choice([1, 2]), rng.choice([1, 2]))
        cs.append({"nx": nx, "ny": ny, "months": 12, "H": 100.0, "heights": [60.0, 97.5, 135.0],
                   "loads": {"kind": kind, "scale": scale, "seed": k + 1}, "pipe": ["SINGLEUTUBE", "COAXIAL", "DOUBLEUTUBEPARALLEL"][k % 3],
                   "ops": ops})
    return cs


def e2e_oracle(chk, r):
    """from the output files alone"""
    if not r.get("ok"):
        return 0
    od = r["outdir"]
    sfx = r.get("suffix", "")
    missing = [fn for fn in (f"SimulationSummary{sfx}.json", f"BoreFieldData{sfx}.csv", f"SimulationSummary{sfx}.txt", f"TimeDependentValues{sfx}.csv",
                             f"Loadings{sfx}.csv", f"Gfunction{sfx}.csv") if not os.path.exists(os.path.join(od, fn))]
    if missing:
        chk.violation("summary", r["cfg"], {"suffix": sfx, "missing_files": missing, "present": sorted(os.listdir(od))},
                      "every result file of a design carries the design's file suffix (the summary and the coordinate table belong together)")
        return 1
    with open(os.path.join(od, f"SimulationSummary{sfx}.json")) as f:
        js = json.load(f)
    with open(os.path.join(od, f"BoreFieldData{sfx}.csv")) as f:
        rows = list(csv.reader(f))[1:]
    gs = js["ghe_system"]
    n = 0
    nb, H, drill = gs["number_of_boreholes"], gs["active_borehole_length"]["value"], gs["total_drilling"]["value"]
    n += 1
    if nb != len(rows):
        chk.violation("summary", r["cfg"], {"number_of_boreholes": nb, "coordinate_rows": len(rows)}, "number of boreholes equals the number of coordinate rows")
    if abs(drill - nb * H) > 1e-9 * max(1.0, drill):
        chk.violation("summary", r["cfg"], {"total_drilling": drill, "count_x_height": nb * H}, "total drilling equals count x height")
    if r.get("nbh") is not None and (nb != r["nbh"] or abs(H - r["H"]) > 1e-9):
        chk.violation("summary", r["cfg"], {"summary": [nb, H], "design_returned_by_find_design": [r["nbh"], r["H"]]},
                      "the written summary reports the design that was just found (number of boreholes and height of the returned design)")
    sr = js["simulation_results"]
    if abs(sr["max_hp_eft"]["value"] - r["resim_max"]) > TOL or abs(sr["min_hp_eft"]["value"] - r["resim_min"]) > TOL:
        chk.violation("summary", r["cfg"], {"reported": [sr["max_hp_eft"]["value"], sr["min_hp_eft"]["value"]], "resimulated_at_reported_height": [r["resim_max"], r["resim_min"]], "H": H},
                      "reported max/min EFT are those of the reported field at the reported height (within 1e-3)")
    ref = r.get("reference")
    # 1e-2 K here: the reference builds its hybrid loads at the maximum height; a design clamped at the minimum height carries loads built
    # there, and the peak durations move the extremes by a few 1e-3 K (the 1e-3 K comparison above is made on the returned object itself)
    # ... every other design carries loads built at the maximum height, like the reference: the sizing tolerance applies
    rtol = 1e-2 if abs(H - r["limits"]["min_height"]) < 1e-9 else TOL
    if ref is not None and (abs(sr["max_hp_eft"]["value"] - ref["max"]) > rtol or abs(sr["min_hp_eft"]["value"] - ref["min"]) > rtol):
        chk.violation("summary", r["cfg"], {"reported": [sr["max_hp_eft"]["value"], sr["min_hp_eft"]["value"]], "from_the_requested_inputs": [ref["max"], ref["min"]], "H": H},
                      f"reported max/min EFT are those of the reported field at the reported height, simulated with the requested inputs (within {rtol})")
    lim = r["limits"]
    for row in js["design_selection_search_log"]["data"]:
        name, exc, mx, mn = row
        n += 1
        want = max(mx - lim["max_eft"], lim["min_eft"] - mn)
        if abs(exc - want) > 1e-9 * max(1.0, abs(want)):
            chk.violation("summary", r["cfg"], {"row": row}, "every search-log row: excess = max(max EFT - upper limit, lower limit - min EFT)")
            break
    return n


def run(chk):
    quick = chk.tier == "quick"
    chk.build("C12", extra=["Model/ObjState"])
    rng = chk.rng
    cases = op_cases(rng, chk.tier)
    from concurrent.futures import ThreadPoolExecutor
    with ThreadPoolExecutor(max_workers=NPROC) as ex:
        rs = list(ex.map(lambda c: run_impl("ghe_drv.py", {"mode": "ops", "cases": [c]}, timeout=900), cases))
    nontrivial = 0
    items = []
    for c, rr in zip(cases, rs):
        if isinstance(rr, dict) and "_error" in rr:
            chk.broken.append({"name": "correspondence C12 (implementation driver failed)", "detail": rr["_error"][-300:]})
            continue
        o = rr[0]
        if not o.get("ok"):
            chk.broken.append({"name": "operation sequence could not be run", "detail": json.dumps(o)[:300]})
            continue
        chk.cov["evaluations"] += len(o["trace"])
        mops = []
        for rec in o["trace"]:
            op = rec["op"]
            if "exc" in rec:
                # an exception from a plain simulation is C13's business (F5); here it breaks the trace
                chk.notes.append({"exception_in_trace": rec})
                break
            if op[0] == "setH":
                mops.append(f"SetH {q(op[1])}")
                continue
            if op[0] == "size":
                kind_ = "clamped_low" if abs(rec["H"] - 60.0) < 1e-9 else "clamped_high" if abs(rec["H"] - 135.0) < 1e-9 else "bracketed"
                dist = chk.cov.setdefault("input_distribution", {})
                dist["size/" + kind_] = dist.get("size/" + kind_, 0) + 1
                # the height the object reports after sizing is the one the root solver returned (not a rounded or otherwise edited copy)
                if rec.get("root") is not None and rec["H"] != rec["root"] and len(chk.violations) < 4:
                    chk.violation("ghe-ops", c, {"after": op, "height_stored": rec["H"], "height_returned_by_the_root_solver": rec["root"]},
                                  "the reported borehole height is the sized height (the root of the excess / the clamped bound)")
                mops.append(f"Size Hybrid {qlist(rec['evals'])} {q(rec['root'] if rec.get('root') is not None else rec['H'])}")
            else:
                mops.append(f"Simulate {'Hybrid' if op[0] == 'hybrid' else 'Hourly'}")
            nontrivial += 1
            st, fr = rec.get("stored"), rec.get("fresh")
            is_fresh = st is not None and fr is not None and abs(st[0] - fr[0]) <= 1e-9 and abs(st[1] - fr[1]) <= 1e-9
            if not is_fresh and st is not None and fr is not None and (abs(st[0] - fr[0]) > TOL or abs(st[1] - fr[1]) > TOL):
                chk.violation("ghe-ops", c, {"after": op, "H": rec["H"], "stored_max_min": st[:2], "fresh_at_H": fr},
                              "after sizing/simulating, the stored (reported) max/min EFT are those of the current height")
            items.append(f"([{'; '.join(mops)}], {q(rec['H'])}, {coq_bool(is_fresh or (st is not None and fr is not None and abs(st[0]-fr[0]) <= TOL and abs(st[1]-fr[1]) <= TOL))})")
    if getattr(chk, "model_ok", False) and items:
        txt = HEADER + "Definition cases : list (list op * Q * bool) := [\n" + ";\n".join(items) + """].
Definition g0 : ghe := {| Hcur := 100; stored := None; times_of := None |}.
Definition ok (c : list op * Q * bool) : bool :=
  let '(ops, h, fresh_obs) := c in let g := run g0 ops in
  qeqb (Hcur g) h && Bool.eqb fresh_obs (match stored g with Some r => qeqb (r_h r) (Hcur g) && method_eqb (r_m r) (r_axis r) | None => false end).
Eval vm_compute in (length cases, length (filter (fun c => negb (ok c)) cases)).
"""
        rc, out, err = chk.coq_eval("ops", txt)
        m = re.search(r"=\s*\((\d+)(?:%nat)?,\s*(\d+)(?:%nat)?\)", " ".join(out.split()))
        if rc != 0 or not m:
            chk.broken.append({"name": "correspondence C12 did not evaluate", "detail": (err or out)[-400:]})
        else:
            if int(m.group(2)):
                chk.broken.append({"name": "correspondence C12: Model/ObjState differs from the real GHE object (height or freshness of the stored temperatures)",
                                   "detail": f"{m.group(2)} of {m.group(1)} trace prefixes"})
            chk.cov["traces_validated_against_impl"] = int(m.group(1)) - int(m.group(2))
            chk.cov["correspondence_cases"] = int(m.group(1))
    # the four outcomes end to end: bracketed, clamped low, clamped high (unmet, continued)
    cfgs = [cfg(), cfg(loads={"kind": "balanced", "scale": 200.0, "seed": 1}, design={"continue_if_design_unmet": True}),
            cfg(loads={"kind": "balanced", "scale": 3000000.0, "seed": 1}, design={"continue_if_design_unmet": True}),
            cfg("RECTANGLE", "COAXIAL", loads={"kind": "cooling", "scale": 500.0, "seed": 3}, design={"continue_if_design_unmet": True}),
            # one-sided loads: every temperature stays on one side of the undisturbed ground temperature
            cfg(months=12, loads={"kind": "constant", "scale": 24000.0, "seed": 1, "sign": 1.0}),
            cfg(months=12, loads={"kind": "constant", "scale": 30000.0, "seed": 1, "sign": -1.0}),
            # double U-tube (two U-tubes per borehole: drilling is still count x height)
            cfg("NEARSQUARE", "DOUBLEUTUBEPARALLEL", months=12),
            # temperature limits that are not round numbers (90 F / 40 F), both violated by the small fields tried first
            cfg(months=12, loads={"kind": "balanced", "scale": 45000.0, "seed": 6}, design={"max_eft": 32.2222, "min_eft": 4.4444})]
    # a flow given for the whole system: the flow per borehole (and with it R_b and the peak-load durations) changes from candidate to candidate
    cfgs += [cfg(months=12, loads={"kind": "balanced", "scale": 30000.0, "seed": 7}, flow=("SYSTEM", 1.6)),
             cfg("RECTANGLE", months=12, loads={"kind": "cooling", "scale": 26000.0, "seed": 2}, flow=("SYSTEM", 1.2))]
    # the same manager (and process) ran and wrote another study first — other limits, other loads, the same project name / notes / author / iteration
    again = cfg(months=12, loads={"kind": "balanced", "scale": 42000.0, "seed": 7}, design={"max_eft": 30.0, "min_eft": 8.0})
    again["_first_configured_with"] = {"design": {"max_eft": 35.0, "min_eft": 5.0}, "loads": {"synthetic": {"kind": "balanced", "scale": 26000.0, "seed": 7}}}
    cfgs.append(again)
    sx = cfg("RECTANGLE", months=12)
    sx["_suffix"] = "_A"
    cfgs.append(sx)
    if not quick:
        cfgs += [cfg(g, p, months=12) for g in ("BIRECTANGLE", "BIZONEDRECTANGLE", "ROWWISE", "BIRECTANGLECONSTRAINED") for p in ("SINGLEUTUBE", "DOUBLEUTUBESERIES")]
    for r in e2e_runs(cfgs):
        chk.cov["evaluations"] += 1
        if r.get("exc") == "HarnessError":
            chk.broken.append({"name": "end-to-end run failed in the harness", "detail": r.get("msg")})
            continue
        nontrivial += e2e_oracle(chk, r)
    chk.cov["distinct_nontrivial"] = nontrivial
    chk.cov["rule"] = ("random operation sequences (simulate hybrid/hourly, set height, size) on real GHE objects whose sizing ends bracketed / clamped low / clamped high, each compared with a fresh object; "
                       "real design runs (four sizing outcomes) checked from SimulationSummary.json and BoreFieldData.csv alone; non-trivial = one simulate/size step or one summary fact")
    chk.sample({"ops": cases[0]["ops"]})
    chk.cov["trusted_base"] = ["a fresh GHE object built from a deep copy of the pristine g-function table is the reference for 'the temperatures of this height'"]
    return chk.finish()


def replay(payload):
    from lib import Check
    chk = Check("C12", "quick", payload.get("seed", 0))
    if payload.get("kind") == "summary":
        for r in e2e_runs([payload["input"]]):
            e2e_oracle(chk, r)
    for path, found, pl in chk.violations:
        print(f"VIOLATION property=C12 replay={path}")
    return 1 if chk.violations else 0
