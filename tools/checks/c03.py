"""C03 — rectangular-family candidate fields stay on the land and respect spacing."""
import json, re
from fractions import Fraction as F
import math
from lib import *

FNS = {"rectangular": 4, "bi_rectangle_nested": 5, "bi_rectangle_zoned_nested": 5, "square_and_near_square": 3}
HEADER = """From Coq Require Import ZArith QArith List Bool.
From GHE Require Import Base.QUtil gen.Src Model.Domains.
Import ListNotations. Open Scope Q_scope.
"""


def fr2(x):
    x = F(x)
    return [x.numerator, x.denominator]


def gen_cases(rng, tier):
    cases = []
    n = 60 if tier == "quick" else 600
    for k in range(n):
        L = F(rng.randrange(8, 120), rng.choice([1, 1, 2, 3]))
        W = F(rng.randrange(8, 120), rng.choice([1, 1, 2, 3]))
        if k % 5 == 0:
            W = L
        bmin = F(rng.randrange(6, 40), 4)
        bx = bmin + F(rng.randrange(1, 40), 4)
        by = bmin + F(rng.randrange(1, 40), 4)
        flt = (k % 4 == 3)
        # keep sizes moderate: the number of points grows like (L/bmin)(W/bmin)
        while (L / bmin) * (W / bmin) > 110:
            bmin = bmin * F(5, 4)
        bx = bmin + F(rng.randrange(1, 40), 4)
        by = bmin + F(rng.randrange(1, 40), 4)
        cases.append({"fn": "rectangular", "args": [fr2(L), fr2(W), fr2(bmin), fr2(bx)], "float": flt})
        cases.append({"fn": "bi_rectangle_nested", "args": [fr2(L), fr2(W), fr2(bmin), fr2(bx), fr2(by)], "float": flt})
        if (L / bmin) * (W / bmin) < 60:
            cases.append({"fn": "bi_rectangle_zoned_nested", "args": [fr2(L), fr2(W), fr2(bmin), fr2(bx), fr2(by)], "float": flt})
        if k % 6 == 0:
            b = F(rng.randrange(8, 40), 4)
            cases.append({"fn": "square_and_near_square", "args": [fr2(1), fr2(rng.randrange(1, 12)), fr2(b)], "float": flt})
    # boundary stream for floats: ratios landing on ceil/floor boundaries
    for n1 in ([12, 29, 37] if tier == "quick" else list(range(5, 60, 3))):
        L = F(100)
        b = F(L, n1 - 1)
        cases.append({"fn": "bi_rectangle_nested", "args": [fr2(L), fr2(77), fr2(F(28, 10)), fr2(6), fr2(6)], "float": True, "boundary": True})
        cases.append({"fn": "rectangular", "args": [fr2(L), fr2(F(77)), fr2(b), fr2(b * 3)], "float": True, "boundary": True})
    return cases


def land_of(c):
    a = [F(*x) for x in c["args"]]
    if c["fn"] == "square_and_near_square":
        return None
    return a[0], a[1], a[2]


def oracle(chk, c, o):
    """direct geometric check on every field of every list produced by the REAL generator"""
    if not o["ok"]:
        # an empty spacing range (no integer n with b_min <= L/(n-1) <= b_max) is degenerate input, not examined here
        return 0
    n = 0
    tol = F(1, 10 ** 9) if c.get("float") else F(0)
    land = land_of(c)
    for li, l in enumerate(o["facts"]):
        counts = [f["n"] for f in l]
        if c["fn"] in ("rectangular", "bi_rectangle_nested", "square_and_near_square"):
            if any(b < a for a, b in zip(counts, counts[1:])):
                chk.violation("domains", c, {"list": li, "counts": counts}, "candidate list ordered by non-decreasing borehole count")
                return n
        for fi, f in enumerate(l):
            n += 1
            if land is not None:
                L, W, bmin = land
                if F(*f["xmin"]) < -tol or F(*f["ymin"]) < -tol or F(*f["xmax"]) > L + tol or F(*f["ymax"]) > W + tol:
                    chk.violation("domains", c, {"list": li, "field": fi, "bbox": [float(F(*f[k])) for k in ("xmin", "xmax", "ymin", "ymax")]},
                                  f"every borehole inside [0,{float(L)}]x[0,{float(W)}]")
                    return n
                if f["mind2"] is not None and F(*f["mind2"]) < (bmin - tol) ** 2:
                    chk.violation("domains", c, {"list": li, "field": fi, "n": f["n"], "min_distance": float(F(*f["mind2"])) ** 0.5},
                                  f"every pair of boreholes at least b_min = {float(bmin)} apart")
                    return n
            else:
                b = F(*c["args"][2])
                if f["mind2"] is not None and abs(F(*f["mind2"]) - b * b) > tol:
                    chk.violation("domains", c, {"field": fi, "min_distance2": float(F(*f["mind2"]))}, f"near-square grids at exactly spacing {float(b)}")
                    return n
    return n


def run(chk):
    quick = chk.tier == "quick"
    chk.build("C03", extra=["Model/Domains"])
    rng = chk.rng
    cases = gen_cases(rng, chk.tier)
    from concurrent.futures import ThreadPoolExecutor
    chunk = 12
    parts = [cases[i:i + chunk] for i in range(0, len(cases), chunk)]
    with ThreadPoolExecutor(max_workers=NPROC) as ex:
        rs = list(ex.map(lambda part: run_impl("domains_drv.py", {"cases": part}, timeout=1500), parts))
    outs = []
    for r in rs:
        if isinstance(r, dict) and "_error" in r:
            chk.broken.append({"name": "correspondence C03 (implementation driver failed)", "detail": r["_error"]})
            return chk.finish()
        outs += r
    chk.cov["evaluations"] += len(cases)
    dist = {}
    for c, o in zip(cases, outs):
        k = f"{c['fn']}/{'float' if c.get('float') else 'exact'}/{'ok' if o['ok'] else o['exc']}"
        dist[k] = dist.get(k, 0) + 1
    chk.cov["input_distribution"] = dist
    if sum(1 for o in outs if o["ok"]) * 2 < len(outs):
        chk.broken.append({"name": "C03 generators: fewer than half of the generated lands produced candidate lists (the check would be vacuous)", "detail": json.dumps(dist)})
    # listed findings first (exact inputs)
    for kf in chk.open_findings("domains"):
        r = run_impl("domains_drv.py", {"cases": [kf["input"]]})
        if not (isinstance(r, dict) and "_error" in r):
            oracle(chk, kf["input"], r[0])
    nontrivial = 0
    for c, o in zip(cases, outs):
        if len(chk.violations) >= 4:
            break
        nontrivial += oracle(chk, c, o)
    # correspondence: the functions regenerated from the source, evaluated in Coq on the exact cases
    if getattr(chk, "model_ok", False):
        exact = [(c, o) for c, o in zip(cases, outs) if not c.get("float") and o["ok"]]
        files = []
        per = 6
        for j in range(0, len(exact), per):
            items = []
            for c, o in exact[j:j + per]:
                a = [q(F(*x)) for x in c["args"]]
                if c["fn"] == "rectangular":
                    call = f"[rectangular {a[0]} {a[1]} {a[2]} {a[3]} false]"
                elif c["fn"] == "bi_rectangle_nested":
                    call = f"bi_rectangle_nested {a[0]} {a[1]} {a[2]} {a[3]} {a[4]} false"
                elif c["fn"] == "bi_rectangle_zoned_nested":
                    call = f"match bi_rectangle_zoned_nested {a[0]} {a[1]} {a[2]} {a[3]} {a[4]} with Ok d => d | Err _ => [] end"
                else:
                    call = f"match square_and_near_square {a[0]} {a[1]} {a[2]} with Ok d => [d] | Err _ => [] end"
                fps = "[" + "; ".join("[" + "; ".join("[" + "; ".join(q(F(*v)) if isinstance(v, list) else q(v) for v in fp) + "]" for fp in l) + "]" for l in o["fp"]) + "]"
                land = land_of(c)
                chk_ok = "true" if land is None else f"forallb (forallb (field_ok {q(land[0])} {q(land[1])} {q(land[2])})) ({call})"
                items.append(f"(list_eqb (list_eqb fp_eqb) (map (map fingerprint) ({call})) {fps}, {chk_ok})")
            txt = HEADER + "Definition res : list (bool * bool) := [\n" + ";\n".join(items) + """].
Eval vm_compute in (length res, length (filter (fun r => negb (fst r)) res), length (filter (fun r => negb (snd r)) res)).
"""
            files.append((f"dom{j // per}", txt))
        tot = bad = notok = 0
        for (name, rc, out, err) in chk.coq_eval_many(files, timeout=1200):
            m = re.search(r"=\s*\((\d+)%nat,\s*(\d+)%nat,\s*(\d+)%nat\)", " ".join(out.split()))
            if rc != 0 or not m:
                chk.broken.append({"name": f"correspondence C03/{name} did not evaluate", "detail": (err or out)[-400:]})
                continue
            tot += int(m.group(1)); bad += int(m.group(2)); notok += int(m.group(3))
        if bad:
            chk.broken.append({"name": "translation validation: generators regenerated from domains.py differ from the real ones", "detail": f"{bad} of {tot} cases (fingerprints per field)"})
        if notok:
            chk.broken.append({"name": "C03 checker evaluated on the regenerated generators inside Coq: some field is off the land or too dense", "detail": f"{notok} of {tot} cases"})
        chk.cov["traces_validated_against_impl"] = tot - bad
        chk.cov["correspondence_cases"] = tot
    chk.cov["distinct_nontrivial"] = nontrivial
    chk.cov["rule"] = ("random rational (length, width, b_min, b_max_x, b_max_y) incl. length <,=,> width and non-integer ratios, exact Fraction stream + float stream + float boundary "
                       "stream (ratios on ceil/floor boundaries); every field of every list checked (bounding box, exact minimum pairwise distance, ordering); non-trivial = one field")
    chk.sample({"case": cases[0], "fields": sum(len(l) for l in outs[0].get("facts", []))})
    chk.cov["trusted_base"] = ["fingerprints (count, sums of x, y, x^2, y^2, xy, first and last point) identify a field in the comparison with the generated functions"]
    # ---- whole designs through the manager (the way a user sets the land up): the returned field lies on the length x width land
    from configs import cfg
    lands = [("RECTANGLE", 44.0, 23.0), ("BIRECTANGLE", 23.0, 44.0), ("NEARSQUARE", 30.0, 30.0), ("BIZONEDRECTANGLE", 42.0, 26.0)]
    if not quick:
        lands += [("RECTANGLE", 23.0, 44.0), ("BIRECTANGLE", 44.0, 23.0), ("BIZONEDRECTANGLE", 26.0, 42.0)]
    cfgs = []
    for m, L, W in lands:
        go = {"length": L} if m == "NEARSQUARE" else {"length": L, "width": W}
        cfgs.append(cfg(m, months=12, loads={"kind": "balanced", "scale": 26000.0, "seed": 4}, geom_over=go))
    rb = cfg("RECTANGLE", months=12, loads={"kind": "balanced", "scale": 26000.0, "seed": 4}, geom_over={"length": 44.0, "width": 23.0, "b_min": 5.0, "b_max": 10.0})
    rb["_changed_after_design"] = {"section": "geometric_constraints", "values": {"b_min": 3.0}, "design_found_first": False}
    lands.append(("RECTANGLE", 44.0, 23.0))
    cfgs.append(rb)
    rn_ = cfg("NEARSQUARE", months=12, loads={"kind": "balanced", "scale": 26000.0, "seed": 4}, geom_over={"length": 39.0, "b": 6.5})
    rn_["_changed_after_design"] = {"section": "geometric_constraints", "values": {"b": 5.0}, "design_found_first": True}
    lands.append(("NEARSQUARE", 39.0, 39.0))
    cfgs.append(rn_)
    # the same manager (and process) first designed the same lot turned by 90 degrees
    rot = cfg("RECTANGLE", months=12, loads={"kind": "balanced", "scale": 26000.0, "seed": 4}, geom_over={"length": 14.0, "width": 34.0, "b_min": 3.0, "b_max": 7.0})
    rot["_first_configured_with"] = {"geometric_constraints": {"length": 34.0, "width": 14.0}}
    lands.append(("RECTANGLE", 14.0, 34.0))
    cfgs.append(rot)
    for (m, L, W), r in zip(lands, e2e_runs(cfgs)):
        if not r.get("ok"):
            chk.notes.append({"design_run": m, "exc": r.get("exc"), "msg": r.get("msg")})
            continue
        chk.cov["evaluations"] += 1
        W_ = L if m == "NEARSQUARE" else W
        xs = [p_[0] for p_ in r["coords"]]
        ys = [p_[1] for p_ in r["coords"]]
        if min(xs) < -1e-9 or min(ys) < -1e-9 or max(xs) > L + 1e-9 or max(ys) > W_ + 1e-9:
            chk.violation("design-land", r["cfg"], {"boreholes": r["nbh"], "x_range": [min(xs), max(xs)], "y_range": [min(ys), max(ys)]},
                          f"every borehole of the returned field inside the land: 0 <= x <= length = {L}, 0 <= y <= width = {W_}")
        gc_ = r["cfg"]["geometric_constraints"]
        bmin_ = gc_.get("b_min", gc_.get("b"))
        if bmin_ is not None and r["nbh"] > 1:
            pts_ = r["coords"]
            md = min(math.hypot(a_[0] - b_[0], a_[1] - b_[1]) for i_, a_ in enumerate(pts_) for b_ in pts_[i_ + 1:])
            if md < bmin_ - 1e-9 or (m == "NEARSQUARE" and abs(md - bmin_) > 1e-9):
                chk.violation("design-land", r["cfg"], {"boreholes": r["nbh"], "smallest_distance": md},
                              f"boreholes of the returned field at least b_min = {bmin_} apart (near-square: exactly b)")
    # ---- the candidate domains the design classes build from the user's land (set_geometry_constraints_* + set_design): every field of every
    #      list inside the land and at least b_min apart; side / spacing ratios that are not whole numbers
    dl = [("NEARSQUARE", {"length": 33.0, "b": 5.0}), ("NEARSQUARE", {"length": 37.7, "b": 5.8}), ("RECTANGLE", {"length": 46.3, "width": 27.4, "b_min": 3.7, "b_max": 9.1}),
          ("BIRECTANGLE", {"length": 27.4, "width": 46.3, "b_min": 3.7, "b_max_x": 9.1, "b_max_y": 11.2}),
          # the same lot turned by 90 degrees, in the same process
          ("BIRECTANGLE", {"length": 46.3, "width": 27.4, "b_min": 3.7, "b_max_x": 11.2, "b_max_y": 9.1}), ("BIZONEDRECTANGLE", {"length": 41.5, "width": 28.2, "b_min": 4.3, "b_max_x": 9.7, "b_max_y": 10.4})]
    if not quick:
        dl += [("NEARSQUARE", {"length": 61.5, "b": 6.15}), ("RECTANGLE", {"length": 27.4, "width": 46.3, "b_min": 3.7, "b_max": 9.1}), ("BIZONEDRECTANGLE", {"length": 28.2, "width": 41.5, "b_min": 4.3, "b_max_x": 9.7, "b_max_y": 10.4})]
    dr = run_impl("design_stub.py", {"cases": [{"cfg": cfg(m, months=12, geom_over=go), "thresholds": [], "want_extents": True} for m, go in dl]}, timeout=900)
    if isinstance(dr, dict) and "_error" in dr:
        chk.broken.append({"name": "design-domain harness failed", "detail": dr["_error"][-300:]})
    else:
        for (m, go), o in zip(dl, dr):
            if not o.get("ok"):
                chk.broken.append({"name": "design-domain harness failed", "detail": json.dumps(o)[-300:]})
                continue
            L = go["length"]
            W_ = go.get("width", L)
            bmin_ = go.get("b_min", go.get("b"))
            exts = o["extents"] if isinstance(o["extents"][0][0], (int, float)) else [e for l in o["extents"] for e in l]
            chk.cov["evaluations"] += len(exts)
            for e in exts:
                x0, y0, x1, y1, md, n = e
                if m == "NEARSQUARE":
                    # n x n or n x (n+1) grids at exactly spacing b with (n-1) b <= length (the longer side of an n x (n+1) grid may pass the side)
                    if (x0 < -1e-9 or y0 < -1e-9 or x1 > L + 1e-9 or y1 > x1 + bmin_ + 1e-9 or (md is not None and abs(md - bmin_) > 1e-9)) and len(chk.violations) < 5:
                        chk.violation("design-domain", {"method": m, "geometric_constraints": go}, {"boreholes": n, "x_range": [x0, x1], "y_range": [y0, y1], "smallest_distance": md},
                                      f"near-square candidates are n x n or n x (n+1) grids at exactly spacing b = {bmin_} with (n-1) b <= length = {L}")
                        break
                    continue
                if (x0 < -1e-9 or y0 < -1e-9 or x1 > L + 1e-9 or y1 > W_ + 1e-9) and len(chk.violations) < 5:
                    chk.violation("design-domain", {"method": m, "geometric_constraints": go}, {"boreholes": n, "x_range": [x0, x1], "y_range": [y0, y1]},
                                  f"every candidate field the design class builds lies on the land: 0 <= x <= {L}, 0 <= y <= {W_}")
                    break
                if md is not None and md < bmin_ - 1e-9 and len(chk.violations) < 5:
                    chk.violation("design-domain", {"method": m, "geometric_constraints": go}, {"boreholes": n, "smallest_distance": md}, f"boreholes of every candidate field at least {bmin_} apart")
                    break
    return chk.finish(assumptions=["float stream compared with 1e-9 m tolerance; theorems are about exact rationals"])


def replay(payload):
    from lib import Check
    chk = Check("C03", "quick", payload.get("seed", 0))
    if payload.get("kind") in ("design-domain", "design-land"):
        return "RERUN"
    c = payload["input"]
    r = run_impl("domains_drv.py", {"cases": [c]})
    oracle(chk, c, r[0])
    for path, found, pl in chk.violations:
        print(f"VIOLATION property=C03 replay={path}")
    return 1 if chk.violations else 0
