"""C02 — height bounds, borehole cap, unmet-design policy, exception discipline."""
from searchchecks import *
import re
from fractions import Fraction


def e2e_oracle(chk, r):
    c = r["cfg"]
    gc, dz = c["geometric_constraints"], c["design"]
    if not r.get("ok"):
        if r.get("exc") != "ValueError":
            chk.violation("end-to-end", c, {"exception": r.get("exc"), "msg": r.get("msg")}, "a run on valid input ends with a design or a ValueError")
        elif dz.get("continue_if_design_unmet"):
            chk.violation("end-to-end", c, {"exception": "ValueError", "msg": r.get("msg")}, "with continue_if_design_unmet the unmet design is returned, not an error")
        return
    if not (gc["min_height"] - 1e-9 <= r["H"] <= gc["max_height"] + 1e-9):
        chk.violation("end-to-end", c, {"H": r["H"]}, f"height within [{gc['min_height']}, {gc['max_height']}]")
    mb = dz.get("max_boreholes")
    if mb is not None and gc["method"] in ("NEARSQUARE", "RECTANGLE", "BIRECTANGLE", "BIZONEDRECTANGLE", "BIRECTANGLECONSTRAINED") and r["nbh"] > mb:
        chk.violation("end-to-end", c, {"nbh": r["nbh"]}, f"at most max_boreholes={mb}")
    if r["resim_excess"] > TOL:
        # unmet design returned: only allowed with the continue flag, at the largest@Hmax or smallest@Hmin
        if not dz.get("continue_if_design_unmet"):
            chk.violation("end-to-end", c, {"excess": r["resim_excess"], "nbh": r["nbh"], "H": r["H"]}, "an unmet design is an error unless the user asked to continue")
        elif abs(r["H"] - gc["max_height"]) > 1e-9:
            chk.violation("end-to-end", c, {"H": r["H"]}, "loads too large + continue: largest candidate at MAXIMUM height")
        elif gc["method"] == "NEARSQUARE" and mb is None:
            # the largest candidate of the near-square search is the largest square grid at spacing b that fits the side
            # (Props/C02.v: C02_near_square_largest_candidate), counted here exactly from the requested numbers
            n = int(Fraction(str(gc["length"])) / Fraction(str(gc["b"]))) + 1
            if r["nbh"] < n * n:
                chk.violation("end-to-end", c, {"nbh": r["nbh"], "largest_square_grid_that_fits": n * n},
                              "loads too large + continue: the LARGEST allowed candidate is returned")


def configs(tier):
    big = {"kind": "balanced", "scale": 3000000.0, "seed": 1}          # nothing fits a 40 m near-square lot
    tiny = {"kind": "balanced", "scale": 200.0, "seed": 1}            # one borehole at min height is already too much
    cs = [cfg(loads=big), cfg(loads=big, design={"continue_if_design_unmet": True}),
          cfg(loads=tiny), cfg(loads=tiny, design={"continue_if_design_unmet": True}),
          cfg("RECTANGLE", design={"max_boreholes": 12}), cfg("BIRECTANGLE", loads=big, design={"continue_if_design_unmet": True, "max_boreholes": 30}),
          cfg("ROWWISE", loads=big), cfg("ROWWISE", loads=tiny, design={"continue_if_design_unmet": True}),
          cfg("BIZONEDRECTANGLE", loads=big, design={"continue_if_design_unmet": True}),
          cfg("BIRECTANGLECONSTRAINED", loads=big, design={"continue_if_design_unmet": True})]
    # a manager whose design object was created for another height window / policy; only the simulation parameters are set again
    rw = cfg(months=12, loads={"kind": "balanced", "scale": 20000.0, "seed": 3}, geom_over={"min_height": 30.0, "max_height": 60.0})
    rw["_changed_after_design"] = {"section": "geometric_constraints", "values": {"min_height": 50.0, "max_height": 100.0}, "design_found_first": True}
    rp = cfg(loads=big, design={"continue_if_design_unmet": True})
    rp["_changed_after_design"] = {"section": "design", "values": {"continue_if_design_unmet": False}, "design_found_first": True}
    # the horizon given as a float (the schema's type is "number"): a whole number of months, and one that is not
    fm = cfg(months=12, loads={"kind": "balanced", "scale": 20000.0, "seed": 3})
    fm["simulation"]["num_months"] = 12.0
    fh = cfg(months=12, loads={"kind": "balanced", "scale": 20000.0, "seed": 3})
    fh["simulation"]["num_months"] = 18.5
    cs += [rw, rp, fm, fh]
    # RowWise borehole-removal path: the sparsest field suffices, smaller sub-fields may or may not
    cs += [rowwise_small_cfg(sc) for sc in ([9000.0, 14000.0, 22000.0] if tier == "quick" else [6000.0, 9000.0, 12000.0, 14000.0, 18000.0, 22000.0, 26000.0, 30000.0])]
    if tier != "quick":
        for g in ("RECTANGLE", "BIRECTANGLE", "BIZONEDRECTANGLE", "BIRECTANGLECONSTRAINED", "ROWWISE"):
            for ld in (big, tiny):
                for cont in (False, True):
                    cs.append(cfg(g, loads=ld, design={"continue_if_design_unmet": cont}))
        for mb in (2, 5, 9, 10, 17, 40):
            cs.append(cfg("NEARSQUARE", design={"max_boreholes": mb}))
            cs.append(cfg("BIZONEDRECTANGLE", design={"max_boreholes": mb}))
    return cs


def cli_policy(chk):
    """the unmet-design policy through the command-line worker (input files), also for a second file in the same process: an unmet design
    without the continue flag ends with a ValueError and no other exception; the flag of one file does not reach the next"""
    big = {"kind": "balanced", "scale": 3000000.0, "seed": 1}
    tiny = {"kind": "balanced", "scale": 200.0, "seed": 1}
    a = cfg(months=12, loads=big, design={"continue_if_design_unmet": True})
    b = cfg(months=12, loads=big)
    c = cfg("RECTANGLE", months=12, loads=tiny)
    seqs = [[b], [a, b], [a, c]] if chk.tier != "quick" else [[a, b], [c]]
    r = run_impl("e2e.py", {"mode": "cli_sequence", "sequences": seqs}, timeout=2400)
    if isinstance(r, dict) and "_error" in r:
        chk.broken.append({"name": "command-line sequences failed in the harness", "detail": r["_error"][-300:]})
        return
    for seq, outs in zip(seqs, r):
        for pos, (cf, o) in enumerate(zip(seq, outs)):
            chk.cov["evaluations"] += 1
            pub = {"file": {k: cf[k] for k in ("geometric_constraints", "design", "loads")}, "position_in_the_process": pos,
                   "design_sections_of_the_files_before": [x["design"] for x in seq[:pos]]}
            cont = cf["design"].get("continue_if_design_unmet", False)
            if len(chk.violations) >= 5:
                return
            if "exc" in o:
                if o["exc"] != "ValueError":
                    chk.violation("cli-policy", pub, {"exception": o["exc"], "msg": o.get("msg")}, "a run on valid input ends with a design or a ValueError; no other exception type escapes")
                elif cont:
                    chk.violation("cli-policy", pub, {"exception": "ValueError", "msg": o.get("msg")}, "with continue_if_design_unmet the unmet design is returned, not an error")
            elif not cont:
                chk.violation("cli-policy", pub, {"returned": {k: v for k, v in o.items() if k in ("rc", "nbh", "H", "max", "min")}},
                              "no candidate can meet the limits and the file does not ask to continue: the run ends with an error instead of a design")


def extras(chk):
    rowwise_decisions(chk)
    if len(chk.violations) < 5:
        design_level_search(chk, which="C02")
    if len(chk.violations) < 5:
        cli_policy(chk)


def run(chk):
    return run_search_check(chk, "C02", "C02", configs(chk.tier), e2e_oracle, extra=extras, extra_models=["Model/RowSearch"])


def replay(payload):
    from lib import Check
    chk = Check("C02", "quick", payload.get("seed", 0))
    if payload.get("kind") in ("design-stub", "cli-policy"):
        return "RERUN"
    return replay_common(chk, payload, "C02", e2e_oracle)
