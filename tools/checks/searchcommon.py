"""searchcommon.py — case generation, correspondence and property oracles for the search classes
(shared by C05, C02, C01).  The REAL Bisection1D/2D/ZD code runs with a table oracle; the Coq model
Model/Search.v runs on the same tables; outputs are compared exactly."""
import itertools, json, re
from fractions import Fraction as F
from lib import *

HMIN, HMAX = F(50), F(100)
EXN = {"ValueError", "IndexError", "ZeroDivisionError", "TypeError"}


def fr2(x):
    return [x.numerator, x.denominator]


def inc_counts(rng, n, style):
    if style == "nearsq":
        out, k = [], 1
        while len(out) < n:
            out.append(k * k)
            if len(out) < n:
                out.append(k * (k + 1))
            k += 1
        return out
    if style == "step1":
        return list(range(1, n + 1))
    out, c = [], rng.randrange(1, 4)
    for _ in range(n):
        out.append(c)
        c += rng.randrange(1, 6)
    return out


def gen1d(rng, tier):
    cases = []
    N = 20 if tier == "quick" else 48
    # A: monotone threshold, every position, both Hmin regimes
    for n in range(1, N + 1):
        cnt = inc_counts(rng, n, rng.choice(["nearsq", "step1", "rand"]))
        for t in range(0, n + 1):
            for D in (F(1, 4), F(1000)):
                tmax = [F(2 * (t - i) - 1, 2) + F(i, 1009) for i in range(n)]
                tmin = [v + D for v in tmax]
                for cont in ((False, True) if (t in (0, n) or n < 4) else (False,)):
                    cases.append(dict(kind="1d", fam="A", cnt=cnt, cap=None, cont=cont, max_iter=15, tmin=tmin, tmax=tmax))
        # caps at every count boundary for a few thresholds
        if n <= (10 if tier == "quick" else 24):
            for cap in sorted(set([cnt[0], cnt[0] + 1] + [c for c in cnt] + [c + 1 for c in cnt] + [0])):
                for t in {0, 1, n // 2, n - 1, n}:
                    if 0 <= t <= n:
                        tmax = [F(2 * (t - i) - 1, 2) + F(i, 1009) for i in range(n)]
                        tmin = [v + F(1000) for v in tmax]
                        cases.append(dict(kind="1d", fam="Acap", cnt=cnt, cap=cap, cont=rng.random() < 0.3, max_iter=15,
                                          tmin=tmin, tmax=tmax))
    # B: all sign patterns with distinct non-monotone magnitudes
    L = 7 if tier == "quick" else 10
    for n in range(1, L + 1):
        cnt = inc_counts(rng, n, "rand")
        for pat in itertools.product((1, -1), repeat=n):
            mags = [F(((i * 7) % 11) + 1) + F(i, 100) for i in range(n)]
            tmax = [s * m for s, m in zip(pat, mags)]
            tmin = [v + F(3, 7) for v in tmax]
            cases.append(dict(kind="1d", fam="B", cnt=cnt, cap=None, cont=False, max_iter=15, tmin=tmin, tmax=tmax))
    # C: random, with ties, zeros, tiny max_iter, duplicate counts, caps
    for _ in range(600 if tier == "quick" else 6000):
        n = rng.randrange(1, 14)
        cnt = inc_counts(rng, n, rng.choice(["nearsq", "step1", "rand"]))
        if rng.random() < 0.15 and n > 2:
            j = rng.randrange(1, n)
            cnt[j] = cnt[j - 1]
        pal = [F(-3), F(-2), F(-1), F(-1, 2), F(1, 2), F(1), F(2), F(3)] + ([F(0)] if rng.random() < 0.2 else [])
        tmax = [rng.choice(pal) for _ in range(n)]
        tmin = [rng.choice(pal) for _ in range(n)]
        cap = rng.choice([None, None, rng.randrange(0, cnt[-1] + 3)])
        cases.append(dict(kind="1d", fam="C", cnt=cnt, cap=cap, cont=rng.random() < 0.5,
                          max_iter=rng.choice([15, 15, 15, 0, 1, 2, 3]), tmin=tmin, tmax=tmax))
    # E: monotone thresholds whose excess values near the sign change are tiny (|excess| well below the 1e-3 K sizing tolerance):
    #    the search decides on the SIGN of the excess, however small
    for n in (5, 8, 13, 21) if tier == "quick" else (5, 8, 13, 21, 34, 55):
        cnt = inc_counts(rng, n, "rand")
        for t in range(1, n):
            eps = rng.choice([F(1, 2000), F(1, 10000), F(3, 10000), F(1, 1000000)])
            tmax = [(F(t - i) - F(1, 2)) * eps * rng.choice([1, 2, 3]) for i in range(n)]      # ... 1.5 eps, 0.5 eps, -0.5 eps, -1.5 eps ...
            tmin = [v + F(1000) for v in tmax]
            cases.append(dict(kind="1d", fam="E", cnt=cnt, cap=None, cont=False, max_iter=15, tmin=tmin, tmax=tmax))
    # E2 (directed, seed independent): every threshold position with the excess values next to the sign change a hair's breadth from zero
    #    (+-0.5e-6, +-0.5e-7 K): a candidate that misses the limit by less than any tolerance in use is still infeasible
    for n in (6, 11, 18) if tier == "quick" else (6, 11, 18, 30, 47):
        cnt = inc_counts(rng, n, "nearsq")
        for t in range(1, n):
            for eps in (F(1, 1000000), F(1, 10000000)):
                tmax = [(F(t - i) - F(1, 2)) * eps for i in range(n)]
                tmin = [v + F(1000) for v in tmax]
                cases.append(dict(kind="1d", fam="E2", cnt=cnt, cap=None, cont=False, max_iter=15, tmin=tmin, tmax=tmax))
    # D: long lists (bisection depth)
    for n in ([33, 64, 100] if tier == "quick" else [33, 64, 100, 257, 1000]):
        cnt = list(range(1, n + 1))
        for t in sorted({0, 1, 2, n // 3, n // 2, n - 2, n - 1, n}):
            tmax = [F(2 * (t - i) - 1, 2) for i in range(n)]
            tmin = [v + F(1000) for v in tmax]
            cases.append(dict(kind="1d", fam="D", cnt=cnt, cap=None, cont=False, max_iter=15, tmin=tmin, tmax=tmax))
    return cases


def gen_nested(rng, tier, kind):
    cases = []
    for _ in range(250 if tier == "quick" else 2500):
        nl = rng.randrange(1, 7)
        nested, base = [], rng.randrange(1, 4)
        for li in range(nl):
            n = rng.randrange(2 if li == 0 else 1, 8)
            l, c = [], base
            for _ in range(n):
                l.append(c)
                c += rng.randrange(1, 5)
            base = l[-1] + rng.randrange(0, 3) - (l[-1] - l[0]) // 2
            base = max(base, 1)
            nested.append(l)
        mode = rng.choice(["mono", "mono", "rand"])
        need = rng.randrange(0, max(max(l) for l in nested) + 3)
        tmin, tmax, drill = [], [], []
        for li, l in enumerate(nested):
            if mode == "mono":
                tm = [F(2 * (need - c) + 1, 2) + F(li, 97) + F(p, 1013) for p, c in enumerate(l)]
            else:
                tm = [rng.choice([F(-5, 2), F(-3, 2), F(-1, 3), F(2, 3), F(3, 2), F(7, 2)]) + F(rng.randrange(0, 50), 1000) for _ in l]
            tmax.append(tm)
            tmin.append([v + rng.choice([F(1, 5), F(40)]) for v in tm])
            drill.append([c * (HMIN + F(rng.randrange(0, 5001), 100)) for c in l])
        cap = rng.choice([None, None, None, rng.randrange(1, max(max(l) for l in nested) + 3)])
        cases.append(dict(kind=kind, fam=mode, nested=nested, cap=cap, cont=rng.random() < 0.4, max_iter=15,
                          tmin=tmin, tmax=tmax, drill=drill))
    return cases


def to_payload(c):
    d = dict(c)
    if c["kind"] == "1d":
        d["tmin"] = [fr2(x) for x in c["tmin"]]
        d["tmax"] = [fr2(x) for x in c["tmax"]]
    else:
        d["tmin"] = [[fr2(x) for x in l] for l in c["tmin"]]
        d["tmax"] = [[fr2(x) for x in l] for l in c["tmax"]]
        d["drill"] = [[fr2(x) for x in l] for l in c["drill"]]
    return d


def run_python(cases, chunk=400):
    from concurrent.futures import ThreadPoolExecutor
    parts = [cases[i:i + chunk] for i in range(0, len(cases), chunk)]

    def one(part):
        return run_impl("search_stub.py", {"cases": [to_payload(c) for c in part]}, timeout=900)
    with ThreadPoolExecutor(max_workers=NPROC) as ex:
        res = list(ex.map(one, parts))
    outs = []
    for r in res:
        if isinstance(r, dict) and "_error" in r:
            return None, r["_error"]
        outs += r
    return outs, None


# ---------------------------------------------------------------- Coq literals
def zl(l):
    return "[" + "; ".join(z(v) for v in l) + "]"


def hq(h):
    return h if h in ("Hmin", "Hmax") else "Hmin"


def tr1(t):
    return "[" + "; ".join(f"({z(i)}, {hq(h)})" for i, h in t) + "]"


def exn(name):
    return f"Err {name}" if name in EXN else "Err OutOfFuel"


def lit_case(c, o):
    cap = "None" if c["cap"] is None else f"(Some {z(c['cap'])})"
    if c["kind"] == "1d":
        if o["ok"]:
            exp = f"Ok ({z(o['sel'])}, {hq(o['init'][1])}, {tr1(o['trace'])})"
        else:
            exp = exn(o["exc"])
        return (f"{{| c_cnt := {zl(c['cnt'])}; c_cap := {cap}; c_cont := {coq_bool(c['cont'])}; c_iter := {c['max_iter']}%nat; "
                f"c_tmin := {qlist(c['tmin'])}; c_tmax := {qlist(c['tmax'])}; c_exp := {exp} |}}")
    nested = "[" + "; ".join(zl(l) for l in c["nested"]) + "]"
    tmin = "[" + "; ".join(qlist(l) for l in c["tmin"]) + "]"
    tmax = "[" + "; ".join(qlist(l) for l in c["tmax"]) + "]"

    def key(li, p):
        return li * 1000 + p
    segs = o.get("segs", [])
    if c["kind"] == "2d":
        if o["ok"]:
            outer = tr1([(key(li, p), h) for li, p, h in segs[0]])
            inner = tr1([(p, h) for li, p, h in segs[1]])
            exp = f"Ok ({z(o['sel_list'])}, {z(o['sel'])}, {hq(o['init'][2])}, {outer}, {inner})"
        else:
            exp = exn(o["exc"])
        return (f"{{| d_nested := {nested}; d_cap := {cap}; d_cont := {coq_bool(c['cont'])}; d_iter := {c['max_iter']}%nat; "
                f"d_tmin := {tmin}; d_tmax := {tmax}; d_exp := {exp} |}}")
    drill = "[" + "; ".join(qlist(l) for l in c["drill"]) + "]"
    if o["ok"]:
        outer = tr1([(key(li, p), h) for li, p, h in segs[0]])
        per = []
        done = set(int(k) for k in o.get("heights", {}))
        for sg in segs[1:]:
            if sg and sg[0][0] in done:      # searches that ended in ValueError (loop break) leave no trace in the model
                per.append(f"({z(sg[0][0])}, {tr1([(p, h) for li, p, h in sg])})")
        exp = f"Ok ({z(o['sel_list'])}, {z(o['sel'])}, {outer}, [{'; '.join(per)}])"
    else:
        exp = exn(o["exc"])
    return (f"{{| z_nested := {nested}; z_cap := {cap}; z_cont := {coq_bool(c['cont'])}; z_iter := {c['max_iter']}%nat; "
            f"z_tmin := {tmin}; z_tmax := {tmax}; z_drill := {drill}; z_exp := {exp} |}}")


HEADER = """From Coq Require Import ZArith QArith List Bool.
From GHE Require Import Base.QUtil gen.Src Model.Search Model.SearchCases.
Import ListNotations. Open Scope Z_scope.
"""


def coq_compare(chk, cases, outs, per=250):
    """returns (n_compared, list of mismatching case indices)"""
    files, index = [], []
    by = {"1d": ("case1", "ok1"), "2d": ("case2", "ok2"), "zd": ("casez", "okz")}
    for kind, (ty, okf) in by.items():
        idxs = [i for i, c in enumerate(cases) if c["kind"] == kind]
        for j in range(0, len(idxs), per):
            part = idxs[j:j + per]
            body = ";\n".join(lit_case(cases[i], outs[i]) for i in part)
            txt = HEADER + f"Definition cases : list {ty} := [\n{body}].\nEval vm_compute in count_bad {okf} cases.\n"
            files.append((f"s{kind}_{j // per}", txt))
            index.append(part)
    bad, total = [], 0
    for (name, rc, out, err), part in zip(chk.coq_eval_many(files, timeout=600), index):
        m = re.search(r"=\s*\((\d+)%nat,\s*(\d+)%nat,\s*\[(.*?)\]\)", " ".join(out.split()))
        if rc != 0 or not m:
            chk.broken.append({"name": f"correspondence search/{name} did not evaluate", "detail": (err or out)[-500:]})
            continue
        total += int(m.group(1))
        if int(m.group(2)):
            first = [int(x.replace("%nat", "")) for x in m.group(3).split(";") if x.strip()]
            bad += [part[k] for k in first]
            chk.broken.append({"name": f"correspondence search/{name}: model and implementation differ",
                               "detail": f"{m.group(2)} of {m.group(1)} cases; first case indices {first}"})
    return total, bad


# ---------------------------------------------------------------- stub physics for the property oracles
def e_lin(c, k, H, li=None):
    """excess of candidate k at height H: linear between the table values at Hmin and Hmax"""
    if li is None:
        a, b = c["tmin"][k], c["tmax"][k]
    else:
        a, b = c["tmin"][li][k], c["tmax"][li][k]
    return a + (b - a) * (F(H) - HMIN) / (HMAX - HMIN)


def real_size(c, k, li=None):
    """the real utilities.solve_root on the stub objective, as GHE.size calls it"""
    import sys
    sys.path.insert(0, REPO)
    from ghedesigner.utilities import solve_root
    f = lambda h: float(e_lin(c, k, F(h), li))
    return solve_root(float((HMIN + HMAX) / 2), f, lower=float(HMIN), upper=float(HMAX), abs_tol=1e-6, rel_tol=1e-6, max_iter=50)


def degenerate(c):
    """inputs outside the properties' domain: zero excess values, empty lists, cap excluding everything, tiny max_iter, ties"""
    if c["max_iter"] != 15:
        return True
    if c["kind"] == "1d":
        vals = c["tmin"] + c["tmax"]
        if any(v == 0 for v in vals) or not c["cnt"]:
            return True
        if c["cap"] is not None and not any(x < c["cap"] for x in c["cnt"]):
            return True
        return False
    vals = [v for l in c["tmin"] + c["tmax"] for v in l]
    if any(v == 0 for v in vals):
        return True
    if c["cap"] is not None and (not all(any(x < c["cap"] for x in l) for l in c["nested"]) or not c["nested"][0][0] < c["cap"]):
        return True
    return False


def has_ties(c, o):
    """two evaluated candidates with equal excess at Hmax (lookup by value is then ambiguous; see DESIGN F9)"""
    if c["kind"] == "1d":
        ev = {i for i, h in o.get("trace", []) if h == "Hmax"}
        vals = [c["tmax"][i] for i in ev]
        return len(vals) != len(set(vals))
    vals = []
    for sg in o.get("segs", [])[1:]:
        ev = {(li, p) for li, p, h in sg if h == "Hmax"}
        v = [c["tmax"][li][p] for li, p in ev]
        if len(v) != len(set(v)):
            return True
    return False
