"""C10 — the short-time radial g-function is conservative and physically consistent."""
import json, math, re
from lib import *

HEADER = """From Coq Require Import ZArith QArith Qabs List Bool.
From GHE Require Import Base.QUtil Model.Radial.
Import ListNotations. Open Scope Q_scope.
"""


def gen_cases(rng, tier):
    cs = []
    n = 6 if tier == "quick" else 40
    for k in range(n):
        r_out = rng.choice([0.0133, 0.0167, 0.02108, 0.024])
        r_in = r_out * rng.choice([0.8, 0.81, 0.85])
        r_b = rng.choice([0.05, 0.06, 0.075, 0.09, 0.12])
        # the pipes must fit: shank spacing s between the pipes, 2 r_out + s/2 ... keep s small and check geometry
        s = rng.choice([0.005, 0.012, 0.01856])
        if 2 * r_out + s / 2 > r_b * 0.95 or math.sqrt(2) * r_out >= r_b * 0.98:
            r_b = max(r_b, (2 * r_out + s) * 1.15)
        cs.append({"r_in": r_in, "r_out": r_out, "s": s, "r_b": r_b, "H": rng.choice([20.0, 60.0, 100.0, 250.0, 400.0]),
                   "k_soil": rng.choice([0.8, 1.5, 2.0, 3.2, 4.0]), "k_grout": rng.choice([0.6, 1.0, 1.8, 2.5]), "k_pipe": rng.choice([0.38, 0.4, 0.45]),
                   "rhocp_soil": rng.choice([1.5e6, 2343493.0, 3.2e6]), "rhocp_grout": rng.choice([2.0e6, 3901000.0]),
                   "m_flow": rng.choice([0.02, 0.05, 0.2, 0.5, 1.0]), "fine": (k < (2 if tier == "quick" else 10)),
                   "capture": [0, 1, 2, rng.randrange(10, 400), rng.randrange(400, 1400)]})
    # tight boreholes: the grout annulus r_b - sqrt(2) r_out only a few millimetres more than the pipes need (thin grout cells)
    for k in range(2 if tier == "quick" else 8):
        r_out = rng.choice([0.0167, 0.02108, 0.024])
        r_b = math.sqrt(2) * r_out + rng.choice([0.012, 0.016, 0.0205, 0.0212])
        s = max(0.002, min(0.012, 2 * r_b - 4 * r_out - 0.002))
        if 4 * r_out + s > 2 * r_b:
            continue
        cs.append({"r_in": r_out * 0.81, "r_out": r_out, "s": s, "r_b": r_b, "H": rng.choice([60.0, 150.0]), "k_soil": rng.choice([1.5, 2.5]), "k_grout": rng.choice([1.0, 2.0]),
                   "k_pipe": 0.4, "rhocp_soil": 2343493.0, "rhocp_grout": 3901000.0, "m_flow": rng.choice([0.1, 0.4]), "fine": True,
                   "capture": [0, 1, 2, rng.randrange(10, 400), rng.randrange(400, 1400)]})
    # long computed periods (deep boreholes / low diffusivity): more than 45 days of simulated time
    for (H, ks, cs_) in ([(250.0, 1.0, 3.2e6)] if tier == "quick" else [(250.0, 1.0, 3.2e6), (330.0, 2.0, 3.9e6), (400.0, 1.5, 2343493.0)]):
        cs.append({"r_in": 0.01336, "r_out": 0.0167, "s": 0.012, "r_b": 0.06, "H": H, "k_soil": ks, "k_grout": 1.4, "k_pipe": 0.4, "rhocp_soil": cs_, "rhocp_grout": 3901000.0,
                   "m_flow": 0.3, "fine": True, "capture": [0, 1, 2, 300, 1300]})
    # laminar flow in the tubes (Re < 2300: 0.05 kg/s of water in a 1-1/4 inch tube; a viscous antifreeze at a moderate flow), against the fine-mesh reference
    cs.append({"r_in": 0.01702, "r_out": 0.02108, "s": 0.01856, "r_b": 0.075, "H": 100.0, "k_soil": 2.0, "k_grout": 1.0, "k_pipe": 0.4, "rhocp_soil": 2343493.0, "rhocp_grout": 3901000.0,
               "m_flow": 0.05, "fine": True, "capture": [0, 1, 2, 200, 900]})
    if tier != "quick":
        cs.append({"r_in": 0.01336, "r_out": 0.0167, "s": 0.012, "r_b": 0.06, "H": 150.0, "k_soil": 2.8, "k_grout": 1.6, "k_pipe": 0.4, "rhocp_soil": 2.6e6, "rhocp_grout": 3.2e6,
                   "m_flow": 0.03, "fine": True, "capture": [0, 1, 2, 300, 1100]})
    # the same object used for a second borehole (other height, fluid, grout)
    for k in range(1 if tier == "quick" else 4):
        cs.append({"r_in": 0.01336, "r_out": 0.0167, "s": 0.01, "r_b": 0.07, "H": rng.choice([80.0, 120.0]), "k_soil": 2.0, "k_grout": 1.0, "k_pipe": 0.4, "rhocp_soil": 2343493.0,
                   "rhocp_grout": 3901000.0, "m_flow": 0.3, "fine": False, "capture": [0, 1, 2],
                   "reuse": {"H": rng.choice([60.0, 135.0, 97.5]), "fluid": rng.choice(["PROPYLENEGLYCOL", "water", "ETHYLENEGLYCOL"]), "conc": rng.choice([20.0, 30.0]),
                             "rhocp_grout": rng.choice([1.5e6, 3901000.0]), "rhocp_soil": rng.choice([2343493.0, 3.0e6])}})     # same geometry and soil conductivity: what a GHE object keeps fixed
    return cs


SIG_FAR = "callsite:calc_sts_g_functions:heat-leaves-through-the-fixed-far-field-cell"


def oracle(chk, c, o):
    n = 0

    def bad(obs, req, signature=None):
        chk.violation("radial", c, obs, req, signature=signature)
    rin, rout = o["r_in"], o["r_out"]
    gap = max(abs(a - b) for a, b in zip(rout[:-1], rin[1:]))
    n += 1
    if gap > 1e-12 or abs(rin[0] - o["r_fluid"]) > 1e-12 or abs(rout[-1] - o["r_far"]) > 1e-9 or o["r_far"] != 10:
        bad({"max_gap": gap, "first_r_in": rin[0], "last_r_out": rout[-1]}, "cells tile the radius from the fluid core to the 10 m far field without gaps")
    if abs(o["fluid_mass"] / o["fluid_mass_expected"] - 1) > 1e-9:
        bad({"fluid_cells_mass": o["fluid_mass"], "expected": o["fluid_mass_expected"]}, "fluid cells carry exactly the thermal mass of the fluid in both pipe legs")
    lay = sum(math.log(rout[i] / rin[i]) / (2 * math.pi * o["k"][i]) for i in range(3, 3 + 1 + 4 + 27))
    n += 1
    if abs(lay / o["Rb"] - 1) > 1e-9:
        bad({"layers_sum": lay, "Rb": o["Rb"]}, "layers between fluid and borehole wall sum to the effective borehole resistance")
    n += 1
    if abs((o["stored"] + o["leaked"]) / o["injected"] - 1) > 1e-6:
        bad({"stored": o["stored"], "left_through_far_field": o["leaked"], "injected": o["injected"]}, "heat stored plus heat that crossed the far-field boundary equals the heat injected (1e-6 relative)")
    elif abs(o["stored"] / o["injected"] - 1) > 1e-6 and o.get("system_size") != o["n_cells"]:
        bad({"cells_in_the_table": o["n_cells"], "unknowns_in_the_solved_system": o.get("system_size"), "stored": o["stored"], "injected": o["injected"]},
            "the response stores exactly the heat injected (1e-6 relative): the solved system covers the radius out to the 10 m far field")
    elif abs(o["stored"] / o["injected"] - 1) > 1e-6:
        # the scheme conserves heat, but the fixed-temperature cell at 10 m lets some of it out of the domain
        bad({"stored": o["stored"], "left_through_far_field": o["leaked"], "injected": o["injected"], "relative": o["stored"] / o["injected"] - 1},
            "the response stores exactly the heat injected (1e-6 relative)", signature=SIG_FAR)
    # the period the response is REPORTED for (its last ln(t/ts)) is the period heat was injected for; the implementation labels
    # its k-th solve with (k-1) x 120 s, hence one time step of slack
    n += 1
    if abs((o["stored"] + o["leaked"]) - o["t_end_reported"]) > 120.0 * (1 + 1e-6) + 1e-6 * o["t_end_reported"]:
        bad({"heat_in_the_domain_plus_far_field_flux": o["stored"] + o["leaked"], "unit_flux_x_reported_period": o["t_end_reported"], "solves": o["nsteps"]},
            "the heat accounted for equals the unit heat flux times the period the response is reported for (within one 120 s step)")
    ru = o.get("reuse")
    if ru is not None:
        n += 1
        if not (ru["lntts_equal"] and ru["g_equal"] and ru["g_bhw_equal"]):
            bad({"reused_object_vs_fresh_object": ru}, "an object already used for another borehole gives the response of a fresh object (fluid thermal mass, capacities and conductivities are those of the current borehole)")
    g, gb = o["g"], o["g_bhw"]
    if not all(math.isfinite(v) for v in g + gb):
        bad({"g": g[:5]}, "finite response")
    n += 1
    if any(b < a - 1e-12 for a, b in zip(g, g[1:])) or any(b < a - 1e-9 for a, b in zip(o["T0_series"], o["T0_series"][1:])):
        bad({"g": g}, "response non-decreasing in time")
    if min(gb) < -1e-12:
        bad({"g_bhw_min": min(gb)}, "non-negative borehole-wall response")
    if min(g) < -2 * math.pi * o["k_soil"] * o["Rb"] - 1e-9:
        bad({"g_min": min(g), "bound": -2 * math.pi * o["k_soil"] * o["Rb"]}, "g never drops below -2 pi k Rb")
    if "fine_T0" in o:
        n += 1
        rel = abs((o["coarse_T0"] - 20.0) / (o["fine_T0"] - 20.0) - 1)
        if rel > 5e-3:
            bad({"coarse": o["coarse_T0"], "fine": o["fine_T0"], "relative": rel}, "agrees within 0.5 % with an independent solution on a 4x finer mesh with a 4x smaller time step")
    # per captured step: energy balance of that step from the captured solution
    for k, st in o["steps"].items():
        told = [-v for v in st["b"]]
        told[-1] = st["b"][-1]
        x = st["x"]
        cap, cond = o["cap"], o["cond"]
        told[0] = told[0] - 1.0 / cap[0]          # b[0] = -T0 - q/ad
        sto = sum(cap[i] * (x[i] - told[i]) for i in range(len(x) - 1))
        flux = 1.0 - cond[-1] * (x[-2] - x[-1])
        n += 1
        if abs(sto - flux) > 1e-6 * max(1.0, abs(flux)):
            bad({"step": k, "stored": sto, "injected_minus_far_flux": flux}, "each implicit step conserves heat")
    return n


def run(chk):
    quick = chk.tier == "quick"
    chk.build("C10", extra=["Model/Radial"])
    rng = chk.rng
    cases = [dict(k["input"]) for k in chk.listed_inputs("radial")] + gen_cases(rng, chk.tier)     # listed findings first
    from concurrent.futures import ThreadPoolExecutor
    with ThreadPoolExecutor(max_workers=NPROC) as ex:
        rs = list(ex.map(lambda c: run_impl("radial_drv.py", {"cases": [c]}, timeout=900), cases))
    outs = []
    for r in rs:
        if isinstance(r, dict) and "_error" in r:
            chk.broken.append({"name": "correspondence C10 (implementation driver failed)", "detail": r["_error"][-300:]})
            return chk.finish()
        outs.append(r[0])
    chk.cov["evaluations"] += len(cases)
    nontrivial = 0
    for c, o in zip(cases, outs):
        if not o.get("ok"):
            if o.get("exc") == "ValueError" and ("_check_geometry" in (o.get("msg") or "") or "pygfunction" in (o.get("msg") or "")):
                continue           # pygfunction rejects the geometry (pipes do not fit): outside the property's "valid borehole"
            chk.violation("radial", c, {"exception": o.get("exc"), "msg": o.get("msg")}, "the short-time model runs for a valid borehole")
            continue
        if len(chk.violations) < 5:
            nontrivial += oracle(chk, c, o)
    # whole designs: the short-time response the returned design uses (and writes to Gfunction.csv) is the one of the reported borehole —
    # reference: the same field and height built from scratch from the requested inputs (also for a design clamped at the minimum height,
    # and for a fluid whose design temperature is not 20 C)
    from configs import cfg
    dcold = cfg("RECTANGLE", months=12, loads={"kind": "heating", "scale": 20000.0, "seed": 4}, flow=("BOREHOLE", 0.3), design={"min_eft": -2.0})
    dcold["fluid"] = {"fluid_name": "PROPYLENEGLYCOL", "concentration_percent": 30.0, "temperature": 0}
    # the same manager (and process) first designed the same project with another grout heat capacity; both designs end clamped at the minimum height
    dcap = cfg(months=12, loads={"kind": "balanced", "scale": 300.0, "seed": 1}, design={"continue_if_design_unmet": True})
    dcap["grout"] = dict(dcap["grout"], rho_cp=1500000.0)
    dcap["_first_configured_with"] = {"grout": {"rho_cp": 3901000.0}}
    dd = [cfg(months=12), cfg(months=12, loads={"kind": "balanced", "scale": 300.0, "seed": 1}, design={"continue_if_design_unmet": True}), dcold, dcap]
    for r in e2e_runs(dd):
        if not r.get("ok") or "reference" not in r or "gfunc" not in r:
            chk.broken.append({"name": "end-to-end run / reference failed", "detail": json.dumps({k: r.get(k) for k in ("exc", "msg", "reference_error", "gfunc_error")})})
            continue
        chk.cov["evaluations"] += 1
        nontrivial += 1
        fp, want = r.get("fluid_props"), r["reference"].get("fluid_from_pygfunction")
        if fp and want and any(abs(fp[k] - want[k]) > 1e-9 * abs(want[k]) for k in want):
            chk.violation("design-gfunction", r["cfg"], {"fluid_of_the_design": fp, "requested_fluid": r["cfg"]["fluid"], "its_properties": want},
                          "the short-time model receives the fluid that was requested (thermal mass, convective resistance and R_b* follow from it)")
            continue
        rg = r["reference"]["gfunc"]
        if r["gfunc"]["x"] != rg["x"] or r["gfunc"]["y"] != rg["y"]:
            k_ = next((i for i in range(min(len(rg["x"]), len(r["gfunc"]["x"]))) if r["gfunc"]["x"][i] != rg["x"][i] or r["gfunc"]["y"][i] != rg["y"][i]), None)
            chk.violation("design-gfunction", r["cfg"], {"H": r["H"], "first_difference_at_row": k_, "on_the_returned_design": [r["gfunc"]["x"][k_ or 0], r["gfunc"]["y"][k_ or 0]],
                                                        "for_the_reported_borehole": [rg["x"][k_ or 0], rg["y"][k_ or 0]]},
                          "the short-time response used for the returned design is that of the reported borehole (its height sets the time scale t_s)")
    # correspondence: the model's assembly from (conductances, capacities, old temperatures) vs the arrays handed to LAPACK,
    # and the returned solution checked as a certificate (exact residual in Q)
    if getattr(chk, "model_ok", False):
        files = []
        for ci, (c, o) in enumerate(zip(cases, outs)):
            if not o.get("ok"):
                continue
            for k, st in list(o["steps"].items())[:3]:
                told = [-v for v in st["b"]]
                told[-1] = st["b"][-1]
                told[0] = told[0] - 1.0 / o["cap"][0]
                txt = HEADER + f"""Definition cond : list Q := {qlist(o['cond'])}.
Definition cap : list Q := {qlist(o['cap'])}.
Definition told : list Q := {qlist(told)}.
Definition sys := assemble cond cap told 1.
Definition impl := {{| t_dl := {qlist(st['dl'])}; t_d := {qlist(st['d'])}; t_du := {qlist(st['du'])}; t_b := {qlist(st['b'])} |}}.
Definition x : list Q := {qlist(st['x'])}.
Definition tol : Q := 1 # 1000000000.
Definition same (a b : list Q) : bool := list_eqb (qclose tol) a b.
Definition resid_ok := forallb (fun i => qleb (Qabs (residual sys x i)) ((1 # 1000000000) * (Qabs (nth i (t_d sys) 0 * nth i x 0) + 1))) (seq 0 (length x)).
Eval vm_compute in (same (t_dl sys) (t_dl impl), same (t_d sys) (t_d impl), same (t_du sys) (t_du impl), same (t_b sys) (t_b impl), resid_ok, length x).
"""
                files.append((f"rad{ci}_{k}", txt))
        tot = bad = 0
        for (name, rc, out, err) in chk.coq_eval_many(files, timeout=900):
            flat = " ".join(out.split())
            if rc != 0 or "= (" not in flat:
                chk.broken.append({"name": f"correspondence C10/{name} did not evaluate", "detail": (err or out)[-400:]})
                continue
            tot += 1
            if "= (true, true, true, true, true" not in flat:
                bad += 1
                chk.notes.append({"mismatch": name, "coq": flat[:160]})
        if bad:
            chk.broken.append({"name": "correspondence C10: Model/Radial.assemble differs from the system handed to dgtsv, or the returned solution is not a solution", "detail": f"{bad} of {tot} captured steps"})
        chk.cov["traces_validated_against_impl"] = tot - bad
        chk.cov["correspondence_cases"] = tot
    chk.cov["distinct_nontrivial"] = nontrivial
    chk.cov["rule"] = ("boreholes over radii 50-120 mm, pipes that fit, H 20-400 m, soil/grout/pipe conductivities and capacities, laminar to turbulent flows; per object: tiling, thermal mass, "
                       "resistance sum, stored vs injected heat, monotonicity, bounds, fine-mesh reference (4x cells, dt/4); per captured step: assembly and solution certificate in Coq; non-trivial = one fact checked")
    chk.sample({"case": cases[0]})
    chk.cov["trusted_base"] = ["conductances ln(r_out/r_c)/(2 pi k) are computed by the harness with math.log from the real cell table and handed to the model as data",
                               "the 0.5 % fine-mesh clause is validated by an independent numpy/scipy solver only (no theorem: it is a discretisation-error statement)"]
    return chk.finish(assumptions=["LAPACK's returned vector is checked as a certificate (residual), the model never solves the system itself"])


def replay(payload):
    from lib import Check
    chk = Check("C10", "quick", payload.get("seed", 0))
    r = run_impl("radial_drv.py", {"cases": [payload["input"]]})
    if r[0].get("ok"):
        oracle(chk, payload["input"], r[0])
    for path, found, pl in chk.violations:
        print(f"VIOLATION property=C10 replay={path}")
    return 1 if chk.violations else 0
