"""C05 — the design is not oversized."""
from searchchecks import *


def e2e_oracle(chk, r):
    if not r.get("ok"):
        return
    lim = r["limits"]
    H = r["H"]
    clamped = abs(H - lim["min_height"]) < 1e-9 or abs(H - lim["max_height"]) < 1e-9
    ref = r.get("reference")
    if ref is not None and not clamped and abs(ref["excess"]) > TOL:
        chk.violation("end-to-end", r["cfg"], {"H": H, "excess_at_H_from_the_requested_inputs": ref["excess"]}, "unclamped returned height makes the excess zero within 1e-3 (field and height simulated from the requested inputs)")
    if not clamped and abs(r["resim_excess"]) > TOL:
        chk.violation("end-to-end", r["cfg"], {"H": H, "excess_at_H": r["resim_excess"]}, "unclamped returned height makes the excess zero within 1e-3")
    if r.get("pred_excess_at_hmax") is not None and r["pred_excess_at_hmax"] < 0:
        chk.violation("end-to-end", r["cfg"], {"selected_boreholes": r["nbh"], "preceding_candidate_boreholes": r["pred_nbh"], "its_excess_at_max_height": r["pred_excess_at_hmax"]},
                      "the candidate immediately preceding the selected one fails at maximum height (evaluated afresh)")
    if "calculated_temperatures" in r and "domain_counts" in r:
        cnts = r["domain_counts"]
        for k, v in r["calculated_temperatures"].items():
            k = int(k)
            if v < 0 and k < len(cnts) and r["nbh"] * H > cnts[k] * lim["max_height"] + 1e-6:
                chk.violation("end-to-end", r["cfg"], {"nbh": r["nbh"], "H": H, "evaluated_feasible_count": cnts[k]},
                              "count*height <= count*Hmax of every evaluated feasible candidate")
                break


def configs(tier):
    cs = [cfg(), cfg("RECTANGLE"), cfg("BIRECTANGLE", loads={"kind": "heating", "scale": 25000, "seed": 2}), steep_cfg(2300.0, 5),
          # one borehole suffices, but only near the maximum height (fails at the minimum height, passes at the maximum)
          cfg(months=12, loads={"kind": "constant", "scale": 5400.0, "seed": 1, "sign": -1.0})]
    # a lower limit of exactly 0 C (antifreeze loop, heating dominated: the lower limit is the binding one)
    z0 = cfg("RECTANGLE", months=12, loads={"kind": "heating", "scale": 26000, "seed": 5}, flow=("BOREHOLE", 0.3), design={"min_eft": 0.0})
    z0["fluid"] = {"fluid_name": "PROPYLENEGLYCOL", "concentration_percent": 25.0, "temperature": 2}
    cs.append(z0)
    if tier != "quick":
        cs += [cfg("BIZONEDRECTANGLE"), cfg("BIRECTANGLECONSTRAINED"),
               cfg("NEARSQUARE", "COAXIAL", loads={"kind": "cooling", "scale": 40000, "seed": 3}),
               cfg("RECTANGLE", "DOUBLEUTUBESERIES", months=48, loads={"kind": "spiky", "scale": 60000, "seed": 5})]
    return cs


def sized_height_is_a_root(chk):
    """GHE.size on real objects with BOTH time-step methods: the returned height, unless clamped at a bound, makes the excess of a
    FRESH simulation with that same method zero within the solver tolerance"""
    rng = chk.rng
    cases = []
    for k, (scale, kind, m) in enumerate([(9000.0, "balanced", "hourly"), (7000.0, "cooling", "hybrid")] + ([] if chk.tier == "quick" else [(12000.0, "heating", "hourly"), (8000.0, "spiky", "hourly")])):
        cases.append({"nx": 1, "ny": 2, "months": 12, "H": 100.0, "heights": [60.0, 97.5, 135.0], "loads": {"kind": kind, "scale": scale, "seed": 11 + k},
                      "pipe": ["SINGLEUTUBE", "DOUBLEUTUBEPARALLEL"][k % 2], "ops": [["size", m]]})
    from concurrent.futures import ThreadPoolExecutor
    with ThreadPoolExecutor(max_workers=NPROC) as ex:
        rs = list(ex.map(lambda c: run_impl("ghe_drv.py", {"mode": "ops", "cases": [c]}, timeout=1500), cases))
    for c, rr in zip(cases, rs):
        if isinstance(rr, dict) and "_error" in rr:
            chk.broken.append({"name": "real GHE.size run failed in the harness", "detail": rr["_error"][-300:]})
            continue
        chk.cov["evaluations"] += 1
        for rec in rr[0].get("trace", []):
            if "exc" in rec or rec.get("fresh") is None:
                chk.notes.append({"size_run": rec.get("exc"), "msg": rec.get("msg")})
                continue
            H = rec["H"]
            exc = max(rec["fresh"][0] - 35.0, 5.0 - rec["fresh"][1])          # build() uses limits 35 / 5 and heights 60..135
            clamped = abs(H - 60.0) < 1e-9 or abs(H - 135.0) < 1e-9
            chk.cov["distinct_nontrivial"] = chk.cov.get("distinct_nontrivial", 0)
            if not clamped and abs(exc) > TOL:
                chk.violation("ghe-size", c, {"H": H, "method": c["ops"][0][1], "excess_of_a_fresh_simulation_at_H": exc},
                              "unclamped returned height makes the excess zero within 1e-3 (for the time-step method the sizing was asked for)")


def coherent_after_late_setter(chk):
    """set_simulation_parameters called again AFTER set_design, find_design directly afterwards (set_design not repeated).  Whichever of the
    two sets of limits the tool honours, the field search and the final sizing must honour the SAME one: the result must be the design
    a fresh manager finds for the first set, or the one it finds for the second set — not the field of one with the height of the other."""
    import copy
    pairs = [({"max_eft": 39.0}, cfg(months=12, loads={"kind": "cooling", "scale": 26000.0, "seed": 4}, geom_over={"min_height": 40.0, "max_height": 110.0}))]
    if chk.tier != "quick":
        pairs.append(({"min_eft": 1.0}, cfg("RECTANGLE", months=12, loads={"kind": "heating", "scale": 24000.0, "seed": 6}, geom_over={"min_height": 40.0, "max_height": 110.0})))
    for values, second in pairs:
        first = copy.deepcopy(second)
        second = copy.deepcopy(second)
        second["design"].update(values)
        late = copy.deepcopy(second)
        late["_set_after_design_without_set_design"] = {"section": "design", "values": {k: first["design"][k] for k in values}}
        rl, r1, r2 = e2e_runs([late, first, second])
        chk.cov["evaluations"] += 3
        if any(r.get("exc") == "HarnessError" for r in (rl, r1, r2)):
            chk.broken.append({"name": "end-to-end run failed in the harness (late setter)", "detail": str([r.get("msg") for r in (rl, r1, r2)])[:300]})
            continue
        def same(a, b):
            if not a.get("ok") or not b.get("ok"):
                return a.get("ok") == b.get("ok") and a.get("exc") == b.get("exc")
            return a["nbh"] == b["nbh"] and abs(a["H"] - b["H"]) <= 1e-6
        chk.notes.append({"late_setter": {"first": [r1.get("nbh"), r1.get("H")], "second": [r2.get("nbh"), r2.get("H")], "late": [rl.get("nbh"), rl.get("H")]}})
        if same(r1, r2):
            chk.notes.append({"late_setter": "the two sets of limits give the same design; nothing to tell apart"})
            continue
        if not (same(rl, r1) or same(rl, r2)):
            chk.violation("late-setter", late, {"returned": [rl.get("nbh"), rl.get("H"), rl.get("exc")], "design_for_the_first_limits": [r1.get("nbh"), r1.get("H")],
                                                "design_for_the_second_limits": [r2.get("nbh"), r2.get("H")]},
                          "field selection and final sizing honour the same limits: the result is the design of one of the two sets of limits (first feasible field, height a root for it)")


def both_extras(chk):
    sized_height_is_a_root(chk)
    coherent_after_late_setter(chk)
    if len(chk.violations) < 5:
        design_level_search(chk)


def run(chk):
    return run_search_check(chk, "C05", "C05", configs(chk.tier), e2e_oracle, extra=both_extras)


def replay(payload):
    from lib import Check
    import searchcommon as sc
    chk = Check("C05", "quick", payload.get("seed", 0))
    if payload.get("kind") in ("late-setter", "ghe-size", "design-stub"):
        return "RERUN"
    return replay_common(chk, payload, "C05", e2e_oracle)
