"""C05 — the design is not oversized."""
from searchchecks import *


def e2e_oracle(chk, r):
    if not r.get("ok"):
        return
    lim = r["limits"]
    H = r["H"]
    clamped = abs(H - lim["min_height"]) < 1e-9 or abs(H - lim["max_height"]) < 1e-9
    if not clamped and abs(r["resim_excess"]) > TOL:
        chk.violation("end-to-end", r["cfg"], {"H": H, "excess_at_H": r["resim_excess"]}, "unclamped returned height makes the excess zero within 1e-3")
    if "calculated_temperatures" in r and "domain_counts" in r:
        cnts = r["domain_counts"]
        for k, v in r["calculated_temperatures"].items():
            k = int(k)
            if v < 0 and k < len(cnts) and r["nbh"] * H > cnts[k] * lim["max_height"] + 1e-6:
                chk.violation("end-to-end", r["cfg"], {"nbh": r["nbh"], "H": H, "evaluated_feasible_count": cnts[k]},
                              "count*height <= count*Hmax of every evaluated feasible candidate")
                break


def configs(tier):
    cs = [cfg(), cfg("RECTANGLE"), cfg("BIRECTANGLE", loads={"kind": "heating", "scale": 25000, "seed": 2})]
    if tier != "quick":
        cs += [cfg("BIZONEDRECTANGLE"), cfg("BIRECTANGLECONSTRAINED"),
               cfg("NEARSQUARE", "COAXIAL", loads={"kind": "cooling", "scale": 40000, "seed": 3}),
               cfg("RECTANGLE", "DOUBLEUTUBESERIES", months=48, loads={"kind": "spiky", "scale": 60000, "seed": 5})]
    return cs


def run(chk):
    return run_search_check(chk, "C05", "C05", configs(chk.tier), e2e_oracle)


def replay(payload):
    from lib import Check
    import searchcommon as sc
    chk = Check("C05", "quick", payload.get("seed", 0))
    return replay_common(chk, payload, "C05", e2e_oracle)
