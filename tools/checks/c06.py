"""C06 — hybrid time-step loads (see hybridchecks.py)."""
from hybridchecks import *


def run(chk):
    return run_hybrid_check(chk, "C06", "C06", [])


def replay(payload):
    from lib import Check
    chk = Check("C06", "quick", payload.get("seed", 0))
    kind = payload.get("kind")
    if kind == "hybrid-profile":
        res = run_impl("hybrid.py", {"profiles": [payload["input"]]})
        oracle_profile(chk, "C06", payload["input"], res["profiles"][0])
    elif kind == "hybrid-inject":
        c = payload["input"]
        res = run_impl("hybrid.py", {"inject": [c]})
        cc = dict(c)
        for k in ("cl", "hl", "pcl", "phl", "dcl", "dhl", "daycl", "dayhl"):
            cc[k] = [F(*x) for x in c[k]]
        cc["style"] = "replay"
        if "C06" == "C06":
            oracle_c06_inject(chk, cc, res["inject"][0])
    else:
        return "RERUN"      # vcheck re-runs the check with the recorded tier and seed and looks for the same violation
    for path, found, pl in chk.violations:
        print(f"VIOLATION property=C06 replay={path}")
    import shutil
    shutil.rmtree(chk.scratch, ignore_errors=True)
    return 1 if chk.violations else 0
