"""C01 — the returned design keeps the entering fluid temperature within the limits."""
from searchchecks import *


def e2e_oracle(chk, r):
    if not r.get("ok"):
        return
    lim = r["limits"]
    # the escape is visible in the inputs: the user asked to continue and the design is unmet
    if lim["cont"] and r["resim_excess"] > TOL:
        chk.notes.append({"unmet_design_continued": r["cfg"]["geometric_constraints"]["method"], "excess": r["resim_excess"]})
        return
    if r["resim_max"] > lim["max_eft"] + TOL or r["resim_min"] < lim["min_eft"] - TOL:
        chk.violation("end-to-end", r["cfg"], {"nbh": r["nbh"], "H": r["H"], "max_eft": r["resim_max"], "min_eft": r["resim_min"]},
                      f"max EFT <= {lim['max_eft']}+1e-3 and min EFT >= {lim['min_eft']}-1e-3 at the returned field and height")
    # the same field and height simulated from the REQUESTED inputs through the low-level classes only (nothing of the manager / search reused)
    ref = r.get("reference")
    dz = r["cfg"]["design"]
    if ref is not None:
        if ref["max"] > dz["max_eft"] + TOL or ref["min"] < dz["min_eft"] - TOL:
            chk.violation("end-to-end", r["cfg"], {"nbh": r["nbh"], "H": r["H"], "max_eft_from_requested_inputs": ref["max"], "min_eft_from_requested_inputs": ref["min"],
                                                    "on_the_returned_object": [r["resim_max"], r["resim_min"]]},
                          f"simulating the returned field at the returned height with the requested fluid / pipe / soil / grout / loads / horizon keeps the EFT within [{dz['min_eft']}, {dz['max_eft']}] +- 1e-3")
        # what the design was computed with against what was asked for: fluid property tables (by name, concentration, temperature) and ground temperature
        fp, want = r.get("fluid_props"), ref.get("fluid_from_pygfunction")
        if fp and want and any(abs(fp[k] - want[k]) > 1e-9 * abs(want[k]) for k in want):
            chk.violation("end-to-end", r["cfg"], {"fluid_of_the_design": fp, "requested_fluid": r["cfg"]["fluid"], "its_properties": want},
                          "the design is computed with the fluid that was requested (name, concentration, temperature)")
        if "soil_ugt" in r and abs(r["soil_ugt"] - float(r["cfg"]["soil"]["undisturbed_temp"])) > 1e-12:
            chk.violation("end-to-end", r["cfg"], {"ground_temperature_of_the_design": r["soil_ugt"]}, f"the design is computed with the requested undisturbed ground temperature {r['cfg']['soil']['undisturbed_temp']}")
    elif "reference_error" in r:
        chk.broken.append({"name": "reference simulation from the requested inputs failed", "detail": r["reference_error"]})
    # the design was simulated over the horizon that was asked for (hybrid axis ends at the last hour of the requested month)
    want_m = r["cfg"]["simulation"]["num_months"]
    cum = [0, 744, 1416, 2160, 2880, 3624, 4344, 5088, 5832, 6552, 7296, 8016, 8760]
    want_end = 8760 * ((want_m - 1) // 12) + cum[(want_m - 1) % 12 + 1]
    if "hybrid_axis_end_h" in r and (r["simulated_months"] != want_m or r["hybrid_axis_end_h"] != want_end):
        chk.violation("end-to-end", r["cfg"], {"simulated_months": r["simulated_months"], "time_axis_ends_at_h": r["hybrid_axis_end_h"]},
                      f"the returned design is simulated over the requested horizon: {want_m} months, {want_end} h")
    # premise of C01_feasible measured: the search-log excess of the selected field at Hmax vs the sizing objective
    chk.cov["premises_measured"] = chk.cov.get("premises_measured", 0) + 1


def configs(tier):
    cs = [cfg(), cfg("RECTANGLE", "DOUBLEUTUBEPARALLEL", loads={"kind": "cooling", "scale": 35000, "seed": 7}),
          cfg("BIRECTANGLE", "COAXIAL", loads={"kind": "heating", "scale": 25000, "seed": 2}),
          cfg("BIZONEDRECTANGLE", flow=("SYSTEM", 3.0)),
          cfg("ROWWISE", loads={"kind": "balanced", "scale": 60000, "seed": 4}),
          cfg("BIRECTANGLECONSTRAINED", "DOUBLEUTUBESERIES"), steep_cfg(1950.0, 3), steep_cfg(2150.0, 3)]
    # values a setter or loader could lose or swap on the way in: a design fluid temperature other than 20 C, antifreeze, different inner / outer conductivities
    cold = cfg(months=12, loads={"kind": "heating", "scale": 22000, "seed": 3}, flow=("BOREHOLE", 0.13))
    cold["fluid"] = {"fluid_name": "WATER", "concentration_percent": 0.0, "temperature": 4}
    glyc = cfg("RECTANGLE", months=12, loads={"kind": "heating", "scale": 24000, "seed": 5}, flow=("BOREHOLE", 0.3), design={"min_eft": -2.0})
    glyc["fluid"] = {"fluid_name": "PROPYLENEGLYCOL", "concentration_percent": 25.0, "temperature": 2}
    coax = cfg("RECTANGLE", "COAXIAL", months=12, loads={"kind": "cooling", "scale": 30000, "seed": 6}, flow=("SYSTEM", 2.0))
    coax["pipe"]["conductivity_inner"], coax["pipe"]["conductivity_outer"] = 0.42, 0.17
    # values that are exactly 0 (a design fluid temperature of 0 C, a lower limit of 0 C), on a manager that held other values before
    zero = cfg("RECTANGLE", months=12, loads={"kind": "heating", "scale": 20000, "seed": 9}, flow=("BOREHOLE", 0.3), design={"min_eft": 0.0})
    zero["fluid"] = {"fluid_name": "PROPYLENEGLYCOL", "concentration_percent": 25.0, "temperature": 0}
    zero["_first_configured_with"] = {"fluid": {"temperature": 12}, "soil": {"undisturbed_temp": 14.0}}
    # a year of loads given as whole numbers of watts (Python ints)
    ints = cfg(months=12, loads={"kind": "heating", "scale": 8800.0, "seed": 11, "as_int": True}, flow=("BOREHOLE", 0.3))
    ints["soil"] = dict(ints["soil"], undisturbed_temp=11.0)
    # the same manager (and process) designed the same project before with another grout: same candidate fields, heights and flows
    # (a 20-year horizon and a field of some forty boreholes: the long-time response, where the borehole resistance enters, carries the difference)
    regrout = cfg(months=240, loads={"kind": "cooling", "scale": 104000, "seed": 12})
    regrout["grout"] = dict(regrout["grout"], conductivity=1.2)
    regrout["_first_configured_with"] = {"grout": {"conductivity": 2.4}}
    cs += [cold, glyc, coax, zero, ints, regrout]
    reused = cfg("RECTANGLE", months=36, loads={"kind": "cooling", "scale": 30000, "seed": 8})
    reused["_first_configured_with"] = {"simulation": {"num_months": 12}, "design": {"max_eft": 30.0}}      # the manager did another study first
    cs.append(reused)
    if tier != "quick":
        for g in ("NEARSQUARE", "RECTANGLE", "BIRECTANGLE", "BIZONEDRECTANGLE", "BIRECTANGLECONSTRAINED", "ROWWISE"):
            for p in ("SINGLEUTUBE", "DOUBLEUTUBEPARALLEL", "DOUBLEUTUBESERIES", "COAXIAL"):
                for fl in (("BOREHOLE", 0.4), ("SYSTEM", 4.0)):
                    cs.append(cfg(g, p, months=12, flow=fl, loads={"kind": ["balanced", "heating", "cooling", "spiky"][(len(cs)) % 4],
                                                                     "scale": 30000 + 1000 * (len(cs) % 7), "seed": len(cs)}))
    return cs


def run(chk):
    return run_search_check(chk, "C01", "C01", configs(chk.tier), e2e_oracle, extra=rowwise_decisions, extra_models=["Model/RowSearch"])


def replay(payload):
    from lib import Check
    chk = Check("C01", "quick", payload.get("seed", 0))
    return replay_common(chk, payload, "C01", e2e_oracle)
