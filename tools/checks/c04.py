"""C04 — polygon-constrained fields lie inside the property and outside no-go zones."""
import json, math, re
from fractions import Fraction as F
from lib import *
from c16 import orient, onseg, simple, v4

TOL = F(1, 100)          # remove_cutout's on_edge_tolerance (also regenerated into Src.cutout_on_edge_tolerance)
HEADER = """From Coq Require Import ZArith QArith List Bool.
From GHE Require Import Base.QUtil gen.Src Model.Polygon Model.Domains.
Import ListNotations. Open Scope Q_scope.
"""


def focal_excess(poly, p):
    """min over edges of d(v1,p)+d(v2,p)-d(v1,v2), float (only used with a wide margin)"""
    best = None
    for i in range(len(poly)):
        a, b = poly[i - 1], poly[i]
        e = math.hypot(a[0] - p[0], a[1] - p[1]) + math.hypot(b[0] - p[0], b[1] - p[1]) - math.hypot(a[0] - b[0], a[1] - b[1])
        best = e if best is None or e < best else best
    return best


def crossing_inside(poly, p):
    cnt = 0
    for i in range(len(poly)):
        a, b = poly[i - 1], poly[i]
        if (a[1] > p[1]) != (b[1] > p[1]):
            xi = F(a[0]) + F(p[1] - a[1]) * F(b[0] - a[0]) / F(b[1] - a[1])
            if xi > p[0]:
                cnt += 1
    return cnt % 2 == 1


def gen_poly(rng, lo, hi, n, step=1):
    for _ in range(2000):
        pts = [(F(rng.randrange(lo * step, hi * step + 1), step), F(rng.randrange(lo * step, hi * step + 1), step)) for _ in range(n)]
        if len(set(pts)) == n and simple(pts):
            return pts
    return [(F(lo), F(lo)), (F(hi), F(lo)), (F(hi), F(hi)), (F(lo), F(hi))]


def gen_cases(rng, tier):
    cases = []
    n = 14 if tier == "quick" else 120
    for k in range(n):
        size = rng.choice([20, 30, 40])
        outl = [gen_poly(rng, 0, size, rng.choice([3, 4, 4, 5, 6]))]
        if rng.random() < 0.3:
            outl.append(gen_poly(rng, 0, size, rng.choice([3, 4])))
        nogo = []
        for _ in range(rng.choice([0, 1, 1, 2])):
            c0 = rng.randrange(2, size - 8)
            nogo.append(gen_poly(rng, c0, c0 + rng.randrange(3, 8), rng.choice([3, 4])))
        if rng.random() < 0.5:
            outl = [list(reversed(o)) for o in outl]
        nogo = [list(reversed(z)) if rng.random() < 0.5 else z for z in nogo]
        bmin = F(rng.randrange(12, 28), 4)
        cases.append({"outlines": [[v4(v) for v in o] for o in outl], "nogo": [[v4(v) for v in o] for o in nogo],
                      "bmin": [bmin.numerator, bmin.denominator], "bx": [(bmin + 4).numerator, (bmin + 4).denominator],
                      "by": [(bmin + 5).numerator, (bmin + 5).denominator], "want_grid": True, "float": False,
                      "_outl": outl, "_nogo": nogo})
    # non-convex lots that contain the four corners of their bounding rectangle: a notch cut into one side (U / C shapes), an inner corner (L)
    for k in range(3 if tier == "quick" else 12):
        W, H = rng.choice([(40, 30), (30, 30), (36, 24)])
        a, b = sorted(rng.sample(range(W // 4, 3 * W // 4 + 1), 2))
        if b - a < 6:
            b = min(W - 4, a + 8)
        d = rng.randrange(H // 3, 2 * H // 3)
        shape = k % 3
        if shape == 0:      # notch from the top
            o = [(0, 0), (W, 0), (W, H), (b, H), (b, H - d), (a, H - d), (a, H), (0, H)]
        elif shape == 1:    # notch from the right
            lo_, hi_ = H // 3, 2 * H // 3
            o = [(0, 0), (W, 0), (W, lo_), (W - d, lo_), (W - d, hi_), (W, hi_), (W, H), (0, H)]
        else:               # two notches: top and bottom
            o = [(0, 0), (a, 0), (a, d // 2), (b, d // 2), (b, 0), (W, 0), (W, H), (b, H), (b, H - d // 2), (a, H - d // 2), (a, H), (0, H)]
        o = [(F(x), F(y)) for x, y in o]
        if rng.random() < 0.5:
            o = list(reversed(o))
        bmin = F(rng.randrange(12, 20), 4)
        cases.append({"outlines": [[v4(v) for v in o]], "nogo": [], "bmin": [bmin.numerator, bmin.denominator], "bx": [(bmin + 4).numerator, (bmin + 4).denominator],
                      "by": [(bmin + 5).numerator, (bmin + 5).denominator], "want_grid": True, "float": False, "_outl": [o], "_nogo": []})
    # outlines digitised as many short segments whose CLOSING segment (last vertex back to the first) is the long straight side, with a
    # grid column inside the tolerance band of that side (0.3 m away; the band of a 40 m segment is 0.45 m wide, of a 10 m one 0.22 m):
    # once as the property outline (the column is kept as contour) and once as a no-go zone (the column is removed as contour)
    x0 = F(3, 10)
    lot = [(x0, F(0)), (F(10), F(0)), (F(20), F(0)), (F(30), F(0)), (F(30), F(10)), (F(30), F(20)), (F(30), F(30)), (F(30), F(40)), (F(20), F(40)), (F(10), F(40)), (x0, F(40))]
    zone = [(x0, F(2)), (F(6), F(2)), (F(6), F(10)), (F(6), F(20)), (F(6), F(30)), (F(6), F(38)), (x0, F(38))]
    big = [(F(0), F(0)), (F(30), F(0)), (F(30), F(40)), (F(0), F(40))]
    # lots whose far (upper right) corner is cut off, with a building that lies entirely above / right of the last borehole that survives
    # the property cut of a field
    cut1 = [(F(0), F(0)), (F(40), F(0)), (F(40), F(12)), (F(24), F(40)), (F(0), F(40))]
    cut2 = [(F(0), F(0)), (F(40), F(0)), (F(40), F(30)), (F(14), F(36)), (F(0), F(36))]
    bld1 = [(F(8), F(24)), (F(16), F(24)), (F(16), F(32)), (F(8), F(32))]
    bld2 = [(F(20), F(4)), (F(34), F(5)), (F(27), F(15))]
    for outl, nogo in (([lot], []), ([big], [zone]), ([cut1], [bld1]), ([cut2], [bld2]), ([list(reversed(cut1))], [list(reversed(bld1))])):
        bmin = F(3)
        cases.append({"outlines": [[v4(v) for v in o] for o in outl], "nogo": [[v4(v) for v in o] for o in nogo], "bmin": [3, 1], "bx": [7, 1], "by": [8, 1],
                      "want_grid": True, "float": False, "_outl": outl, "_nogo": nogo})
    return cases


def qpt(p):
    return f"({q(F(*p[0]))}, {q(F(*p[1]))})"


def oracle(chk, c, o, kind="land"):
    """the property read off the real output with an independent exact point-in-polygon, away from the tolerance band"""
    if not o["ok"]:
        # the property speaks about the candidate fields that are produced; a lot on which a candidate grid keeps no borehole makes the
        # generator raise (degenerate input: nothing to place).  Counted, not judged here (exception discipline is C02).
        d = chk.cov.setdefault("input_distribution", {})
        d["generator raised " + str(o.get("exc"))] = d.get("generator raised " + str(o.get("exc")), 0) + 1
        return 0
    outl, nogo = c["_outl"], c["_nogo"]
    n = 0
    pub = {k: v for k, v in c.items() if not k.startswith("_")}
    for li, (l, g) in enumerate(zip(o["fields"], o["grid"])):
        counts = [len(f) for f in l]
        if any(b < a for a, b in zip(counts, counts[1:])):
            chk.violation(kind, pub, {"list": li, "counts": counts}, "each candidate list ordered by non-decreasing borehole count")
            return n
        kept_all = set()
        for f in l:
            for x, y in f:
                p = (F(*x), F(*y))
                kept_all.add(p)
                n += 1
                pf = (float(p[0]), float(p[1]))
                in_or_edge = any(crossing_inside(po, p) or focal_excess([(float(a), float(b)) for a, b in po], pf) < float(TOL) * 1.000001 for po in outl)
                if not in_or_edge:
                    chk.violation(kind, pub, {"list": li, "point": [str(p[0]), str(p[1])]}, "every borehole inside, or within the edge tolerance of, a property polygon")
                    return n
                for z in nogo:
                    zf = [(float(a), float(b)) for a, b in z]
                    if crossing_inside(z, p) and focal_excess(zf, pf) > float(TOL) * 10:
                        chk.violation(kind, pub, {"list": li, "point": [str(p[0]), str(p[1])]}, "no borehole inside a no-go polygon")
                        return n
                    if any(onseg(z[i - 1], z[i], p) for i in range(len(z))) or focal_excess(zf, pf) < float(TOL) * 0.9:
                        chk.violation(kind, pub, {"list": li, "point": [str(p[0]), str(p[1])]}, "no borehole on the boundary of a no-go polygon")
                        return n
    return n


def converse(chk, c, o, kind="design"):
    """no grid borehole that is clearly inside the property and clearly outside every no-go zone is dropped: for every field of the
    grid that bi_rectangle_nested lays over the bounding rectangle, the boreholes that are clearly placeable must all appear in one
    candidate field of the same list that is a subset of that grid field"""
    outl, nogo = c["_outl"], c["_nogo"]
    outf = [[(float(a), float(b)) for a, b in po] for po in outl]
    nogof = [[(float(a), float(b)) for a, b in z] for z in nogo]
    pub = {k: v for k, v in c.items() if not k.startswith("_")}
    n = 0
    memo = {}

    def placeable(p):
        if p not in memo:
            pf = (float(p[0]), float(p[1]))
            ins = any(crossing_inside(po, p) and focal_excess(pof, pf) > float(TOL) * 10 for po, pof in zip(outl, outf))
            clear = all((not crossing_inside(z, p)) and focal_excess(zf, pf) > float(TOL) * 10 for z, zf in zip(nogo, nogof))
            memo[p] = ins and clear
        return memo[p]
    for li, (l, gl) in enumerate(zip(o["fields"], o["grid"])):
        fsets = [set((F(*x), F(*y)) for x, y in f) for f in l]
        for gi, gf in enumerate(gl):
            gset = [(F(*x), F(*y)) for x, y in gf]
            want = {p for p in gset if placeable(p)}
            if not want:
                continue
            n += len(want)
            gs = set(gset)
            if not any(want <= fs and fs <= gs for fs in fsets):
                best = max(fsets, key=lambda fs: len(want & fs) if fs <= gs else -1) if fsets else set()
                missing = sorted(want - best)[:3]
                chk.violation(kind, pub, {"list": li, "grid_field": gi, "placeable": len(want), "dropped": [[str(a), str(b)] for a, b in missing]},
                              "no grid borehole that is clearly inside the property and clearly outside all no-go zones is dropped")
                return n
    return n


def design_cases(rng, tier, cases):
    """the generated lots again, and some directed ones, as inputs of the public interface (floats; integer vertices and quarter-metre
    spacings are exact in binary)"""
    from configs import cfg
    out = []
    for c in cases[:6 if tier == "quick" else 40]:
        out.append((c["_outl"], c["_nogo"], F(*c["bmin"])))
    # directed: triangular no-go zones; an outline drawn as a closed ring is NOT generated (the code does not document it)
    out.append(([[(F(0), F(0)), (F(40), F(0)), (F(40), F(30)), (F(0), F(30))]], [[(F(8), F(6)), (F(24), F(8)), (F(12), F(22))]], F(3)))
    out.append(([[(F(0), F(0)), (F(36), F(0)), (F(36), F(36)), (F(0), F(36))]],
                [[(F(5), F(5)), (F(15), F(6)), (F(7), F(14))], [(F(20), F(18)), (F(32), F(20)), (F(30), F(31)), (F(21), F(29))]], F(7, 2)))
    # directed: a U-shaped lot and a second outline that lies across the notch (all its corners are inside or on the first outline,
    # but it adds the land of the notch); an L-shaped lot and a parcel filling its missing corner
    W, H, a, b, d = 40, 30, 12, 28, 14
    U = [(0, 0), (W, 0), (W, H), (b, H), (b, H - d), (a, H - d), (a, H), (0, H)]
    out.append(([[(F(x), F(y)) for x, y in U], [(F(a - 3), F(H - d + 2)), (F(b + 3), F(H - d + 2)), (F(b + 3), F(H - 2)), (F(a - 3), F(H - 2))]], [], F(3)))
    out.append(([[(F(x), F(y)) for x, y in U], [(F(a), F(H - d)), (F(b), F(H - d)), (F(b), F(H)), (F(a), F(H))]], [[(F(3), F(3)), (F(9), F(4)), (F(5), F(9))]], F(3)))
    Lsh = [(0, 0), (36, 0), (36, 16), (18, 16), (18, 32), (0, 32)]
    out.append(([[(F(x), F(y)) for x, y in Lsh], [(F(18), F(16)), (F(36), F(16)), (F(36), F(32)), (F(18), F(32))]], [], F(7, 2)))
    # far corner cut off + a building above the last surviving borehole of the small fields
    out.append(([[(F(0), F(0)), (F(40), F(0)), (F(40), F(12)), (F(24), F(40)), (F(0), F(40))]], [[(F(8), F(24)), (F(16), F(24)), (F(16), F(32)), (F(8), F(32))]], F(3)))
    # a sub-lot that really is covered by the main lot (adds nothing): must change nothing either
    out.append(([[(F(0), F(0)), (F(40), F(0)), (F(40), F(30)), (F(0), F(30))], [(F(5), F(5)), (F(20), F(5)), (F(20), F(20)), (F(5), F(20))]], [], F(4)))
    def area2(z):
        return sum(z[i - 1][0] * z[i][1] - z[i][0] * z[i - 1][1] for i in range(len(z)))
    res = []
    for k, (outl, nogo, bmin) in enumerate(out):
        # zones alternately listed clockwise and counter-clockwise, whatever the generator produced
        nogo = [z if (area2(z) > 0) == ((k + j) % 2 == 0) else list(reversed(z)) for j, z in enumerate(nogo)]
        gc = {"b_min": float(bmin), "b_max_x": float(bmin + 4), "b_max_y": float(bmin + 5),
              "property_boundary": [[[float(x), float(y)] for x, y in o] for o in outl] if len(outl) > 1 or rng.random() < 0.5 else [[float(x), float(y)] for x, y in outl[0]],
              "no_go_boundaries": [[[float(x), float(y)] for x, y in z] for z in nogo]}
        if len(nogo) == 1 and rng.random() < 0.5:
            gc["no_go_boundaries"] = [[float(x), float(y)] for x, y in nogo[0]]          # a single zone given without the outer list
        res.append({"cfg": cfg("BIRECTANGLECONSTRAINED", months=12, geom_over=gc), "_outl": outl, "_nogo": nogo,
                    "outlines": [[v4(v) for v in o] for o in outl], "nogo": [[v4(v) for v in z] for z in nogo]})
    return res


def design_level(chk, cases):
    """the candidate fields the search is handed when the lot goes through GHEManager.set_geometry_constraints_bi_rectangle_constrained
    and set_design (geometry.py and design.py lie between the user's polygons and domains.polygonal_land_constraint)"""
    dcs = design_cases(chk.rng, chk.tier, cases)
    for c in chk.listed_inputs("design"):
        c = dict(c)
        c["_outl"] = [[(F(*v[0:2]), F(*v[2:4])) for v in b] for b in c["outlines"]]
        c["_nogo"] = [[(F(*v[0:2]), F(*v[2:4])) for v in b] for b in c["nogo"]]
        dcs.insert(0, c)
    from concurrent.futures import ThreadPoolExecutor
    with ThreadPoolExecutor(max_workers=NPROC) as ex:
        rs = list(ex.map(lambda c: run_impl("geom.py", {"design": [{"cfg": c["cfg"]}]}, timeout=1500), dcs))
    n = 0
    okc = 0
    for c, r in zip(dcs, rs):
        if "_error" in r:
            chk.broken.append({"name": "correspondence C04 (design-level driver failed)", "detail": r["_error"]})
            return n
        o = r["design"][0]
        chk.cov["evaluations"] += 1
        if not o["ok"]:
            d = chk.cov.setdefault("input_distribution", {})
            d["design raised " + str(o.get("exc"))] = d.get("design raised " + str(o.get("exc")), 0) + 1
            continue
        okc += 1
        if len(chk.violations) >= 3:
            break
        before = len(chk.violations)
        n += oracle(chk, c, o, kind="design")
        if len(chk.violations) == before:
            n += converse(chk, c, o)
    if okc * 2 < len(dcs):
        chk.broken.append({"name": "C04 design level: fewer than half of the lots produced a design object", "detail": json.dumps(chk.cov.get("input_distribution"))})
    chk.cov["design_level_lots"] = okc
    return n


def run(chk):
    quick = chk.tier == "quick"
    chk.build("C04", extra=["Model/Polygon", "Model/Domains"])
    rng = chk.rng
    cases = gen_cases(rng, chk.tier)
    from concurrent.futures import ThreadPoolExecutor
    pub = [{k: v for k, v in c.items() if not k.startswith("_")} for c in cases]
    parts = [pub[i:i + 2] for i in range(0, len(pub), 2)]
    with ThreadPoolExecutor(max_workers=NPROC) as ex:
        rs = list(ex.map(lambda part: run_impl("geom.py", {"land": part}, timeout=1500), parts))
    outs = []
    for r in rs:
        if "_error" in r:
            chk.broken.append({"name": "correspondence C04 (implementation driver failed)", "detail": r["_error"]})
            return chk.finish()
        outs += r["land"]
    chk.cov["evaluations"] += len(cases)
    nontrivial = 0
    for c, o in zip(cases, outs):
        if len(chk.violations) >= 3:
            break
        nontrivial += oracle(chk, c, o)
    if sum(1 for o in outs if o.get("ok")) * 2 < len(outs):
        chk.broken.append({"name": "C04 generator: fewer than half of the generated lots produced candidate fields (the check would be vacuous)",
                           "detail": json.dumps(chk.cov.get("input_distribution"))})
    # converse clause on the real remove_cutout: nothing clearly inside the property and clearly outside the no-go zones is dropped
    conv_cases = []
    for c, o in zip(cases, outs):
        if o["ok"] and o["grid"] and o["grid"][-1]:
            gbig = o["grid"][-1][-1]
            conv_cases.append((c, gbig))
    if conv_cases:
        req = []
        for c, gbig in conv_cases:
            req.append({"coords": [[p[0][0], p[0][1], p[1][0], p[1][1]] for p in gbig], "boundaries": c["outlines"], "remove_inside": False, "keep_contour": True})
        r1 = run_impl("geom.py", {"cutout": req}, timeout=900)
        if "_error" not in r1:
            for (c, gbig), o1 in zip(conv_cases, r1["cutout"]):
                if not o1["ok"]:
                    continue
                pts = [(F(*p[0]), F(*p[1])) for p in gbig]
                kept = {pts[i] for i in o1["kept"]}
                for p in pts:
                    pf = (float(p[0]), float(p[1]))
                    if p not in kept and any(crossing_inside(po, p) and focal_excess([(float(a), float(b)) for a, b in po], pf) > float(TOL) * 10 for po in c["_outl"]):
                        chk.violation("cutout", {"outlines": c["outlines"], "point": [str(p[0]), str(p[1])]}, {"dropped": True},
                                      "a grid borehole clearly inside the property is kept")
                        break
                    nontrivial += 1
    if len(chk.violations) < 3:
        nontrivial += design_level(chk, cases)
    # mutable default argument: a second call must behave like the first
    if getattr(chk, "model_ok", False):
        files = []
        for k, (c, o) in enumerate(zip(cases, outs)):
            if not o["ok"]:
                continue
            outl = "[" + "; ".join("[" + "; ".join(f"({q(F(*v[0:2]))}, {q(F(*v[2:4]))})" for v in b) + "]" for b in c["outlines"]) + "]"
            nogo = "[" + "; ".join("[" + "; ".join(f"({q(F(*v[0:2]))}, {q(F(*v[2:4]))})" for v in b) + "]" for b in c["nogo"]) + "]"
            exp = "[" + "; ".join("[" + "; ".join("[" + "; ".join(qpt(p) for p in f) + "]" for f in l) + "]" for l in o["fields"]) + "]"
            txt = HEADER + f"""Definition got := land_constraint (ppc_tol cutout_on_edge_tolerance) {q(F(*c['bmin']))} {q(F(*c['bx']))} {q(F(*c['by']))} {outl} {nogo} true false.
Definition exp : list (list (list (Q * Q))) := {exp}.
Definition peq (a b : Q * Q) : bool := qeqb (fst a) (fst b) && qeqb (snd a) (snd b).
Eval vm_compute in (list_eqb (list_eqb (list_eqb peq)) got exp, length (concat got), length (concat exp)).
"""
            files.append((f"land{k}", txt))
        tot = bad = 0
        for (name, rc, out, err) in chk.coq_eval_many(files, timeout=1200):
            flat = " ".join(out.split())
            if rc != 0 or "= (" not in flat:
                chk.broken.append({"name": f"correspondence C04/{name} did not evaluate", "detail": (err or out)[-400:]})
                continue
            tot += 1
            if "= (true" not in flat:
                bad += 1
                chk.notes.append({"mismatch": name, "coq": flat[:120]})
        if bad:
            chk.broken.append({"name": "correspondence C04: Model land_constraint differs from domains.polygonal_land_constraint", "detail": f"{bad} of {tot} cases"})
        chk.cov["traces_validated_against_impl"] = tot - bad
        chk.cov["correspondence_cases"] = tot
    chk.cov["distinct_nontrivial"] = nontrivial
    chk.cov["rule"] = ("random simple polygons (3-6 vertices, convex and non-convex, both orientations, 1-2 outlines, 0-2 no-go polygons) with rational vertices; every kept borehole and the "
                       "grid of the largest field checked with an independent exact crossing-number test away from the tolerance band; non-trivial = one kept borehole")
    chk.sample({"case": {k: v for k, v in pub[0].items()}, "fields_per_list": [len(l) for l in outs[0].get("fields", [])]})
    chk.cov["trusted_base"] = ["the focal-sum tolerance test is decided exactly in the model (focal_lt: sign analysis + squaring); validated against the float implementation on every case, not proved"]
    return chk.finish(assumptions=["'clearly inside/outside' = focal excess >= 10 x tolerance from every edge, the code's own definition of the band"])


def replay(payload):
    from lib import Check
    kind = payload.get("kind")
    if kind not in ("land", "design"):
        return "RERUN"
    chk = Check("C04", "quick", payload.get("seed", 0))
    c = payload["input"]
    c["_outl"] = [[(F(*v[0:2]), F(*v[2:4])) for v in b] for b in c["outlines"]]
    c["_nogo"] = [[(F(*v[0:2]), F(*v[2:4])) for v in b] for b in c["nogo"]]
    if kind == "design":
        r = run_impl("geom.py", {"design": [{"cfg": c["cfg"]}]}, timeout=1500)
        o = r["design"][0]
        if o["ok"]:
            oracle(chk, c, o, kind="design")
            if not chk.violations:
                converse(chk, c, o)
    else:
        r = run_impl("geom.py", {"land": [{k: v for k, v in c.items() if not k.startswith("_")}]})
        oracle(chk, c, r["land"][0])
    for path, found, pl in chk.violations:
        print(f"VIOLATION property=C04 replay={path}")
    return 1 if chk.violations else 0
