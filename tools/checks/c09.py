"""C09 — simulated fluid temperatures equal the documented temporal superposition."""
import json, math, re
from fractions import Fraction as F
from lib import *

HEADER = """From Coq Require Import ZArith QArith List Bool.
From GHE Require Import Base.QUtil Model.Superpos.
Import ListNotations. Open Scope Q_scope.
"""


def gen_cases(rng, tier):
    cs = []
    kinds = ["balanced", "heating", "cooling", "spiky", "mixed_days"]
    n = 8 if tier == "quick" else 40
    for k in range(n):
        c = {"nx": rng.choice([1, 1, 2, 3]), "ny": rng.choice([1, 2, 2, 4]), "months": rng.choice([12, 24, 36]),
             "H": rng.choice([60.0, 100.0, 135.0, 87.5]), "loads": {"kind": kinds[k % len(kinds)], "scale": rng.choice([8000.0, 20000.0, 50000.0]), "seed": rng.randrange(1, 10 ** 6)},
             "pipe": ["SINGLEUTUBE", "DOUBLEUTUBEPARALLEL", "COAXIAL", "DOUBLEUTUBESERIES"][k % 4], "flow": rng.choice([["BOREHOLE", 0.5], ["SYSTEM", 1.2], ["BOREHOLE", 0.2]]),
             "method": "HYBRID" if k % 3 != 2 else "HOURLY", "ugt": rng.choice([18.3, 10.0, 12.5]), "k": rng.choice([2.0, 1.4, 3.1])}
        c["steps"] = 45 if c["method"] == "HYBRID" else 60
        if k % 2 == 1:
            c["earlier_heights"] = [rng.choice([60.0, 150.0, 135.0])] + ([rng.choice([75.0, 120.0])] if k % 4 == 1 else [])     # an object that was simulated at other heights before
        if c["method"] == "HOURLY":
            c["months"] = 12
        cs.append(c)
    # hourly runs longer than the year of loads supplied: the sequence is the year repeated end to end (steps around each year boundary)
    for months in ([24, 18] if tier == "quick" else [24, 36, 18, 30]):
        cs.append({"nx": 1, "ny": 2, "months": months, "H": 100.0, "loads": {"kind": rng.choice(kinds), "scale": 12000.0, "seed": rng.randrange(1, 10 ** 6)},
                   "pipe": "SINGLEUTUBE", "flow": ["BOREHOLE", 0.4], "method": "HOURLY", "ugt": 15.0, "k": 2.2, "steps": 20,
                   "late_steps": [8759, 8760, 8761, 8762, 8784, int(months / 12.0 * 8760.0)]})
    return cs


def oracle(chk, c, o):
    """the property's formula from the raw inputs (field loads in W, hours), written independently"""
    pr = o["params"]
    q = [0.0] + o["raw_q_W"]
    t = [0.0] + o["raw_t_h"]
    n = 0
    for i in range(1, len(o["hp_eft"]) + 1):
        s = sum((q[k + 1] - q[k]) * o["K"][i - 1][k] for k in range(i))
        want = pr["Tg"] + s / (pr["two_pi_k"] * pr["H"] * pr["nbh"]) + q[i] * pr["Rb"] / (pr["H"] * pr["nbh"]) - q[i] / (2 * pr["mdot"] * pr["cp"] * pr["nbh"])
        n += 1
        if not (abs(want - o["hp_eft"][i - 1]) <= 1e-9 * max(1.0, abs(want))):
            chk.violation("simulate", c, {"step": i, "hp_eft": o["hp_eft"][i - 1], "formula": want}, "EFT at every step equals the documented superposition of load steps")
            return n
    # hourly method beyond the first year: the load sequence itself, and the formula at steps around the year boundary
    sq = o.get("sequence")
    if sq is not None:
        n += 1
        if sq["steps"] != sq["expected_steps"] or sq["first_difference"] is not None:
            chk.violation("simulate", c, sq, "an hourly simulation superposes the supplied year of loads repeated end to end, one step per hour of the horizon")
            return n
        year = o["year_q_W"]
        for st, d in o.get("late", {}).items():
            i = int(st)
            qq = [0.0] + [year[(j - 1) % 8760] for j in range(1, i + 1)]
            s = sum((qq[k + 1] - qq[k]) * d["K"][k] for k in range(i))
            want = pr["Tg"] + s / (pr["two_pi_k"] * pr["H"] * pr["nbh"]) + qq[i] * pr["Rb"] / (pr["H"] * pr["nbh"]) - qq[i] / (2 * pr["mdot"] * pr["cp"] * pr["nbh"])
            n += 1
            if abs(want - d["hp_eft"]) > 1e-9 * max(1.0, abs(want)):
                chk.violation("simulate", c, {"step": i, "hp_eft": d["hp_eft"], "formula": want}, "EFT at every step equals the documented superposition of load steps (hourly method, beyond the first year)")
                return n
    return n


def run(chk):
    quick = chk.tier == "quick"
    chk.build("C09", extra=["Model/Superpos"])
    rng = chk.rng
    cases = gen_cases(rng, chk.tier)
    from concurrent.futures import ThreadPoolExecutor
    with ThreadPoolExecutor(max_workers=NPROC) as ex:
        rs = list(ex.map(lambda c: run_impl("ghe_drv.py", {"mode": "c09", "cases": [c]}, timeout=900), cases))
    outs = []
    for r in rs:
        if isinstance(r, dict) and "_error" in r:
            chk.broken.append({"name": "correspondence C09 (implementation driver failed)", "detail": r["_error"]})
            return chk.finish()
        outs.append(r[0])
    chk.cov["evaluations"] += len(cases)
    nontrivial = 0
    for c, o in zip(cases, outs):
        if not o["ok"]:
            chk.violation("simulate", c, {"exception": o.get("exc"), "msg": o.get("msg")}, "simulation of a valid GHE succeeds")
            continue
        nontrivial += oracle(chk, c, o)
    # translation validation of the regenerated hourly-sequence expressions on one real multi-year hourly run
    if getattr(chk, "model_ok", False):
        for c, o in zip(cases, outs):
            if o.get("ok") and o.get("sequence") and o.get("q_at") and c.get("months", 12) > 12:
                steps = sorted(int(k) for k in o["q_at"])
                txt = ("From Coq Require Import ZArith QArith List Bool.\nFrom GHE Require Import Base.QUtil gen.Src.\nImport ListNotations. Open Scope Q_scope.\n"
                       f"Definition year : list Q := {qlist(o['raw_year_W'])}.\n"
                       f"Definition nh := hourly_n_hours {q(c['months'])}.\nDefinition sq := hourly_tile year (hourly_n_years nh) nh.\n"
                       f"Definition want : list (nat * Q) := [{'; '.join(f'({st - 1}%nat, {q(o['q_at'][str(st)])})' for st in steps)}].\n"
                       f"Eval vm_compute in (Nat.eqb (length sq) {o['sequence']['steps']}, forallb (fun p => qeqb (nth (fst p) sq 0) (snd p)) want).\n")
                rcq, outq, errq = chk.coq_eval("hourlyseq", txt, timeout=600)
                if rcq != 0 or "(true, true)" not in " ".join(outq.split()):
                    chk.broken.append({"name": "translation validation C09: the regenerated hourly load-sequence expressions (n_hours, n_years, repetition and cut) differ from what GHE.simulate superposed",
                                       "detail": (errq or outq)[-300:]})
                else:
                    chk.cov["traces_validated_against_impl"] = chk.cov.get("traces_validated_against_impl", 0) + len(steps) + 1
                break
    # whole designs through the manager: the temperatures the returned object carries are those of the requested loads / flow / media
    # (reference built from scratch through the low-level classes), also for RowWise + system flow and after the loads were replaced
    from configs import cfg
    d1 = cfg("ROWWISE", months=12, loads={"kind": "balanced", "scale": 40000.0, "seed": 3}, flow=("SYSTEM", 3.0))
    d2 = cfg(months=12, loads={"kind": "cooling", "scale": 26000.0, "seed": 2})
    d2["_changed_after_design"] = {"section": "loads", "values": {"synthetic": {"kind": "cooling", "scale": 65000.0, "seed": 2}}, "design_found_first": True}
    # an undisturbed ground temperature of exactly 0 C (and a lower limit below it), on a manager that held another soil before
    d3 = cfg(months=12, loads={"kind": "balanced", "scale": 9000.0, "seed": 5}, design={"min_eft": -8.0, "max_eft": 20.0}, flow=("BOREHOLE", 0.3))
    d3["soil"] = dict(d3["soil"], undisturbed_temp=0.0)
    d3["fluid"] = {"fluid_name": "PROPYLENEGLYCOL", "concentration_percent": 30.0, "temperature": 0}
    d3["_changed_after_design"] = {"section": "soil", "values": {"undisturbed_temp": 8.0}, "design_found_first": False}
    for r in e2e_runs([d1, d2, d3]):
        if not r.get("ok") or "reference" not in r:
            chk.broken.append({"name": "end-to-end run / reference failed", "detail": json.dumps({k: r.get(k) for k in ("exc", "msg", "reference_error")})})
            continue
        chk.cov["evaluations"] += 1
        nontrivial += 1
        if "soil_ugt" in r and abs(r["soil_ugt"] - float(r["cfg"]["soil"]["undisturbed_temp"])) > 1e-12 and len(chk.violations) < 5:
            chk.violation("design-temperatures", r["cfg"], {"ground_temperature_of_the_design": r["soil_ugt"]},
                          f"the temperatures are computed from the requested undisturbed ground temperature {r['cfg']['soil']['undisturbed_temp']}")
            continue
        a, b = r["hp_eft_head"], r["reference"]["hp_eft_head"]
        bad = [i for i in range(min(len(a), len(b))) if not (abs(a[i] - b[i]) <= 1e-9 * max(1.0, abs(b[i])))]
        if bad or len(a) != len(b):
            chk.violation("design-temperatures", r["cfg"], {"step": (bad[0] + 1) if bad else None, "on_the_returned_design": a[bad[0]] if bad else len(a),
                                                           "from_the_requested_inputs": b[bad[0]] if bad else len(b), "boreholes": r["nbh"], "H": r["H"]},
                          "the temperatures of the returned design are the superposition of the REQUESTED loads with the requested flow and media")
    # metamorphic properties on the real GHE.simulate: zero load, scaling, ground temperature shift
    base = dict(cases[0], steps=30, want_K=False)
    meta = [dict(base), dict(base, scale=0.0), dict(base, scale=2.5), dict(base, ugt=base["ugt"] + 3.0), dict(base, scale=-1.0)]
    with ThreadPoolExecutor(max_workers=NPROC) as ex:
        ms = [r[0] for r in ex.map(lambda c: run_impl("ghe_drv.py", {"mode": "c09", "cases": [c]}, timeout=900), meta)]
    if all(m.get("ok") for m in ms):
        Tg = ms[0]["params"]["Tg"]
        b0 = ms[0]["hp_eft"]
        if any(not (abs(x - Tg) <= 1e-12) for x in ms[1]["hp_eft"]):
            chk.violation("simulate-meta", meta[1], {"hp_eft": ms[1]["hp_eft"][:5]}, f"zero load returns exactly the ground temperature {Tg}")
        for x0, x2 in zip(b0, ms[2]["hp_eft"]):
            if abs((x2 - Tg) - 2.5 * (x0 - Tg)) > 1e-9 * max(1.0, abs(x0 - Tg)):
                chk.violation("simulate-meta", meta[2], {"base": x0, "scaled": x2}, "scaling all loads scales the departure from the ground temperature linearly")
                break
        for x0, x3 in zip(b0, ms[3]["hp_eft"]):
            if abs((x3 - x0) - 3.0) > 1e-9:
                chk.violation("simulate-meta", meta[3], {"base": x0, "shifted": x3}, "shifting the ground temperature shifts every result equally")
                break
        for x0, x4 in zip(b0, ms[4]["hp_eft"]):
            if abs((x4 - Tg) + (x0 - Tg)) > 1e-9 * max(1.0, abs(x0 - Tg)):
                chk.violation("simulate-meta", meta[4], {"base": x0, "negated": x4}, "negating the loads mirrors the departure (rejection raises, extraction lowers)")
                break
        nontrivial += 4
        chk.cov["evaluations"] += 5
    else:
        chk.broken.append({"name": "metamorphic runs failed", "detail": json.dumps([m.get("msg") for m in ms if not m.get("ok")])[:400]})
    # correspondence with the Coq model: same q, kernel table sampled from the real interpolant, exact rationals of the floats
    if getattr(chk, "model_ok", False):
        files = []
        for k, (c, o) in enumerate(zip(cases, outs)):
            if not o["ok"]:
                continue
            pr = o["params"]
            n = len(o["hp_eft"])
            krows = "[" + "; ".join(qlist(row) for row in o["K"]) + "]"
            txt = HEADER + f"""Definition s := {{| nbh := {q(pr['nbh'])}; Hh := {q(pr['H'])}; two_pi_k := {q(pr['two_pi_k'])}; Tg := {q(pr['Tg'])}; Rb := {q(pr['Rb'])}; mdot := {q(pr['mdot'])}; cp := {q(pr['cp'])} |}}.
Definition Kt : list (list Q) := {krows}.
Definition K (i k : nat) : Q := nth k (nth (i - 1) Kt []) 0.
Definition qs : list Q := {qlist(o['q'])}.
Definition impl : list (Q * Q) := [{'; '.join('(' + q(a) + ', ' + q(b) + ')' for a, b in zip(o['hp_eft'], o['dTb']))}].
Definition tol : Q := 1 # 1000000000.
Definition res := map (fun mi => qclose tol (fst (fst mi)) (fst (snd mi)) && qclose tol (snd (fst mi)) (snd (snd mi))) (combine (simulate s K qs) impl).
Eval vm_compute in (length res, length (filter negb res)).
"""
            files.append((f"sim{k}", txt))
        tot = bad = 0
        for (name, rc, out, err) in chk.coq_eval_many(files, timeout=900):
            m = re.search(r"=\s*\((\d+)%nat,\s*(\d+)%nat\)", " ".join(out.split()))
            if rc != 0 or not m:
                chk.broken.append({"name": f"correspondence C09/{name} did not evaluate", "detail": (err or out)[-400:]})
                continue
            tot += int(m.group(1)); bad += int(m.group(2))
        if bad:
            chk.broken.append({"name": "correspondence C09: Model/Superpos.simulate differs from BaseGHE._simulate_detailed", "detail": f"{bad} of {tot} steps"})
        chk.cov["traces_validated_against_impl"] = chk.cov.get("traces_validated_against_impl", 0) + (tot - bad)
        chk.cov["correspondence_cases"] = tot
    chk.cov["distinct_nontrivial"] = nontrivial
    chk.cov["rule"] = ("real GHE objects (1-12 boreholes, real pygfunction g-functions, four pipe types, both flow specifications, hybrid and hourly methods); every one of the first 45-60 steps "
                       "compared with the formula evaluated from the raw loads (W) and hours with the kernel sampled from the real interpolant; non-trivial = one simulated step")
    chk.sample({"case": cases[0], "first_steps": outs[0].get("hp_eft", [])[:3]})
    chk.cov["trusted_base"] = ["the kernel values g(ln(dt*3600/ts)) are sampled from the implementation's own interpolant (the g-function itself is C10/C11)"]
    return chk.finish(assumptions=["floats converted exactly to rationals; comparison tolerance 1e-9 relative"])


def replay(payload):
    from lib import Check
    chk = Check("C09", "quick", payload.get("seed", 0))
    c = payload["input"]
    r = run_impl("ghe_drv.py", {"mode": "c09", "cases": [c]})
    if r[0].get("ok") and "K" in r[0]:
        oracle(chk, c, r[0])
    for path, found, pl in chk.violations:
        print(f"VIOLATION property=C09 replay={path}")
    return 1 if chk.violations else 0
