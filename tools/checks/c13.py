"""C13 — results are deterministic and independent of call history."""
import json, re
from lib import *
from configs import cfg

HEADER = """From Coq Require Import ZArith QArith List Bool.
From GHE Require Import Base.QUtil Model.ObjState.
Import ListNotations. Open Scope Q_scope.
"""


def gen_ops(rng, n, final):
    ops = []
    for _ in range(n):
        r = rng.random()
        ops.append(["hybrid"] if r < 0.3 else (["hourly"] if r < 0.5 else (["setH", rng.choice([60.0, 88.0, 100.0, 135.0, 190.0, 45.0])] if r < 0.8 else ["size"])))      # heights far from the nominal one included
    return ops + final


def run(chk):
    quick = chk.tier == "quick"
    chk.build("C13", extra=["Model/ObjState"])
    rng = chk.rng
    # ---- GHE object: the same final (height, method) after different histories
    finals = [[["setH", 88.0], ["hybrid"]], [["setH", 120.0], ["hourly"]], [["setH", 60.0], ["hybrid"]]]
    cases = []
    for k in range(3 if quick else 9):
        fin = finals[k % 3]
        base = {"nx": 1, "ny": rng.choice([1, 2]), "months": (24 if k % 3 == 1 else 12), "H": 100.0, "heights": [40.0, 97.5, 135.0, 200.0], "loads": {"kind": ["balanced", "heating", "cooling"][k % 3], "scale": 6000.0, "seed": k + 1},
                "pipe": ["SINGLEUTUBE", "DOUBLEUTUBESERIES", "COAXIAL"][k % 3]}
        hs = [fin] + [gen_ops(rng, rng.randrange(1, 5), fin) for _ in range(3)]
        hs.append([["setH", rng.choice([190.0, 45.0])], ["hybrid"]] + fin)          # a simulation at a height far from the nominal one came first
        for h in hs:
            cases.append(dict(base, ops=h, _group=k))
    from concurrent.futures import ThreadPoolExecutor
    with ThreadPoolExecutor(max_workers=NPROC) as ex:
        rs = list(ex.map(lambda c: run_impl("ghe_drv.py", {"mode": "ops", "cases": [{k: v for k, v in c.items() if not k.startswith("_")}]}, timeout=900), cases))
    groups = {}
    nontrivial = 0
    for c, rr in zip(cases, rs):
        if isinstance(rr, dict) and "_error" in rr:
            chk.broken.append({"name": "correspondence C13 (implementation driver failed)", "detail": rr["_error"][-300:]})
            continue
        o = rr[0]
        chk.cov["evaluations"] += 1
        pub = {k: v for k, v in c.items() if not k.startswith("_")}
        last = o["trace"][-1] if o.get("ok") else None
        excs = [rec for rec in (o.get("trace") or []) if "exc" in rec]
        if excs:
            chk.violation("ghe-history", pub, {"raised": excs[0]}, "a simulation on an object with earlier simulations behaves like on a fresh object (no exception)")
            continue
        changed = [rec for rec in o["trace"] if rec.get("loads_same") is False]
        if changed and len(chk.violations) < 4:
            chk.violation("ghe-history", pub, {"after": changed[0]["op"], "hourly_loads_now": changed[0]["loads_len"], "hourly_loads_given": 8760},
                          "an operation leaves the object's inputs (the year of hourly loads) as they were given: later calls and the written Loadings table see the same 8760 values")
        nontrivial += 1
        groups.setdefault(c["_group"], []).append((pub, last.get("stored")))
    for k, lst in groups.items():
        ref = lst[0][1]
        for pub, st in lst[1:]:
            if st != ref:
                chk.violation("ghe-history", pub, {"stored_max_min_n": st, "after_the_bare_history": ref}, "bit-identical temperatures whatever was simulated before on the same object")
                break
    # ---- manager: metamorphic histories, everything compared bit for bit (files minus time stamps)
    hist = [{"cfg": cfg(months=12), "other": cfg("RECTANGLE", months=12), "order_seed": rng.randrange(1000)}]
    if not quick:
        hist += [{"cfg": cfg("BIRECTANGLECONSTRAINED", months=12), "other": cfg("BIRECTANGLECONSTRAINED", months=12, geom_over={"b_min": 5.0}), "order_seed": 3},
                 {"cfg": cfg("ROWWISE", months=12), "other": cfg(months=12), "order_seed": 5},
                 {"cfg": cfg("BIZONEDRECTANGLE", "COAXIAL", months=12), "other": cfg("BIRECTANGLE", months=12), "order_seed": 11}]
    else:
        hist.append({"cfg": cfg("RECTANGLE", "DOUBLEUTUBEPARALLEL", months=12, flow=("SYSTEM", 2.0)), "other": cfg(months=12), "order_seed": 3})
    # RowWise (rotation limits are converted between degrees and radians on the way in): set_design twice, nothing else re-set
    hist.append({"cfg": cfg("ROWWISE", months=12, loads={"kind": "balanced", "scale": 30000.0, "seed": 2}), "order_seed": 2, "variants": ["set_design_twice"]})
    # a manager completely set up with other values in ONE section of the input (design object created, a design found), then only that
    # section set again to the requested values and set_design called again: the design is the one of a fresh manager
    base_cfg = cfg(months=12, loads={"kind": "balanced", "scale": 24000.0, "seed": 4})
    changes = [("soil", {"conductivity": 3.1}), ("loads", {"synthetic": {"kind": "heating", "scale": 9000.0, "seed": 2}}), ("simulation", {"num_months": 31}),
               ("geometric_constraints", {"b": 6.5}), ("design", {"max_eft": 30.0, "continue_if_design_unmet": True}), ("fluid", {"temperature": 5}),
               ("grout", {"conductivity": 2.0}), ("borehole", {"diameter": 0.11}), ("pipe", {"conductivity": 0.6})]
    if quick:
        changes = rng.sample(changes, 4) + [x for x in changes if x[0] in ("loads", "simulation")]
        changes = list({k: (k, v) for k, v in changes}.values())
    ccfgs = [base_cfg]
    for sec, vals in changes:
        cc = json.loads(json.dumps(base_cfg))
        cc["_changed_after_design"] = {"section": sec, "values": vals, "design_found_first": rng.random() < 0.5}
        ccfgs.append(cc)
    crs = e2e_runs(ccfgs)
    fresh = crs[0]
    for (sec, vals), r_ in zip(changes, crs[1:]):
        chk.cov["evaluations"] += 1
        if fresh.get("ok") and (not r_.get("ok") or r_["nbh"] != fresh["nbh"] or r_["H"] != fresh["H"] or r_.get("resim_max") != fresh.get("resim_max")):
            chk.violation("manager-history", {"cfg": base_cfg, "variant": f"section '{sec}' first set to {vals}, then to the requested values, set_design again"},
                          {"design": {"ok": r_.get("ok"), "exc": r_.get("exc"), "nbh": r_.get("nbh"), "H": r_.get("H")}, "fresh_manager": {"nbh": fresh["nbh"], "H": fresh["H"]}},
                          "the design depends on the values last set, not on what was set before")
    # the same manager object used for an earlier job that had a borehole cap of 2 (and other limits), then ALL setters called again for a job without
    # a cap: the second design is the one a fresh manager finds
    capj = json.loads(json.dumps(base_cfg))
    capj["_first_configured_with"] = {"design": {"max_boreholes": 2, "max_eft": 33.0}}
    rcap = e2e_runs([capj])[0]
    chk.cov["evaluations"] += 1
    if fresh.get("ok") and (not rcap.get("ok") or rcap["nbh"] != fresh["nbh"] or rcap["H"] != fresh["H"]):
        chk.violation("manager-history", {"cfg": base_cfg, "variant": "the manager first ran a job with max_boreholes=2 (all setters), then all setters again without a cap"},
                      {"design": {"ok": rcap.get("ok"), "exc": rcap.get("exc"), "nbh": rcap.get("nbh"), "H": rcap.get("H")}, "fresh_manager": {"nbh": fresh["nbh"], "H": fresh["H"]}},
                      "the design depends on the values last set, not on what was set before")
    # a setter called AFTER set_design, find_design directly afterwards: Model/ObjState.gstep says the design keeps the inputs of the last
    # set_design (C13_design_is_the_last_capture).  The model's prediction is compared first; the property itself only needs the result to be
    # the design of ONE of the two inputs, in full
    latec = json.loads(json.dumps(base_cfg))
    latec["design"]["max_eft"] = 39.0
    late = json.loads(json.dumps(latec))
    late["_set_after_design_without_set_design"] = {"section": "design", "values": {"max_eft": base_cfg["design"]["max_eft"]}}
    rl, r2 = e2e_runs([late, latec])
    chk.cov["evaluations"] += 2

    def same_design(a, b):
        if not a.get("ok") or not b.get("ok"):
            return a.get("ok") == b.get("ok") and a.get("exc") == b.get("exc")
        return a["nbh"] == b["nbh"] and a["H"] == b["H"] and a.get("resim_max") == b.get("resim_max")
    if any(r.get("exc") == "HarnessError" for r in (rl, r2)):
        chk.broken.append({"name": "end-to-end run failed in the harness (late setter)", "detail": str([r.get("msg") for r in (rl, r2)])[:300]})
    elif not same_design(fresh, r2):          # otherwise the two inputs cannot be told apart
        nontrivial += 1
        if same_design(rl, fresh):
            chk.cov["late_setter_matches_model"] = True
        elif same_design(rl, r2):
            chk.broken.append({"name": "correspondence C13: Model/ObjState.gstep (the design keeps the inputs of the last set_design) differs from GHEManager: a setter called after set_design reached the design",
                               "detail": json.dumps({"late": [rl.get("nbh"), rl.get("H")], "inputs_at_set_design": [fresh.get("nbh"), fresh.get("H")], "inputs_set_afterwards": [r2.get("nbh"), r2.get("H")]})})
        else:
            chk.violation("manager-history", {"cfg": base_cfg, "variant": "max_eft set to 39 after set_design, find_design without calling set_design again"},
                          {"design": [rl.get("nbh"), rl.get("H"), rl.get("exc")], "design_of_the_inputs_at_set_design": [fresh.get("nbh"), fresh.get("H")], "design_of_the_inputs_set_afterwards": [r2.get("nbh"), r2.get("H")]},
                          "the design depends only on the physical inputs: it is the design of the inputs at the last set_design or of the inputs set afterwards, not a mixture")
    # input files run one after the other through the command-line worker in one process: each result is that of the file run alone
    rwa = cfg("ROWWISE", months=12, loads={"kind": "balanced", "scale": 26000.0, "seed": 5},                    # with a perimeter spacing ratio
              geom_over={"property_boundary": [[0.0, 0.0], [48.0, 0.0], [58.0, 28.0], [30.0, 46.0], [0.0, 34.0]], "no_go_boundaries": [], "max_spacing": 12.0, "min_spacing": 5.0,
                         "spacing_step": 1.0, "max_rotation": 10.0, "min_rotation": -10.0, "rotate_step": 5.0, "perimeter_spacing_ratio": 0.8})
    rwb = json.loads(json.dumps(rwa))
    rwb["geometric_constraints"].pop("perimeter_spacing_ratio")                                                # the optional key left out
    nsq = cfg(months=12, design={"max_boreholes": 7, "continue_if_design_unmet": True})
    nsq2 = cfg(months=12)
    seqs = [[rwa, rwb], [nsq, nsq2]] if quick else [[rwa, rwb], [nsq, nsq2], [rwb, rwa, rwb]]
    with ThreadPoolExecutor(max_workers=len(seqs) * 2) as ex:
        fut = ex.submit(lambda: run_impl("e2e.py", {"mode": "cli_sequence", "sequences": seqs}, timeout=3000))
        alone = list(ex.map(lambda c: run_impl("e2e.py", {"mode": "cli_sequence", "sequences": [[c]]}, timeout=3000), [s_[-1] for s_ in seqs]))
        sq = fut.result()
    if isinstance(sq, dict) and "_error" in sq:
        chk.broken.append({"name": "command-line sequences failed in the harness", "detail": sq["_error"][-300:]})
    else:
        for seq, rs_, al in zip(seqs, sq, alone):
            if isinstance(al, dict) and "_error" in al:
                chk.broken.append({"name": "command-line run failed in the harness", "detail": al["_error"][-300:]})
                continue
            last, own = rs_[-1], al[0][0]
            chk.cov["evaluations"] += 1
            nontrivial += 1
            if last != own and len(chk.violations) < 5:
                chk.violation("cli-sequence", {"files_run_before_in_the_same_process": [{k: c_[k] for k in ("geometric_constraints", "design")} for c_ in seq[:-1]],
                                               "file": {k: seq[-1][k] for k in ("geometric_constraints", "design")}},
                              {"after_the_other_files": {k: v for k, v in last.items() if k != "borefield"}, "run_alone": {k: v for k, v in own.items() if k != "borefield"},
                               "coordinate_tables_equal": last.get("borefield") == own.get("borefield")},
                              "running other designs earlier in the same process does not change the design (summary values and coordinate table)")
    # one more process whose FIRST design differs from the configuration only in grout / pipe conductivity
    hist.append({"cfg": cfg(months=12, loads={"kind": "cooling", "scale": 28000.0, "seed": 9}), "order_seed": 1, "similar_first": True})
    with ThreadPoolExecutor(max_workers=NPROC) as ex:
        hr = list(ex.map(lambda h: run_impl("e2e.py", {"mode": "history", "cases": [h]}, timeout=1800), hist))
    for h, rr in zip(hist, hr):
        if h.get("similar_first") and not (isinstance(rr, dict) and "_error" in rr) and rr[0].get("ok"):
            own = e2e_runs([h["cfg"]])[0]          # the same configuration in a process of its own
            chk.cov["evaluations"] += 1
            if own.get("ok") and (own["nbh"] != rr[0]["base"]["nbh"] or own["H"] != rr[0]["base"]["H"]):
                chk.violation("manager-history", {"cfg": h["cfg"], "variant": "after_similar_design_in_a_fresh_process"},
                              {"after_a_design_with_other_grout": rr[0]["base"], "in_a_process_of_its_own": {"nbh": own["nbh"], "H": own["H"]}},
                              "the design does not depend on what was designed earlier in the same process")
    for h, rr in zip(hist, hr):
        if isinstance(rr, dict) and "_error" in rr:
            chk.broken.append({"name": "manager histories failed in the harness", "detail": rr["_error"][-300:]})
            continue
        o = rr[0]
        if not o.get("ok"):
            chk.broken.append({"name": "manager histories raised", "detail": json.dumps(o)[:400]})
            continue
        for name, d in o["diffs"].items():
            chk.cov["evaluations"] += 1
            nontrivial += 1
            if d:
                chk.violation("manager-history", {"cfg": h["cfg"], "variant": name, "order_seed": h.get("order_seed")}, {"differs_in": d, "base": o["base"], "variant": o.get("detail", {}).get(name)},
                              "bit-identical field, height, temperatures and output files for every call history")
    # ---- the machine evaluated in Coq on the same op sequences: model says every history gives the same stored record
    if getattr(chk, "model_ok", False):
        items = []
        for c in cases:
            mops = []
            for op in c["ops"]:
                mops.append(f"SetH {q(op[1])}" if op[0] == "setH" else ("Simulate Hybrid" if op[0] == "hybrid" else ("Simulate Hourly" if op[0] == "hourly" else "Size Hybrid [60; 135] 60")))
            items.append(f"([{'; '.join(mops)}], {c['_group']}%nat)")
        txt = HEADER + "Definition cases : list (list op * nat) := [\n" + ";\n".join(items) + """].
Definition g0 : ghe := {| Hcur := 100; stored := None; times_of := None |}.
Definition key (r : option results) : Q * bool * bool := match r with Some x => (r_h x, method_eqb (r_m x) Hybrid, method_eqb (r_axis x) Hybrid) | None => (0, false, false) end.
Definition same (a b : Q * bool * bool) : bool := let '(h, m, x) := a in let '(h', m', x') := b in qeqb h h' && Bool.eqb m m' && Bool.eqb x x'.
Definition firsts := map (fun k => find (fun c => Nat.eqb (snd c) k) cases) (seq 0 12).
Definition ok (c : list op * nat) : bool :=
  match nth (snd c) firsts None with Some c0 => same (key (stored (run g0 (fst c)))) (key (stored (run g0 (fst c0)))) | None => false end.
Eval vm_compute in (length cases, length (filter (fun c => negb (ok c)) cases)).
"""
        rc, out, err = chk.coq_eval("hist", txt)
        m = re.search(r"=\s*\((\d+)(?:%nat)?,\s*(\d+)(?:%nat)?\)", " ".join(out.split()))
        if rc != 0 or not m:
            chk.broken.append({"name": "correspondence C13 did not evaluate", "detail": (err or out)[-400:]})
        else:
            agree = all(len({json.dumps(st) for _, st in lst}) == 1 for lst in groups.values())
            if int(m.group(2)) or not agree:
                chk.broken.append({"name": "correspondence C13: the model says all histories agree; the implementation / model evaluation does not", "detail": f"model disagreements {m.group(2)}, implementation agrees: {agree}"})
            chk.cov["traces_validated_against_impl"] = int(m.group(1)) - int(m.group(2))
            chk.cov["correspondence_cases"] = int(m.group(1))
    chk.cov["distinct_nontrivial"] = nontrivial
    chk.cov["rule"] = ("GHE objects: one final (height, method) reached through random histories of simulate(hybrid/hourly)/set height/size, stored temperatures compared bit for bit; managers: repeat on the same manager, "
                       "rebuilt manager, permuted setter order, other nominal borehole height, another design earlier in the process, set_design twice — field, height, temperature series, search log and output files "
                       "(time stamps removed) compared bit for bit with the canonical fresh run; non-trivial = one history")
    chk.sample({"history": cases[1]["ops"]})
    chk.cov["trusted_base"] = ["the result function F(config) of a design run is not computed in Coq; its values are the implementation's fresh runs"]
    return chk.finish(assumptions=["'the same object' means an object constructed at the same nominal height: the hybrid loads are built once at construction (documented in the source)"])


def replay(payload):
    return "RERUN"      # vcheck re-runs this check with the recorded tier and seed and looks for the same violation
