"""C16 — point-in-polygon classification is the crossing number."""
import itertools, json, re
from fractions import Fraction as F
from lib import *


def orient(a, b, c):
    return (b[0] - a[0]) * (c[1] - a[1]) - (b[1] - a[1]) * (c[0] - a[0])


def onseg(a, b, p):
    return orient(a, b, p) == 0 and min(a[0], b[0]) <= p[0] <= max(a[0], b[0]) and min(a[1], b[1]) <= p[1] <= max(a[1], b[1])


def seg_inter(a, b, c, d):
    o1, o2, o3, o4 = orient(a, b, c), orient(a, b, d), orient(c, d, a), orient(c, d, b)
    if o1 != 0 and o2 != 0 and o3 != 0 and o4 != 0 and ((o1 > 0) != (o2 > 0)) and ((o3 > 0) != (o4 > 0)):
        return True
    return (o1 == 0 and onseg(a, b, c)) or (o2 == 0 and onseg(a, b, d)) or (o3 == 0 and onseg(c, d, a)) or (o4 == 0 and onseg(c, d, b))


def simple(poly):
    n = len(poly)
    if len(set(poly)) != n:
        return False
    for i in range(n):
        if orient(poly[i - 1], poly[i], poly[(i + 1) % n]) == 0:
            return False
    for i in range(n):
        for j in range(i + 1, n):
            if j == i + 1 or (i == 0 and j == n - 1):
                continue
            if seg_inter(poly[i], poly[(i + 1) % n], poly[j], poly[(j + 1) % n]):
                return False
    return True


def oracle(poly, p):
    """the crossing-number definition, exact, written independently of the model"""
    n = len(poly)
    for i in range(n):
        if onseg(poly[i - 1], poly[i], p):
            return 0
    cnt = 0
    for i in range(n):
        a, b = poly[i - 1], poly[i]
        if (a[1] > p[1]) != (b[1] > p[1]):
            xi = F(a[0]) + F(p[1] - a[1]) * F(b[0] - a[0]) / F(b[1] - a[1])
            if xi > p[0]:
                cnt += 1
    return 1 if cnt % 2 else -1


def v4(p):
    x, y = F(p[0]), F(p[1])
    return [x.numerator, x.denominator, y.numerator, y.denominator]


HEADER = """From Coq Require Import ZArith QArith List Bool.
From GHE Require Import Base.QUtil gen.Src Model.Polygon.
Import ListNotations. Open Scope Q_scope.
"""


def qpt(p):
    return f"({q(F(p[0]))}, {q(F(p[1]))})"


def run(chk):
    quick = chk.tier == "quick"
    chk.build("C16", extra=["Model/Polygon"])
    rng = chk.rng
    L = [(x, y) for x in range(4) for y in range(4)]
    P = [(F(i, 2), F(j, 2)) for i in range(-1, 8) for j in range(-1, 8)]       # 9x9 half-integer lattice incl. outside
    polys = []
    for n in ((3,) if quick else (3, 4)):
        for poly in itertools.permutations(L, n):
            if simple(poly):
                polys.append(list(poly))
    if quick:
        quads = [list(pl) for pl in itertools.permutations(L, 4) if simple(pl)]
        rng.shuffle(quads)
        polys += quads[:1500]
        # 5- and 6-gons, random, incl. non-convex
        tries = 0
        extra = []
        while len(extra) < 400 and tries < 200000:
            tries += 1
            pl = rng.sample(L, rng.choice([5, 6]))
            if simple(pl):
                extra.append(pl)
        polys += extra
    else:
        tries, extra = 0, []
        while len(extra) < 6000 and tries < 3000000:
            tries += 1
            pl = rng.sample(L, rng.choice([5, 6, 7]))
            if simple(pl):
                extra.append(pl)
        polys += extra
    # random dyadic polygons (scaled lattice polygons) with points well away from the tolerance band
    cases = [{"poly": [v4(v) for v in pl], "pts": [v4(p) for p in P], "float": True} for pl in polys]
    from concurrent.futures import ThreadPoolExecutor
    chunk = 500
    parts = [cases[i:i + chunk] for i in range(0, len(cases), chunk)]
    with ThreadPoolExecutor(max_workers=NPROC) as ex:
        rs = list(ex.map(lambda part: run_impl("geom.py", {"ppc": part}, timeout=1200), parts))
    impl = []
    for r in rs:
        if "_error" in r:
            chk.broken.append({"name": "correspondence C16 (implementation driver failed)", "detail": r["_error"]})
            return chk.finish()
        impl += r["ppc"]
    npts = len(polys) * len(P)
    chk.cov["evaluations"] += npts
    # ---- oracle: the property on the implementation (independent exact crossing number)
    dist = {-1: 0, 0: 0, 1: 0}
    nv = 0
    for pl, res in zip(polys, impl):
        for p, r in zip(P, res):
            o = oracle(pl, p)
            dist[o] += 1
            if r != o and nv < 4:
                nv += 1
                chk.violation("ppc", {"poly": pl, "point": [str(p[0]), str(p[1])]}, {"returned": r}, f"crossing-number classification {o} (-1 outside, 0 on edge, 1 inside)")
    chk.cov["input_distribution"] = {"polygons": len(polys), "points_per_polygon": len(P), "outside": dist[-1], "on_edge": dist[0], "inside": dist[1]}
    # points almost (not exactly) level with a vertex, far outside the polygon: exact answer "outside", whatever the vertex rule does with near-level points
    sub2 = rng.sample(list(range(len(polys))), min(400 if quick else 3000, len(polys)))
    near = []
    for i in sub2:
        pl = polys[i]
        pts = []
        for (vx, vy) in pl:
            for d_ in (F(1, 10000), F(-1, 10000), F(3, 10000), F(-7, 10000)):
                pts.append((F(-2), F(vy) + d_))
                pts.append((F(11, 2), F(vy) + d_))
        near.append({"poly": [v4(v) for v in pl], "pts": [v4(p) for p in pts], "float": True})
    r3 = run_impl("geom.py", {"ppc": near}, timeout=900)
    if "_error" not in r3:
        for i, res in zip(sub2, r3["ppc"]):
            chk.cov["evaluations"] += len(res)
            badp = [k for k, r in enumerate(res) if r != -1]
            if badp and nv < 6:
                nv += 1
                pt = near[sub2.index(i)]["pts"][badp[0]]
                chk.violation("ppc", {"poly": polys[i], "point": [f"{pt[0]}/{pt[1]}", f"{pt[2]}/{pt[3]}"]}, {"returned": res[badp[0]]},
                              "a point outside the bounding box of the polygon is outside (-1), also when it is almost level with a vertex")
    else:
        chk.broken.append({"name": "near-level points run failed", "detail": r3["_error"][-200:]})
    # points a few ulps (and 2e-10 relative) above / below a vertex level, at the half-integer abscissae INSIDE the polygon's x-range: the ray rule
    # must treat "almost level" as not level (exact rational oracle on the exact value of the float); abscissae where the exactly-level point
    # is on an edge are left out (the near-level point is then inside the tolerance band)
    import math as _m
    sub3 = rng.sample(list(range(len(polys))), min(300 if quick else 2500, len(polys)))
    ulp_cases, ulp_meta = [], []
    for i in sub3:
        pl = polys[i]
        pts = []
        for (vx, vy) in pl:
            fy = float(vy)
            if fy == 0.0:
                continue
            ys = [_m.nextafter(fy, _m.inf), _m.nextafter(_m.nextafter(fy, _m.inf), _m.inf), _m.nextafter(fy, -_m.inf), fy * (1 + 2e-10), fy * (1 - 2e-10)]
            for x2 in range(-1, 8):
                x = F(x2, 2)
                if oracle(pl, (x, F(vy))) == 0:
                    continue
                for y in ys:
                    pts.append((x, F(y)))
        if pts:
            ulp_cases.append({"poly": [v4(v) for v in pl], "pts": [v4(p) for p in pts], "float": True})
            ulp_meta.append((pl, pts))
    r4 = run_impl("geom.py", {"ppc": ulp_cases}, timeout=900) if ulp_cases else {"ppc": []}
    if "_error" not in r4:
        for (pl, pts), res in zip(ulp_meta, r4["ppc"]):
            chk.cov["evaluations"] += len(res)
            for pnt, r in zip(pts, res):
                o = oracle(pl, pnt)
                if r != o and nv < 8:
                    nv += 1
                    chk.violation("ppc", {"poly": pl, "point": [str(pnt[0]), str(pnt[1])], "point_float": [float(pnt[0]), float(pnt[1]).hex()]}, {"returned": r},
                                  f"crossing-number classification {o} for a point a few ulps off a vertex level (-1 outside, 0 on edge, 1 inside)")
    else:
        chk.broken.append({"name": "ulp-level points run failed", "detail": r4["_error"][-200:]})
    # vertex order / orientation independence on the implementation
    sub = rng.sample(list(range(len(polys))), min(300, len(polys)))
    rot = [{"poly": [v4(v) for v in (polys[i][1:] + polys[i][:1])], "pts": [v4(p) for p in P], "float": True} for i in sub]
    rev = [{"poly": [v4(v) for v in reversed(polys[i])], "pts": [v4(p) for p in P], "float": True} for i in sub]
    r2 = run_impl("geom.py", {"ppc": rot + rev}, timeout=600)
    if "_error" not in r2:
        for k, i in enumerate(sub):
            if r2["ppc"][k] != impl[i] or r2["ppc"][len(sub) + k] != impl[i]:
                if nv < 6:
                    nv += 1
                    chk.violation("ppc-order", {"poly": polys[i]}, {"rotated": r2["ppc"][k], "reversed": r2["ppc"][len(sub) + k], "original": impl[i]},
                                  "same classification for every start vertex and orientation")
        chk.cov["evaluations"] += 2 * len(sub) * len(P)
    # ---- correspondence: the model evaluated inside Coq on the same polygons and points
    if getattr(chk, "model_ok", False):
        per = 150
        files = []
        pts_lit = "[" + "; ".join(qpt(p) for p in P) + "]"
        for j in range(0, len(polys), per):
            items = []
            for pl, res in zip(polys[j:j + per], impl[j:j + per]):
                items.append("([" + "; ".join(qpt(v) for v in pl) + "], [" + "; ".join(z(r) if isinstance(r, int) else "99" for r in res) + "]%Z)")
            txt = HEADER + f"Definition pts : list (Q * Q) := {pts_lit}.\nDefinition cases : list (list (Q * Q) * list Z) := [\n" + ";\n".join(items) + """].
Definition bad (c : list (Q * Q) * list Z) : nat := length (filter (fun pr => negb (Z.eqb (ppc (fst c) (fst pr)) (snd pr))) (combine pts (snd c))).
Eval vm_compute in (length cases, fold_left Nat.add (map bad cases) 0%nat, map fst (filter (fun ic => negb (Nat.eqb (bad (snd ic)) 0)) (combine (seq 0 (length cases)) cases))).
"""
            files.append((f"ppc{j // per}", txt))
        tot = badn = 0
        for (name, rc, out, err) in chk.coq_eval_many(files, timeout=900):
            m = re.search(r"=\s*\((\d+)%nat,\s*(\d+)%nat,", " ".join(out.split()))
            if rc != 0 or not m:
                chk.broken.append({"name": f"correspondence C16/{name} did not evaluate", "detail": (err or out)[-400:]})
                continue
            tot += int(m.group(1)) * len(P)
            badn += int(m.group(2))
        if badn:
            chk.broken.append({"name": "correspondence C16: Model/Polygon.ppc differs from shape.point_polygon_check", "detail": f"{badn} of {tot} point classifications"})
        chk.cov["traces_validated_against_impl"] = tot - badn
        chk.cov["correspondence_cases"] = tot
    chk.cov["distinct_nontrivial"] = dist[0] + dist[1]
    chk.cov["exhaustive"] = not quick
    chk.cov["rule"] = ("simple polygons on the 4x4 integer lattice (all triangles; all quadrilaterals in thorough, 1500 sampled in quick; random 5-7-gons, non-convex included) "
                       "x the 9x9 half-integer lattice from -0.5 to 3.5 (level with vertices, collinear with edges, on edges, outside the bounding box); there the smallest non-zero "
                       "focal excess is 0.059 >> the 0.001 tolerance and float arithmetic is exact; non-trivial = points classified inside or on-edge by the independent oracle")
    chk.sample({"poly": polys[0], "points": [[str(p[0]), str(p[1])] for p in P[:5]], "implementation": impl[0][:5]})
    chk.cov["trusted_base"] = ["the on-edge (focal-sum) loop is modelled by the exact on-segment test; inputs are chosen so that both agree (gap 0.059 vs tolerance 0.001)",
                               "independent exact crossing-number oracle in tools/checks/c16.py"]
    return chk.finish(assumptions=["the tolerance band itself (points within 0.001 focal excess of an edge but not on it) is not exercised exactly: sqrt is not rational"])


def replay(payload):
    from lib import Check
    chk = Check("C16", "quick", payload.get("seed", 0))
    i = payload["input"]
    pl = [tuple(v) for v in i["poly"]]
    if "point" in i:
        p = (F(i["point"][0]), F(i["point"][1]))
        r = run_impl("geom.py", {"ppc": [{"poly": [v4(v) for v in pl], "pts": [v4(p)], "float": True}]})
        got = r["ppc"][0][0]
        if got != oracle(pl, p):
            print(f"VIOLATION property=C16 replay={payload.get('_path', 'replay')}")
            return 1
    return 0
