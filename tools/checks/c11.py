"""C11 — the combined g-function is well formed and interpolation-consistent."""
import json, math, re
from lib import *

HEADER = """From Coq Require Import ZArith QArith List Bool.
From GHE Require Import Base.QUtil gen.Src Model.GJoin.
Import ListNotations. Open Scope Q_scope.
"""


def gen_combine(rng, tier):
    cs = []
    for k in range(120 if tier == "quick" else 1200):
        nl = rng.randrange(2, 12)
        t0 = rng.choice([-8.5, -8.5, -9.25, -7.0])
        t_lts = [t0]
        for _ in range(nl - 1):
            t_lts.append(round(t_lts[-1] + rng.choice([0.25, 0.5, 0.75, 1.125]), 4))
        ns = rng.randrange(1, 14)
        start = t0 - rng.choice([0.5, 2.0, 6.0]) - (0.0 if k % 7 else -3.0)
        t_sts = [round(start + j * rng.choice([0.25, 0.5]) if j == 0 else 0, 4) for j in range(1)]
        for _ in range(ns - 1):
            t_sts.append(round(t_sts[-1] + rng.choice([0.125, 0.25, 0.5, 1.0]), 4))
        if k % 9 == 0:           # make a short-time point coincide with the first long-time point
            j = rng.randrange(0, ns)
            shift = t0 - t_sts[j]
            t_sts = [round(v + shift, 4) for v in t_sts]
        g_lts = [round(rng.uniform(1, 40), 3) for _ in t_lts]
        g_sts = [round(rng.uniform(-3, 8), 3) for _ in t_sts]
        cs.append({"t_lts": t_lts, "g_lts": g_lts, "t_sts": t_sts, "g_sts": g_sts})
    return cs


def run(chk):
    quick = chk.tier == "quick"
    chk.build("C11", extra=["Model/GJoin", "Model/GfPlan"])
    rng = chk.rng
    nontrivial = 0
    # ---------------- combine_sts_lts: real static method vs the regenerated function vs the reference description
    cc = gen_combine(rng, chk.tier)
    r = run_impl("gf_drv.py", {"mode": "combine", "cases": cc}, timeout=600)
    if isinstance(r, dict) and "_error" in r:
        chk.broken.append({"name": "correspondence C11 (implementation driver failed)", "detail": r["_error"][-300:]})
        return chk.finish()
    chk.cov["evaluations"] += len(cc)
    items = []
    for c, o in zip(cc, r):
        equal = any(v == c["t_lts"][0] for v in c["t_sts"])
        if o["ok"]:
            x = o["x"]
            if not equal:
                nontrivial += 1
                if any(b <= a for a, b in zip(x, x[1:])):
                    chk.violation("combine", c, {"x": x}, "combined axis strictly increasing")
                below = [v for v in c["t_sts"] if v < c["t_lts"][0]]
                if x != below + c["t_lts"] or o["y"] != c["g_sts"][:len(below)] + c["g_lts"]:
                    chk.violation("combine", c, {"x": x, "y": o["y"]}, "short-time points strictly below the first long-time point, then the whole long-time curve, values carried unchanged")
            exp = f"Ok ({qlist(o['x'])}, {qlist(o['y'])})"
        else:
            exp = "Err IndexError" if o["exc"] == "IndexError" else "Err ValueError"
        items.append(f"({qlist(c['t_lts'])}, {qlist(c['g_lts'])}, {qlist(c['t_sts'])}, {qlist(c['g_sts'])}, {exp}, {coq_bool(equal)})")
    if getattr(chk, "model_ok", False):
        txt = HEADER + "Definition cases : list (list Q * list Q * list Q * list Q * result (list Q * list Q) * bool) := [\n" + ";\n".join(items) + """].
Definition tol : Q := 1 # 1000000000000.
Definition ok (c : list Q * list Q * list Q * list Q * result (list Q * list Q) * bool) : bool :=
  let '(tl, gl, tsx, gs, exp, equal) := c in
  match combine_sts_lts tl gl tsx gs, exp with
  | Ok a, Ok b => pair_close tol a b && (equal || pair_close tol (combine_spec tl gl tsx gs) b)
  | Err IndexError, Err IndexError => true          (* running off the end of the short-time list *)
  | Err _, Err _ => false
  | _, _ => false
  end.
Eval vm_compute in (length cases, length (filter (fun c => negb (ok c)) cases)).
"""
        rc, out, err = chk.coq_eval("combine", txt, timeout=600)
        m = re.search(r"=\s*\((\d+)(?:%nat)?,\s*(\d+)(?:%nat)?\)", " ".join(out.split()))
        if rc != 0 or not m:
            chk.broken.append({"name": "correspondence C11/combine did not evaluate", "detail": (err or out)[-400:]})
        else:
            if int(m.group(2)):
                chk.broken.append({"name": "translation validation / correspondence C11: combine_sts_lts (regenerated) or combine_spec differs from the real method", "detail": f"{m.group(2)} of {m.group(1)}"})
            chk.cov["traces_validated_against_impl"] = int(m.group(1)) - int(m.group(2))
            chk.cov["correspondence_cases"] = int(m.group(1))
    # ---------------- interpolation at stored heights, radius correction
    ic = []
    for k in range(10 if quick else 60):
        nh = 1 + k % 5
        hs = rng.sample([40.0, 60.0, 75.5, 97.5, 110.0, 135.0, 200.0, 384.0], nh)
        if k % 2 == 0:
            hs = sorted(hs)                 # the other half keeps the family in the (arbitrary) order it was stored in
        lt = [-8.5, -7.8, -7.2, -6.5, -5.9, -5.2, -4.5, -3.963, -3.27, -2.864]
        curves = [[round(2 + 0.8 * i + 0.01 * h + rng.uniform(0, 0.3), 4) for i in range(len(lt))] for h in hs]
        ic.append({"B": rng.choice([5.0, 6.1, 7.5]), "rb": 0.075, "heights": hs, "curves": curves, "log_time": lt,
                   "radii": [[0.075, 0.075], [0.05, 0.075], [0.075, 0.11], [0.05, 0.11]]})
    r2 = run_impl("gf_drv.py", {"mode": "interp", "cases": ic}, timeout=600)
    if not (isinstance(r2, dict) and "_error" in r2):
        for c, o in zip(ic, r2):
            chk.cov["evaluations"] += 1
            if not o.get("ok"):
                if len(c["heights"]) >= 1:
                    chk.violation("interp", c, {"exception": o.get("exc"), "msg": o.get("msg")}, "interpolating the long-time family at a stored height succeeds")
                continue
            for a, h, cv in zip(o["at_stored"], c["heights"], c["curves"]):
                nontrivial += 1
                if max(abs(x - y) for x, y in zip(a["g"], cv)) > 1e-9 or abs(a["h_eq"] - h) > 1e-6:
                    chk.violation("interp", c, {"height": h, "h_eq": a["h_eq"], "max_dev": max(abs(x - y) for x, y in zip(a["g"], cv))},
                                  "interpolating at a stored height returns the stored curve")
                    break
            g0 = c["curves"][0]
            cor = {(x["ra"], x["rb"]): x["g"] for x in o["corr"]}
            if max(abs(a - b) for a, b in zip(cor[(0.075, 0.075)], g0)) > 0:
                chk.violation("interp", c, {"corrected": cor[(0.075, 0.075)][:3]}, "the radius correction is the identity for equal radii")
            two = [v - math.log(0.11 / 0.075) for v in cor[(0.05, 0.075)]]
            if max(abs(a - b) for a, b in zip(two, cor[(0.05, 0.11)])) > 1e-12:
                chk.violation("interp", c, {"two_steps": two[:3], "one_step": cor[(0.05, 0.11)][:3]}, "the radius correction is additive in ln(radius ratio)")
            nontrivial += 2
    # ---------------- decision prefix of g_function_interpolation: real method (scipy constructors spied) vs Model/GfPlan.gf_plan (regenerated parts)
    pool = [35.0, 40.0, 60.0, 75.5, 97.5, 110.0, 135.0, 200.0, 384.0]
    pc = []
    for k in range(160 if quick else 1200):
        nh = 1 + k % 7
        hs = rng.sample(pool, nh)
        if k % 3 == 0:
            hs = sorted(hs)
        if k % 11 == 0 and nh >= 2:
            hs[1] = hs[0] + 5e-7                    # two stored heights closer than the snapping distance
        kind = ["default", "default", "default", "linear", "quadratic", "cubic", "lagrange", "nearest"][rng.randrange(8)]
        base = rng.choice(hs + [min(hs), max(hs)])
        h = base + rng.choice([0.0, 0.0, 5e-7, -5e-7, 2e-6, -2e-6, 5e-4, -5e-4, 2e-3, -2e-3, 0.3, -0.3, 17.0, -17.0, 250.0])
        if h <= 1.0:
            h = base
        pc.append({"B": rng.choice([5.0, 6.1, 7.5]), "heights": hs, "h": h, "kind": kind, "stored": h in hs})
    # directed: every family size 1..7 asked for each of its stored heights with the default kind
    for nh in range(1, 8):
        hs = pool[:nh] if nh % 2 else list(reversed(pool[:nh]))
        pc += [{"B": 5.0, "heights": hs, "h": h, "kind": "default", "stored": True} for h in hs]
    rp = run_impl("gf_drv.py", {"mode": "plan", "cases": pc}, timeout=600)
    if isinstance(rp, dict) and "_error" in rp:
        chk.broken.append({"name": "correspondence C11/plan (implementation driver failed)", "detail": rp["_error"][-300:]})
    else:
        need = {"linear": 2, "quadratic": 3, "cubic": 4, "lagrange": 2}
        items, dist = [], {}
        for c, o in zip(pc, rp):
            chk.cov["evaluations"] += 1
            h0 = float.fromhex(o["h0"]) if "h0" in o else None
            if h0 is None:
                chk.broken.append({"name": "correspondence C11/plan: driver error", "detail": json.dumps(o)[:300]})
                continue
            exact = any(h0 == x for x in c["heights"])
            if o.get("ret"):
                heq = float.fromhex(o["h_eq"])
                if o["single"]:
                    exp, tag = f"PSingle {q(heq)}", "single"
                else:
                    cl = o["calls"][0]
                    exp, tag = f'PInterp "{cl["kind"]}" {coq_bool(cl["fill"] == "extrapolate")} {q(heq)}', cl["kind"]
                    if cl["kind"] in need and need[cl["kind"]] > len(c["heights"]):
                        chk.violation("plan", c, {"kind": cl["kind"], "stored": len(c["heights"])}, "the interpolation kind handed to scipy needs no more curves than are stored")
                    if sorted(cl["x"]) != sorted(c["heights"]):
                        chk.violation("plan", c, {"knots": cl["x"]}, "the interpolation is built on exactly the stored heights")
                    if cl["fill"] is not None and (o["warned"] > 0) != (cl["fill"] == "extrapolate"):
                        chk.violation("plan", c, {"fill_value": cl["fill"], "warnings": o["warned"]}, "extrapolation is used exactly when it is announced")
                if exact and c["kind"] == "default":
                    nontrivial += 1
                    if (not o["single"] and o["calls"][0]["fill"] != "") or abs(heq - h0) >= 1e-6 or heq not in c["heights"]:
                        chk.violation("plan", c, {"h_eq": heq, "result": o}, "a stored height is interpolated (not extrapolated) at that height")
                    if o["single"] and o["g"] != [1.0 + 0.01 * c["heights"][0], 2.0 + 0.01 * c["heights"][0]]:
                        chk.violation("plan", c, {"g": o["g"]}, "a single-curve family asked for its stored height returns the stored curve")
            else:
                exp, tag = {"ValueError": "PValueError", "KeyError": "PKeyError"}.get(o["exc"], "PKeyError (* " + o["exc"] + " *)"), o["exc"]
                if o["exc"] not in ("ValueError", "KeyError"):
                    chk.broken.append({"name": "correspondence C11/plan: unexpected exception class", "detail": json.dumps([c, o])[:300]})
                if exact and c["kind"] == "default":
                    chk.violation("plan", c, {"exception": o["exc"]}, "interpolating the long-time family at a stored height succeeds")
            dist[tag] = dist.get(tag, 0) + 1
            items.append(f'({qlist(c["heights"])}, {q(h0)}, "{c["kind"]}"%string, {exp}, {coq_bool(c["kind"] == "lagrange")})')
        chk.cov.setdefault("input_distribution", {})["plan_outcomes"] = dist
        if getattr(chk, "model_ok", False) and items:
            txt = HEADER.replace("Model.GJoin.", "Model.GJoin Model.GfPlan.").replace("List Bool.", "List Bool String.") + "Open Scope string_scope. Open Scope Q_scope.\n" + \
                "Definition cases : list (list Q * Q * string * plan * bool) := [\n" + ";\n".join(items) + """].
Definition plan_eqb (lag : bool) (a b : plan) : bool :=
  match a, b with
  | PSingle x, PSingle y => Qeq_bool x y
  | PInterp k e x, PInterp k' e' y => String.eqb k k' && (lag || Bool.eqb e e') && Qeq_bool x y
  | PValueError, PValueError => true
  | PKeyError, PKeyError => true
  | _, _ => false
  end.
Definition ok (c : list Q * Q * string * plan * bool) : bool := let '(hs, h, kind, exp, lag) := c in plan_eqb lag (gf_plan hs h kind) exp.
Eval vm_compute in (List.length cases, List.length (filter (fun c => negb (ok c)) cases), find (fun c => negb (ok c)) cases).
"""
            rc, out, err = chk.coq_eval("plan", txt, timeout=600)
            m = re.search(r"=\s*\((\d+)(?:%nat)?,\s*(\d+)(?:%nat)?,", " ".join(out.split()))
            if rc != 0 or not m:
                chk.broken.append({"name": "correspondence C11/plan did not evaluate", "detail": (err or out)[-400:]})
            else:
                if int(m.group(2)):
                    chk.broken.append({"name": "correspondence C11/plan: Model/GfPlan.gf_plan (regenerated statements and tables) differs from the real g_function_interpolation",
                                       "detail": f"{m.group(2)} of {m.group(1)}; first: " + " ".join(out.split())[-500:]})
                chk.cov["traces_validated_against_impl"] = chk.cov.get("traces_validated_against_impl", 0) + int(m.group(1)) - int(m.group(2))
                chk.cov["correspondence_cases"] = chk.cov.get("correspondence_cases", 0) + int(m.group(1))
    # ---------------- real GHE objects
    gc = [{"nx": 2, "ny": 2, "months": 12, "H": 100.0, "heights": [60.0, 97.5, 135.0], "H_eval": h, "loads": {"kind": "balanced", "scale": 5000.0, "seed": 1},
           "pipe": p} for h, p in ((97.5, "SINGLEUTUBE"), (60.0, "COAXIAL"), (120.0, "DOUBLEUTUBEPARALLEL"))][: (2 if quick else 3)]
    # the long-time table computed for another borehole radius than the simulated one (the correction is then not the identity)
    gc += [{"nx": 2, "ny": 2, "months": 12, "H": 100.0, "heights": [60.0, 97.5, 135.0], "H_eval": h, "loads": {"kind": "balanced", "scale": 5000.0, "seed": 1},
            "pipe": "SINGLEUTUBE", "rb": rs, "rb_table": rt} for h, rs, rt in ((97.5, 0.06, 0.075), (97.5, 0.0755, 0.075), (110.0, 0.09, 0.07))][: (2 if quick else 3)]
    # ... and an object whose g-function was already requested once while its borehole had yet another radius
    gc += [{"nx": 2, "ny": 2, "months": 12, "H": 100.0, "heights": [60.0, 97.5, 135.0], "H_eval": 97.5, "loads": {"kind": "balanced", "scale": 5000.0, "seed": 1},
            "pipe": "SINGLEUTUBE", "rb": 0.065, "rb_table": 0.075, "first_rb": 0.09}]
    # short boreholes / other diffusivities, BUILT at the evaluated height: t_s = H^2/(9 alpha) is small, the short-time response then runs
    # past the first long-time point (ln(t/ts) = -8.5) and the join has to cut it there
    gc += [{"nx": 1, "ny": 2, "months": 12, "H": h, "heights": [35.0, 60.0, 97.5], "H_eval": h, "k": k, "loads": {"kind": "balanced", "scale": 3000.0, "seed": 1}, "pipe": "SINGLEUTUBE", "hmin": 30.0}
           for h, k in ([(40.0, 2.0), (75.0, 2.0), (97.5, 3.5)] if quick else [(40.0, 2.0), (60.0, 2.0), (75.0, 2.0), (80.0, 2.0), (97.5, 3.5), (60.0, 1.2), (35.0, 3.5)])]
    from concurrent.futures import ThreadPoolExecutor
    with ThreadPoolExecutor(max_workers=NPROC) as ex:
        r3 = list(ex.map(lambda c: run_impl("gf_drv.py", {"mode": "ghe", "cases": [c]}, timeout=900), gc))
    for c, rr in zip(gc, r3):
        if isinstance(rr, dict) and "_error" in rr:
            chk.broken.append({"name": "real g-function run failed in the harness", "detail": rr["_error"][-300:]})
            continue
        o = rr[0]
        chk.cov["evaluations"] += 1
        if not o.get("ok"):
            chk.broken.append({"name": "real g-function run raised", "detail": json.dumps(o)[:300]})
            continue
        x, y = o["x"], o["y"]
        nontrivial += 1
        if any(b <= a for a, b in zip(x, x[1:])):
            chk.violation("ghe-gfunction", c, {"x": x}, "the g-function used for simulation has a strictly increasing ln(t/ts) axis")
        nl = len(o["lts_t"])
        # documented correction (Eskilson): g(r_b*) = g(r_b) - ln(r_b* / r_b), r_b the table's radius, r_b* the simulated borehole's
        doc = [v - math.log(o["rb_sim"] / o["rb_table"]) for v in o["lts_raw"]]
        nontrivial += 1
        if max(abs(a - b) for a, b in zip(y[-nl:], doc)) > 1e-9:
            chk.violation("ghe-gfunction", c, {"tail_y": y[-nl:][:4], "documented": doc[:4], "rb_table": o["rb_table"], "rb_simulated": o["rb_sim"]},
                          "the long-time points carry the radius-corrected long-time values: g - ln(r_b*/r_b)")
        if x[-nl:] != o["lts_t"] or max(abs(a - b) for a, b in zip(y[-nl:], o["lts_corr"])) > 1e-12:
            chk.violation("ghe-gfunction", c, {"tail_x": x[-nl:][:4]}, "the long-time points carry the radius-corrected long-time values")
        ns = len(x) - nl
        if x[:ns] != o["sts_t"][:ns] or y[:ns] != o["sts_g"][:ns] or any(v >= o["lts_t"][0] for v in x[:ns]):
            chk.violation("ghe-gfunction", c, {"head_x": x[:4]}, "the short-time values are used only below the first long-time point")
        if c["H_eval"] in o["stored_heights"]:
            pass
    # ---------------- one object, family recomputed for other height brackets after it was used (what a re-sized or re-bracketed study does)
    rb_cases = [{"nx": 2, "ny": 2, "months": 12, "H": 100.0, "loads": {"kind": "balanced", "scale": 5000.0, "seed": 1}, "pipe": "SINGLEUTUBE",
                 "brackets": [[60.0, 135.0], [90.0, 130.0], [100.0, 200.0]]}]
    if not quick:
        rb_cases.append({"nx": 1, "ny": 2, "months": 12, "H": 80.0, "loads": {"kind": "balanced", "scale": 3000.0, "seed": 1}, "pipe": "COAXIAL",
                         "brackets": [[40.0, 90.0], [40.0, 90.0], [70.0, 150.0]]})
    with ThreadPoolExecutor(max_workers=NPROC) as ex:
        r5 = list(ex.map(lambda c: run_impl("gf_drv.py", {"mode": "rebracket", "cases": [c]}, timeout=900), rb_cases))
    for c, rr in zip(rb_cases, r5):
        if isinstance(rr, dict) and "_error" in rr:
            chk.broken.append({"name": "re-bracketed family run failed in the harness", "detail": rr["_error"][-300:]})
            continue
        o = rr[0]
        chk.cov["evaluations"] += 1
        if not o.get("ok"):
            chk.broken.append({"name": "re-bracketed family run raised", "detail": json.dumps(o)[:300]})
            continue
        for st in o["stages"]:
            for a in st["at"]:
                nontrivial += 1
                if not a["ok"]:
                    chk.violation("rebracket", c, {"bracket": st["bracket"], "height": a["h"], "exception": a["exc"], "msg": a.get("msg")},
                                  "interpolating the long-time family at a stored height succeeds (family recomputed on a used object)")
                    break
                if a["dev"] > 1e-9 or not a["increasing"]:
                    chk.violation("rebracket", c, {"bracket": st["bracket"], "height": a["h"], "max_dev": a["dev"]},
                                  "at a stored height the simulated curve carries the stored, radius-corrected long-time values (family recomputed on a used object)")
                    break
    # ---------------- analytical finite-line-source anchor (validated by computation only)
    fl = [{"nx": 1, "ny": 1, "B": 5.0, "H": 100.0, "D": 2.0, "rb": 0.075, "stride": 4}, {"nx": 2, "ny": 3, "B": 5.0, "H": 150.0, "D": 4.0, "rb": 0.06, "stride": 6},
          {"nx": 1, "ny": 2, "B": 5.0, "H": 30.0, "D": 2.0, "rb": 0.075, "stride": 4},          # a short borehole: H / r_b = 400
          {"nx": 1, "ny": 1, "B": 5.0, "H": 90.0, "D": 0.0, "rb": 0.075, "stride": 4}, {"nx": 2, "ny": 2, "B": 5.0, "H": 70.0, "D": 0.0, "rb": 0.07, "stride": 6}]   # heads at the surface
    if not quick:
        fl += [{"nx": 3, "ny": 3, "B": 6.0, "H": 80.0, "D": 1.0, "rb": 0.1, "stride": 5}, {"nx": 1, "ny": 1, "B": 5.0, "H": 300.0, "D": 3.0, "rb": 0.065, "stride": 3}]
    with ThreadPoolExecutor(max_workers=NPROC) as ex:
        r4 = list(ex.map(lambda c: run_impl("gf_drv.py", {"mode": "fls", "cases": [c]}, timeout=1500), fl))
    for c, rr in zip(fl, r4):
        if isinstance(rr, dict) and "_error" in rr:
            chk.broken.append({"name": "FLS anchor failed in the harness", "detail": rr["_error"][-300:]})
            continue
        o = rr[0]
        chk.cov["evaluations"] += 1
        if not o.get("ok"):
            chk.broken.append({"name": "FLS anchor raised", "detail": json.dumps(o)[:300]})
            continue
        dev = max(abs(a - b) for a, b in zip(o["uhtr"], o["fls"]))
        lim = 1e-6 if o["n"] == 1 else 1e-4
        nontrivial += 1
        if dev > lim:
            chk.violation("fls", c, {"max_abs_deviation": dev}, f"uniform-heat-rate long-time curve equals the analytical finite-line-source superposition within {lim}")
        if "uhtr_family" in o:
            dev2 = max(abs(a - b) for a, b in zip(o["uhtr_family"], o["fls"]))
            nontrivial += 1
            if dev2 > lim:
                chk.violation("fls", c, {"max_abs_deviation": dev2, "first_values": o["uhtr_family"][:3], "finite_line_source": o["fls"][:3]},
                              f"the stored long-time family (calc_g_func_for_multiple_lengths, uniform heat rate) equals the finite-line-source superposition within {lim}")
        if "mift" in o:
            rel = max(abs(a / b - 1) for a, b in zip(o["mift"], o["fls"]))
            if rel > 0.2:
                chk.violation("fls", c, {"max_relative": rel}, "the default mixed-inlet-temperature curve of a single borehole stays within 20 % of the finite line source")
    chk.cov["distinct_nontrivial"] = nontrivial
    chk.cov["rule"] = ("combine_sts_lts on generated axes (with and without a short-time point equal to the first long-time point, overlapping and disjoint), GFunction objects with 1-5 stored heights, "
                       "real GHE g-functions at stored and intermediate heights, UHTR/MIFT curves vs an independent scipy.quad finite-line-source; non-trivial = one property fact checked")
    chk.sample({"combine_case": cc[0]})
    chk.cov["trusted_base"] = ["ln is abstract in the correction theorems (two laws of ln are premises); scipy interp1d reproducing its knots is observed, not proved",
                               "the FLS clause (1e-4 / 1e-6 / 20 %) compares pygfunction with an independent quadrature: computed only, no theorem"]
    return chk.finish()


def replay(payload):
    return "RERUN"      # vcheck re-runs this check with the recorded tier and seed and looks for the same violation
