"""C19 — output tables label time correctly and echo inputs and selected field."""
import csv, datetime, json, math, os, re, sys
from fractions import Fraction
from lib import *
from configs import cfg

HEADER = """From Coq Require Import ZArith QArith List Bool.
From GHE Require Import Base.QUtil gen.Src Model.OutputTime.
Import ListNotations. Open Scope Q_scope.
"""


def parse_counts(out):
    m = re.search(r"=\s*\((\d+)%nat,\s*(\d+)%nat,\s*(\[.*\])\)", " ".join(out.split()))
    if not m:
        return None
    return int(m.group(1)), int(m.group(2)), m.group(3)


def oracle_labels(chk, conv):
    """datetime arithmetic on a non-leap year"""
    base = datetime.datetime(2019, 1, 1)
    bad = []
    for h, lab in enumerate(conv):
        t = base + datetime.timedelta(hours=h)
        want = (t.month, t.day, t.hour + 1)
        got = tuple(Fraction(*v) for v in lab)
        if got != want:
            bad.append((h, [str(g) for g in got], want))
    return bad


def run(chk):
    quick = chk.tier == "quick"
    built = chk.build("C19", extra=["Model/OutputTime"])
    rng = chk.rng
    # ------------------------------------------------ inputs
    hours = list(range(8760))
    cum = [0]
    for d in [31, 28, 31, 30, 31, 30, 31, 31, 30, 31, 30, 31]:
        cum.append(cum[-1] + 24 * d)
    pts = set()
    years = 3 if quick else 30
    for y in range(years):
        for c in cum[1:]:
            for k in range(-4, 5):
                pts.add(Fraction(2 * (y * 8760 + c) + k, 2))
    stride = 37 if quick else 5
    for k in range(0, 2 * 8760 * (2 if quick else 4), stride):
        pts.add(Fraction(k, 2))
    for _ in range(300 if quick else 3000):
        pts.add(Fraction(rng.randrange(0, 30 * 8760 * 1000), rng.choice([1, 3, 7, 1000, 997])))
    pts = sorted(p for p in pts if p >= 0)
    fpts = [float(p) for p in pts]
    loads = [round(rng.uniform(-5e4, 5e4), 3) for _ in range(8760)]
    coords = [[rng.uniform(0, 100), rng.uniform(0, 100)] for _ in range(37)]
    gx = sorted(rng.uniform(-15, 5) for _ in range(40))
    gfunc = {"x": gx, "y": [rng.uniform(0, 40) for _ in gx], "ybhw": [rng.uniform(0, 40) for _ in gx]}
    res = run_impl("c19.py", {"hours": hours, "h2m_points": [[p.numerator, p.denominator] for p in pts],
                              "h2m_float_points": fpts, "loads": loads, "coords": coords, "gfunc": gfunc})
    if "_error" in res:
        chk.broken.append({"name": "correspondence C19 (implementation driver failed)", "detail": res["_error"]})
        return chk.finish()
    conv, h2m = res["convert"], res["h2m_exact"]
    chk.cov["evaluations"] += len(conv) + len(h2m)

    # ------------------------------------------------ correspondence inside Coq
    if getattr(chk, "model_ok", False):
        files = []
        n = 4
        per = (len(conv) + n - 1) // n
        for i in range(n):
            part = list(enumerate(conv))[i * per:(i + 1) * per]
            items = "; ".join(f"({z(h)}%Z, ({q(Fraction(*l[0]))}, {q(Fraction(*l[1]))}, {q(Fraction(*l[2]))}))" for h, l in part)
            txt = HEADER + f"""Definition cases : list (Z * (Q * Q * Q)) := [{items}].
Definition ok (c : Z * (Q*Q*Q)) : bool := let '(h, (m, d, hr)) := c in let '(m', d', hr') := ghe_time_convert (inject_Z h) in
  qeqb m m' && qeqb d d' && qeqb hr hr'.
Definition bad := filter (fun c => negb (ok c)) cases.
Eval vm_compute in (length cases, length bad, map fst (firstn 3 bad)).
"""
            files.append((f"conv{i}", txt))
        per = 400
        for i in range(0, len(pts), per):
            part = list(zip(pts, h2m))[i:i + per]
            items = "; ".join(f"({q(p)}, {q(Fraction(*v))})" for p, v in part)
            txt = HEADER + f"""Definition cases : list (Q * Q) := [{items}].
Definition ok (c : Q * Q) : bool := let '(h, v) := c in qeqb (hours_to_month h) v && qeqb (h2m_spec h) v.
Definition bad := filter (fun c => negb (ok c)) cases.
Eval vm_compute in (length cases, length bad, map fst (firstn 3 bad)).
"""
            files.append((f"h2m{i // per}", txt))
        # the regenerated row builders against the real tables: all 8760 hourly rows are built inside Coq, every 29th (and the last) compared
        lr_, br_ = res["loading_rows"], res["bore_rows"]
        ks = sorted(set(list(range(0, len(loads), 29)) + [len(loads) - 1]))
        samp = "; ".join(f"({k}%nat, {qlist(lr_[1 + k])})" for k in ks if 1 + k < len(lr_))
        gr_ = res.get("g_rows")
        gcmp = "true" if gr_ is None else (f"list_eqb (list_eqb qeqb) (g_table_rows {qlist(gfunc['x'])} {qlist(gfunc['y'])} {qlist(gfunc['ybhw'])}) [" + "; ".join(qlist(r) for r in gr_[1:]) + "]")
        files.append(("tables", HEADER + "From Coq Require Import String.\n" + f"""Definition loads : list Q := {qlist(loads)}.
Definition rows := hourly_table_rows loads.
Definition samples : list (nat * list Q) := [{samp}].
Definition ok (c : nat * list Q) : bool := let '(k, r) := c in list_eqb qeqb (nth k rows []) r.
Definition coords : list (Q * Q) := [{"; ".join(f"({q(c[0])}, {q(c[1])})" for c in coords)}].
Definition brows : list (list Q) := [{"; ".join(qlist(r) for r in br_[1:])}].
Definition hdr_ok : bool := list_eqb String.eqb hourly_table_header [{"; ".join('"' + x + '"%string' for x in lr_[0])}]
                         && list_eqb String.eqb bore_table_header [{"; ".join('"' + x + '"%string' for x in br_[0])}].
Definition grows_ok : bool := {gcmp}.
Definition bad := filter (fun c => negb (ok c)) samples.
Eval vm_compute in ((List.length samples + 4)%nat, ((if grows_ok then 0 else 1) + (List.length bad + (if Nat.eqb (List.length rows) (Z.to_nat {len(lr_) - 1}) then 0 else 1)
   + (if list_eqb (list_eqb qeqb) (bore_table_rows coords) brows then 0 else 1) + (if hdr_ok then 0 else 1)))%nat, map (fun c => Z.of_nat (fst c)) (firstn 3 bad)).
"""))
        tot = badn = 0
        for name, rc, out, err in chk.coq_eval_many(files):
            pc = parse_counts(out)
            if rc != 0 or pc is None:
                chk.broken.append({"name": f"correspondence C19/{name} did not evaluate", "detail": (err or out)[-400:]})
                continue
            tot += pc[0]
            badn += pc[1]
            if pc[1]:
                chk.broken.append({"name": f"correspondence C19/{name}: model and implementation differ",
                                   "detail": f"{pc[1]} of {pc[0]} cases, first at {pc[2]}"})
        chk.cov["traces_validated_against_impl"] += tot - badn
        chk.cov["correspondence_cases"] = tot
    # ------------------------------------------------ oracle on the implementation
    bad = oracle_labels(chk, conv)
    for h, got, want in bad[:3]:
        chk.violation("time-label", {"hour": h}, {"label": got}, f"non-leap calendar label {want}")
    # hours_to_month exact: monotone, 1/672-Lipschitz, month ends integer
    vals = [Fraction(*v) for v in h2m]
    nbad = 0
    for (p0, v0), (p1, v1) in zip(zip(pts, vals), zip(pts[1:], vals[1:])):
        if not (0 <= v1 - v0 <= (p1 - p0) / 672) and nbad < 3:
            nbad += 1
            chk.violation("hours-to-month-step", {"h0": str(p0), "h1": str(p1)}, {"m0": str(v0), "m1": str(v1)},
                          "0 <= m1 - m0 <= (h1-h0)/672 (monotone, continuous)")
    for y in range(years):
        for k, c in enumerate(cum[1:], start=1):
            p = Fraction(y * 8760 + c)
            if p in pts:
                v = vals[pts.index(p)]
                if v != 12 * y + k and nbad < 6:
                    nbad += 1
                    chk.violation("hours-to-month-end", {"h": str(p)}, {"months": str(v)}, f"month end is the integer {12*y+k}")
    # float evaluation agrees with exact within rounding
    for p, v, fv in zip(pts, vals, res["h2m_float"]):
        if abs(fv - float(v)) > 1e-9 * max(1.0, abs(float(v))) and nbad < 9:
            nbad += 1
            chk.violation("hours-to-month-float", {"h": float(p)}, {"months": fv}, f"{float(v)} (exact evaluation)")
    # row builders echo
    lr = res["loading_rows"]
    okrows = len(lr) == 8761 and all(r[3] == i and r[4] == loads[i] and r[:3] == [int(Fraction(*x)) for x in conv[i]]
                                      for i, r in enumerate(lr[1:]))
    if not okrows:
        i = next((i for i, r in enumerate(lr[1:]) if not (r[3] == i and r[4] == loads[i])), None)
        chk.violation("loads-rows", {"seed": chk.seed, "first_bad_row": i}, {"rows": len(lr) - 1, "row": lr[1 + (i or 0)] if len(lr) > 1 else None},
                      "8760 rows echoing the input loads in order with their labels")
    br = res["bore_rows"]
    if br[1:] != [list(c) for c in coords]:
        chk.violation("borefield-rows", {"coords": coords[:5]}, {"rows": br[1:6]}, "exactly the selected coordinates, in order")
    gr = res.get("g_rows")
    if gr is None:
        # the row builder no longer takes the curve from grab_g_function (the stub design object offers nothing else): the written files of the
        # real designs below are compared with the curve used in the simulation and with the from-scratch reference
        chk.broken.append({"name": "correspondence C19: get_g_function_data does not build its rows from grab_g_function (the curve used in the simulation)", "detail": res.get("g_rows_error", "")})
    elif [r[0] for r in gr[1:]] != gfunc["x"] or [r[1] for r in gr[1:]] != gfunc["y"] or [r[2] for r in gr[1:]] != gfunc["ybhw"]:
        chk.violation("gfunction-rows", {"x": gfunc["x"][:5]}, {"rows": gr[1:4]}, "the rows of the curve used in the simulation")
    chk.cov["evaluations"] += 8760 + len(coords) + len(gx)

    # ------------------------------------------------ real output files
    cfgs = [cfg()] if quick else [cfg(), cfg("RECTANGLE", "COAXIAL", months=36, loads={"kind": "cooling", "scale": 40000, "seed": 3}),
                                  cfg("BIRECTANGLE", "DOUBLEUTUBEPARALLEL", loads={"kind": "heating", "scale": 25000, "seed": 4})]
    # the same design with an hourly simulation of the 24-month horizon run on the object before the results are written
    hb = cfg(months=24, loads={"kind": "balanced", "scale": 20000.0, "seed": 6})
    hb["_hourly_before_write"] = True
    cfgs.append(hb)
    # a manager that produced (and wrote) the results of another study first
    ru = cfg("RECTANGLE", months=24, loads={"kind": "cooling", "scale": 26000.0, "seed": 5})
    ru["_first_configured_with"] = {"loads": {"synthetic": {"kind": "heating", "scale": 9000.0, "seed": 2}}, "simulation": {"num_months": 12}}
    cfgs.append(ru)
    # a design clamped at the minimum height (loads so small that the smallest field suffices)
    cfgs.append(cfg(months=12, loads={"kind": "balanced", "scale": 300.0, "seed": 1}, design={"continue_if_design_unmet": True}))
    # a RowWise design for which one borehole suffices (the search evaluates a stand-in 1X1 field at the origin)
    cfgs.append(cfg("ROWWISE", months=12, loads={"kind": "balanced", "scale": 400.0, "seed": 1}))
    for r in e2e_runs(cfgs):
        if not r.get("ok"):
            chk.broken.append({"name": "end-to-end run failed", "detail": json.dumps({k: r.get(k) for k in ("exc", "msg")})})
            continue
        od = r["outdir"]
        sys.path.insert(0, os.path.join(VERIF, "tools", "impl"))
        from e2e import materialise
        want = materialise(r["cfg"])["loads"]["ground_loads"]
        with open(os.path.join(od, "Loadings.csv")) as f:
            rows = list(csv.reader(f))[1:]
        base = datetime.datetime(2019, 1, 1)
        if len(rows) != 8760:
            chk.violation("loadings-csv", {"cfg": r["cfg"]}, {"rows": len(rows)}, "8760 rows: one for every hour of the year of loads that was given")
        for i, row in enumerate(rows[:len(want)]):
            t = base + datetime.timedelta(hours=i)
            if [int(row[0]), int(row[1]), int(row[2]), int(row[3])] != [t.month, t.day, t.hour + 1, i] or float(row[4]) != float(want[i]):
                chk.violation("loadings-csv", {"cfg": r["cfg"], "row": i}, {"row": row}, f"label {[t.month, t.day, t.hour+1, i]} and load {want[i]}")
                break
        with open(os.path.join(od, "BoreFieldData.csv")) as f:
            brow = [[float(a), float(b)] for a, b in list(csv.reader(f))[1:]]
        if brow != r["coords"]:
            chk.violation("borefield-csv", {"cfg": r["cfg"]}, {"rows": brow[:5], "n": len(brow)}, f"the {r['nbh']} selected coordinates")
        if r.get("selected_coords") is not None and brow != r["selected_coords"]:
            chk.violation("borefield-csv", {"cfg": r["cfg"]}, {"rows": brow[:5], "selected_by_the_search": r["selected_coords"][:5]},
                          "BoreFieldData.csv lists exactly the coordinates the search selected, in order")
        with open(os.path.join(od, "Gfunction.csv")) as f:
            grow = [[float(a) for a in x] for x in list(csv.reader(f))[1:]]
        xs = [g[0] for g in grow]
        if any(b <= a for a, b in zip(xs, xs[1:])):
            chk.violation("gfunction-csv", {"cfg": r["cfg"]}, {"x": xs}, "strictly increasing ln(t/ts)")
        rg = (r.get("reference") or {}).get("gfunc")
        if rg is not None and (xs != rg["x"] or [g[1] for g in grow] != rg["y"]):
            chk.violation("gfunction-csv", {"cfg": r["cfg"]}, {"rows": grow[:3], "first_rows_from_the_requested_inputs": list(zip(rg["x"][:3], rg["y"][:3]))},
                          "Gfunction.csv holds the curve of the reported borehole (height, radius, media as requested), short-time part included")
        if "gfunc" in r and (xs != r["gfunc"]["x"] or [g[1] for g in grow] != r["gfunc"]["y"]):
            chk.violation("gfunction-csv", {"cfg": r["cfg"]}, {"rows": grow[:3]}, "the rows of the curve used in the simulation")
        chk.cov["evaluations"] += len(rows) + len(brow) + len(grow)
        chk.cov["end_to_end_runs"] = chk.cov.get("end_to_end_runs", 0) + 1

    chk.cov["distinct_nontrivial"] = len(set(pts)) + 8760
    chk.cov["rule"] = ("all 8760 hour indices (exhaustive) + rational elapsed-hour points (every half hour within 2 h of each month end "
                       f"of {years} years, a stride over the first years, random rationals up to 30 years); distinct points counted; "
                       "a point is non-trivial when it is a distinct input")
    chk.cov["exhaustive"] = False
    chk.sample({"hour": 1416, "label": [str(Fraction(*x)) for x in conv[1416]]})
    chk.sample({"elapsed_hours": str(pts[len(pts) // 2]), "months": str(vals[len(pts) // 2])})
    chk.cov["trusted_base"] = ["python datetime as the independent calendar oracle"]
    return chk.finish(assumptions=["theorems about hours_to_month are stated on the function regenerated from output.py (exact rationals); "
                                   "C19_hours_to_month_is_calendar_conversion proves it equal to the reference conversion for every rational hour count; "
                                   "the real float code is compared with it by exact (Fraction) evaluation on this run's points"])


def replay(payload):
    return "RERUN"      # vcheck re-runs this check with the recorded tier and seed and looks for the same violation
