"""C18 — command-line exit status and validation verdict reflect the outcome."""
import copy, json, os, re, shutil, subprocess, sys
from lib import *
from configs import cfg

OUTS = ["SimulationSummary.txt", "TimeDependentValues.csv", "BoreFieldData.csv", "Loadings.csv", "Gfunction.csv", "SimulationSummary.json"]
HEADER = """From Coq Require Import ZArith List Bool.
From GHE Require Import Model.Cli.
Import ListNotations.
"""


def section_verdicts(inst):
    """jsonschema verdict of each of the nine sections, with the five names upper-cased as validate.py does (oracle side)"""
    import jsonschema
    sd = os.path.join(REPO, "ghedesigner", "schemas")

    def ok(schema, obj):
        try:
            jsonschema.validate(instance=obj, schema=json.load(open(os.path.join(sd, schema))))
            return True
        except jsonschema.ValidationError:
            return False
    inst = copy.deepcopy(inst)
    v = [ok("file_structure.schema.json", inst)]
    try:
        inst["fluid"]["fluid_name"] = str(inst["fluid"]["fluid_name"]).upper()
        v.append(ok("fluid.schema.json", inst["fluid"]))
        v.append(ok("grout.schema.json", inst["grout"]))
        v.append(ok("soil.schema.json", inst["soil"]))
        arr = str(inst["pipe"]["arrangement"]).upper()
        inst["pipe"]["arrangement"] = arr
        pm = {"SINGLEUTUBE": "pipe_single_double_u_tube.schema.json", "DOUBLEUTUBESERIES": "pipe_single_double_u_tube.schema.json",
              "DOUBLEUTUBEPARALLEL": "pipe_single_double_u_tube.schema.json", "COAXIAL": "pipe_coaxial.schema.json"}
        v.append(arr in pm and ok(pm[arr], inst["pipe"]))
        v.append(ok("borehole.schema.json", inst["borehole"]))
        if "timestep" in inst["simulation"]:
            inst["simulation"]["timestep"] = str(inst["simulation"]["timestep"]).upper()
        v.append(ok("simulation.schema.json", inst["simulation"]))
        m = str(inst["geometric_constraints"]["method"]).upper()
        inst["geometric_constraints"]["method"] = m
        gm = {"BIRECTANGLE": "geometric_bi_rectangle.schema.json", "BIRECTANGLECONSTRAINED": "geometric_bi_rectangle_constrained.schema.json",
              "BIZONEDRECTANGLE": "geometric_bi_zoned_rectangle.schema.json", "NEARSQUARE": "geometric_near_square.schema.json",
              "RECTANGLE": "geometric_rectangle.schema.json", "ROWWISE": "geometric_rowwise.schema.json"}
        v.append(m in gm and ok(gm[m], inst["geometric_constraints"]))
        inst["design"]["flow_type"] = str(inst["design"]["flow_type"]).upper()
        v.append(ok("design.schema.json", inst["design"]))
    except (KeyError, TypeError):
        return None          # a missing section makes validate_input_file itself raise: exit status must still be non-zero
    return v


def corruptions(base, rng, tier):
    out = []
    secs = ["fluid", "grout", "soil", "pipe", "borehole", "simulation", "geometric_constraints", "design"]
    for sec in secs:
        keys = list(base[sec].keys())
        for key in (keys if tier != "quick" else keys[:2]):
            d = copy.deepcopy(base)
            del d[sec][key]
            out.append((f"{sec}.{key} missing", d))
            d = copy.deepcopy(base)
            d[sec][key] = {"x": 1} if not isinstance(base[sec][key], dict) else 5
            out.append((f"{sec}.{key} wrong type", d))
    d = copy.deepcopy(base); d["simulation"]["num_months"] = 0; out.append(("simulation.num_months zero", d))
    d = copy.deepcopy(base); d["simulation"]["start_month"] = "JAN"; out.append(("simulation.start_month not a month number", d))
    d = copy.deepcopy(base); d["simulation"]["timestep"] = "DAILY"; out.append(("simulation.timestep unknown", d))
    d = copy.deepcopy(base); d["soil"]["conductivity"] = -3.0; out.append(("soil.conductivity negative", d))
    d = copy.deepcopy(base); d["fluid"]["fluid_name"] = "MERCURY"; out.append(("fluid unknown enum", d))
    d = copy.deepcopy(base); d["pipe"]["arrangement"] = "TRIPLEUTUBE"; out.append(("pipe unknown arrangement", d))
    d = copy.deepcopy(base); d["geometric_constraints"]["method"] = "HEXAGON"; out.append(("geometry unknown method", d))
    d = copy.deepcopy(base); d["design"]["flow_type"] = "PIPE"; out.append(("design unknown flow type", d))
    d = copy.deepcopy(base); d["extra_top_level"] = 1; out.append(("extra top-level key", d))
    return out


def recase(s, rng):
    return "".join(ch.upper() if rng.random() < 0.5 else ch.lower() for ch in s)


def run_cli(argv, timeout=600):
    e = dict(os.environ)
    e.update({"PYTHONPATH": REPO, "PYTHONHASHSEED": "0", "OMP_NUM_THREADS": "1", "OPENBLAS_NUM_THREADS": "1"})
    p = subprocess.run([PY, "-m", "ghedesigner.manager"] + argv, capture_output=True, text=True, env=e, timeout=timeout)
    return p.returncode, p.stderr[-300:]


def run(chk):
    quick = chk.tier == "quick"
    chk.build("C18", extra=["Model/Cli"])
    rng = chk.rng
    sys.path.insert(0, os.path.join(VERIF, "tools", "impl"))
    from e2e import materialise
    base = materialise(cfg(months=12, loads={"kind": "balanced", "scale": 15000.0, "seed": 2}))
    work = os.path.join(chk.scratch, "cli")
    os.makedirs(work, exist_ok=True)
    jobs = []      # (label, instance, flags, expect_kind)

    def add(label, inst, flags, no_design=False):
        jobs.append({"label": label, "inst": inst, "flags": flags, "no_design": no_design})
    add("valid", base, "run")
    add("valid", base, "validate")
    add("valid", base, "nooutdir")
    add("valid", base, "convert_other")
    rc = copy.deepcopy(base)
    rc["fluid"]["fluid_name"] = recase(rc["fluid"]["fluid_name"], rng)
    rc["pipe"]["arrangement"] = recase(rc["pipe"]["arrangement"], rng)
    rc["geometric_constraints"]["method"] = recase(rc["geometric_constraints"]["method"], rng)
    rc["design"]["flow_type"] = recase(rc["design"]["flow_type"], rng)
    rc["simulation"]["timestep"] = recase("hybrid", rng)
    add("valid re-cased", rc, "validate")
    add("valid re-cased", rc, "run" if not quick else "validate")
    # schema-valid inputs for which no design exists: the run must end non-zero and write nothing
    nd = copy.deepcopy(base)
    nd["loads"]["ground_loads"] = [x * 400.0 for x in nd["loads"]["ground_loads"]]      # far beyond the capacity of the land
    add("valid, loads too large for the land", nd, "run", no_design=True)
    add("valid, loads too large for the land", nd, "validate")
    nd2 = copy.deepcopy(base)
    nd2["loads"]["ground_loads"] = [x * 0.001 for x in nd2["loads"]["ground_loads"]]    # one borehole at minimum height is already too much
    add("valid, loads too small for the smallest field", nd2, "run", no_design=True)
    coax = materialise(cfg("NEARSQUARE", "COAXIAL", months=12, loads={"kind": "balanced", "scale": 15000.0, "seed": 2}))
    add("valid, coaxial pipe", coax, "run")
    add("valid, output path is an existing regular file", base, "outfile", no_design=True)
    add("valid, parent of the output path is a regular file", base, "outunder", no_design=True)
    cors = corruptions(base, rng, chk.tier)
    for label, inst in cors:
        add(label, inst, "run")
        add(label, inst, "validate")
        # the same corruption with re-cased names must get the same verdict
        if rng.random() < 0.3:
            i2 = copy.deepcopy(inst)
            try:
                i2["design"]["flow_type"] = recase(str(i2["design"]["flow_type"]), rng)
                add(label + " (re-cased)", i2, "validate")
            except (KeyError, TypeError):
                pass
    from concurrent.futures import ThreadPoolExecutor

    def one(k):
        j = jobs[k]
        d = os.path.join(work, f"j{k}")
        os.makedirs(d, exist_ok=True)
        ip = os.path.join(d, "in.json")
        with open(ip, "w") as f:
            json.dump(j["inst"], f)
        od = os.path.join(d, "out")
        if j["flags"] in ("outfile", "outunder"):
            blocker = os.path.join(d, "blocker")
            with open(blocker, "w") as f:
                f.write("not a directory")
            od = blocker if j["flags"] == "outfile" else os.path.join(blocker, "out")
        argv = {"run": [ip, od], "validate": [ip, "--validate-only"], "nooutdir": [ip], "convert_other": [ip, od, "-c", "XYZ"],
                "outfile": [ip, od], "outunder": [ip, od]}[j["flags"]]
        try:
            code, err = run_cli(argv)
        except subprocess.TimeoutExpired:
            code, err = -9, "timeout"
        written = os.path.isdir(od) and all(os.path.exists(os.path.join(od, f)) for f in OUTS)
        return code, written, err
    with ThreadPoolExecutor(max_workers=NPROC) as ex:
        res = list(ex.map(one, range(len(jobs))))
    chk.cov["evaluations"] += len(jobs)
    nontrivial = 0
    items = []
    dist = {}
    for j, (code, written, err) in zip(jobs, res):
        v = section_verdicts(j["inst"])
        valid = v is not None and all(v)
        pub = {"label": j["label"], "flags": j["flags"], "instance_diff": j["label"]}
        dist[f"{j['flags']}/{'valid' if valid else 'invalid'}/exit{code}"] = dist.get(f"{j['flags']}/{'valid' if valid else 'invalid'}/exit{code}", 0) + 1
        nontrivial += 1
        if len(chk.violations) >= 6:
            continue
        # ---- the property, read directly off the process
        if not valid and code == 0:
            chk.violation("cli", pub, {"exit": code, "stderr": err}, "exit status non-zero when the input fails schema validation")
        if j["flags"] == "convert_other" and code == 0:
            chk.violation("cli", pub, {"exit": code}, "exit status non-zero for an unsupported --convert option")
        if j["flags"] == "nooutdir" and code == 0:
            chk.violation("cli", pub, {"exit": code}, "exit status non-zero when no output directory is given (no design output produced)")
        if code == 0 and j["flags"] == "run" and not written:
            chk.violation("cli", pub, {"exit": code, "outputs_written": written}, "exit status zero only when the output files were written")
        if valid and j["flags"] == "validate" and code != 0:
            chk.violation("cli", pub, {"exit": code, "stderr": err}, "--validate-only on a valid file exits zero")
        if j["no_design"] and (code == 0 or written):
            chk.violation("cli", pub, {"exit": code, "outputs_written": written}, "no design produced (the search fails on this valid input): exit status non-zero and no output files")
        if valid and j["flags"] == "run" and not j["no_design"] and (code != 0 or not written):
            chk.violation("cli", pub, {"exit": code, "outputs_written": written, "stderr": err}, "a valid input produces the output files and exit status zero")
        # ---- the model's prediction
        if v is not None:
            a = (f"{{| validate_only := {coq_bool(j['flags'] == 'validate')}; convert := {'ConvertOther' if j['flags'] == 'convert_other' else 'NoConvert'}; "
                 f"has_outdir := {coq_bool(j['flags'] != 'nooutdir')} |}}")
            w = "WroteOutputs" if written or not valid else ("WroteOutputs" if code == 0 else "Raised")
            items.append(f"({a}, [{'; '.join(coq_bool(b) for b in v)}], {w}, {1 if code != 0 else 0}%nat, {coq_bool(written)}, true)")
    # ---- --convert IDF on the summaries the designs above wrote: exit status zero only when out.idf was written next to the summary
    conv = []
    for k, (j, (code, written, err)) in enumerate(zip(jobs, res)):
        if j["flags"] == "run" and code == 0 and written and j["label"] in ("valid", "valid, coaxial pipe"):
            conv.append((j["label"], os.path.join(work, f"j{k}", "out", "SimulationSummary.json")))
    # a summary without its Gfunction.csv beside it (the conversion reads both): copied alone into an empty directory
    if conv:
        import shutil as _sh
        lone = os.path.join(work, "lone")
        os.makedirs(lone, exist_ok=True)
        _sh.copy(conv[0][1], os.path.join(lone, "SimulationSummary.json"))
        conv.append(("valid, summary without Gfunction.csv", os.path.join(lone, "SimulationSummary.json")))
    # option values that merely resemble the supported one
    for v in (("ID", "DF", "idf") if quick else ("ID", "DF", "I", "idf", "IDFX", "Idf")):
        if not conv:
            break
        sp = conv[0][1]
        idf = os.path.join(os.path.dirname(sp), "out.idf")
        if os.path.exists(idf):
            os.remove(idf)
        try:
            code, err = run_cli([sp, "-c", v])
        except subprocess.TimeoutExpired:
            code, err = -9, "timeout"
        chk.cov["evaluations"] += 1
        nontrivial += 1
        dist[f"convert {v}/exit{code}"] = 1
        if (code == 0 or os.path.exists(idf)) and len(chk.violations) < 6:
            chk.violation("cli", {"label": "valid summary", "flags": f"--convert {v}"}, {"exit": code, "out.idf_written": os.path.exists(idf)},
                          "exit status non-zero (and nothing converted) for an unsupported --convert option")
    # the validator asked twice about the same path in one process, the content changed in between
    vc = [(lab, inst) for lab, inst in cors if section_verdicts(inst) is not None and not all(section_verdicts(inst))][: (3 if quick else 12)]
    vr = run_impl("validate_drv.py", {"valid": base, "corruptions": [[a_, b_] for a_, b_ in vc]}, timeout=900)
    if isinstance(vr, dict) and "_error" in vr:
        chk.broken.append({"name": "validator driver failed", "detail": vr["_error"][-300:]})
    else:
        for o in vr:
            chk.cov["evaluations"] += 4
            nontrivial += 1
            (v1, v2), (w1, w2) = o["valid_then_corrupted"], o["corrupted_then_repaired"]
            good = lambda x: x[0] == 0 and x[1] == 0
            bad_ = lambda x: x[0] not in (0,) and x[1] not in (0,)
            if not (good(v1) and bad_(v2) and bad_(w1) and good(w2)) and len(chk.violations) < 6:
                chk.violation("cli", {"label": o["label"], "flags": "validate twice in one process, file edited in between"},
                              {"valid_file": v1, "same_path_after_the_corruption": v2, "corrupted_file": w1, "same_path_after_the_repair": w2},
                              "validation accepts an input exactly when every section satisfies its schema (the content at the time of the call decides)")
    for label, sp in conv:
        idf = os.path.join(os.path.dirname(sp), "out.idf")
        if os.path.exists(idf):
            os.remove(idf)
        try:
            code, err = run_cli([sp, "-c", "IDF"])
        except subprocess.TimeoutExpired:
            code, err = -9, "timeout"
        wrote = os.path.exists(idf) and os.path.getsize(idf) > 0
        chk.cov["evaluations"] += 1
        nontrivial += 1
        dist[f"convert_idf/{label}/exit{code}/{'idf' if wrote else 'no idf'}"] = 1
        if code == 0 and not wrote and len(chk.violations) < 6:
            chk.violation("cli", {"label": label, "flags": "convert_idf"}, {"exit": code, "out.idf_written": wrote, "stderr": err},
                          "exit status zero only when the output file (out.idf) was written")
        if code != 0 and wrote and len(chk.violations) < 6:
            chk.violation("cli", {"label": label, "flags": "convert_idf"}, {"exit": code, "out.idf_written": wrote, "stderr": err},
                          "the conversion wrote its output: exit status zero")
        items.append(f"({{| validate_only := false; convert := ConvertIDF; has_outdir := false |}}, [true], WroteOutputs, {1 if code != 0 else 0}%nat, false, {coq_bool(wrote)})")
    chk.cov["input_distribution"] = dist
    if getattr(chk, "model_ok", False) and items:
        txt = HEADER + "Definition cases : list (args * verdicts * worker_outcome * nat * bool * bool) := [\n" + ";\n".join(items) + """].
Definition ok (c : args * verdicts * worker_outcome * nat * bool * bool) : bool :=
  let '(a, v, w, code, written, idf) := c in
  let o := cli a v idf w in Nat.eqb (exit_code o) code && Bool.eqb (outputs_written o) written.
Eval vm_compute in (length cases, length (filter (fun c => negb (ok c)) cases)).
"""
        rcq, out, err = chk.coq_eval("cli", txt)
        m = re.search(r"=\s*\((\d+)(?:%nat)?,\s*(\d+)(?:%nat)?\)", " ".join(out.split()))
        if rcq != 0 or not m:
            chk.broken.append({"name": "correspondence C18 did not evaluate", "detail": (err or out)[-400:]})
        else:
            if int(m.group(2)):
                chk.broken.append({"name": "correspondence C18: Model/Cli.cli differs from the real command-line tool (exit status / output files)",
                                   "detail": f"{m.group(2)} of {m.group(1)} invocations"})
            chk.cov["traces_validated_against_impl"] = int(m.group(1)) - int(m.group(2))
            chk.cov["correspondence_cases"] = int(m.group(1))
    chk.cov["distinct_nontrivial"] = nontrivial
    chk.cov["rule"] = ("the real entry point (python -m ghedesigner.manager, what the console script calls) as a subprocess: a valid input, every single-field corruption (missing key, wrong type; "
                       "two keys per section in quick, all in thorough), out-of-range / unknown-enum values, re-cased names, x flag combinations (run, --validate-only, no output directory, unsupported --convert, --convert IDF on the written summaries of a U-tube and a coaxial design and on a summary without its g-function file); "
                       "non-trivial = one invocation")
    chk.sample({"job": {"label": jobs[0]["label"], "flags": jobs[0]["flags"]}, "exit": res[0][0], "outputs_written": res[0][1]})
    chk.cov["trusted_base"] = ["jsonschema verdicts per section are computed by the harness with the tool's own schema files and fed to the model (the click framework and jsonschema are not modelled)"]
    return chk.finish()


def replay(payload):
    return "RERUN"      # vcheck re-runs this check with the recorded tier and seed and looks for the same violation
