"""C15 — the equivalent single U-tube preserves the exchanger's bulk properties."""
import json, math, re
from lib import *

HEADER = """From Coq Require Import ZArith QArith List Bool.
From GHE Require Import Base.QUtil gen.Src.
Import ListNotations. Open Scope Q_scope.
"""
CLAMP_SIG = "callsite:match_effective_borehole_resistance:grout-conductivity-clamped"
KP_SIG = "callsite:equivalent_single_u_tube:pipe-conductivity-root-outside-its-bracket"


def gen_cases(rng, tier):
    cs = []
    n = 40 if tier == "quick" else 300
    while len(cs) < n:
        rb = rng.uniform(0.05, 0.12)
        c = {"rb": rb, "H": rng.uniform(20, 400), "kg": rng.uniform(0.6, 2.5), "ks": rng.uniform(0.8, 4.0), "kp": rng.uniform(0.3, 0.6), "m": rng.choice([rng.uniform(0.05, 1.0), rng.uniform(0.05, 1.0), rng.uniform(0.02, 0.07)]),
             "fluid": rng.choice(["water", "propyleneglycol", "ethyleneglycol"]), "conc": rng.choice([0.0, 20.0, 30.0])}
        if c["fluid"] == "water":
            c["conc"] = 0.0
        kind = rng.choice(["dp", "ds", "cx", "su"])
        c["kind"] = kind
        if kind in ("dp", "ds", "su"):
            ro = rng.uniform(0.010, 0.02)
            ri = ro * rng.uniform(0.78, 0.88)
            hi = 2 * (rb - 2 * ro) - 0.004
            if hi <= 0.003:
                continue
            s = rng.uniform(0.002, hi)
            if s / 2 + 2 * ro >= rb:
                continue
            c.update(ro=ro, ri=ri, s=s)
        else:
            r_oo = rng.uniform(0.03, min(0.06, rb - 0.005))
            r_oi = r_oo * 0.9
            r_io = r_oi * rng.uniform(0.45, 0.7)
            c.update(r_oo=r_oo, r_oi=r_oi, r_io=r_io, r_ii=r_io * 0.85)
            if rng.random() < 0.6:           # insulated centre pipe / enhanced outer pipe: different conductivities
                c.update(kp_in=rng.choice([0.1, 0.2, 0.4]), kp_out=rng.choice([0.4, 0.6, 1.5]))
            if rng.random() < 0.5:
                c["via_manager"] = True
        cs.append(c)
    # double U-tubes at low flow (laminar in the tubes): the equivalent pipe conductivity is then far below k_p'
    for k in range(6 if tier == "quick" else 30):
        ro = rng.choice([0.0133, 0.0167, 0.02108])
        rb = rng.choice([0.07, 0.075, 0.09])
        cs.append({"rb": rb, "H": rng.choice([60.0, 100.0, 200.0]), "kg": rng.choice([1.0, 2.0]), "ks": 2.0, "kp": rng.choice([0.4, 0.45]), "m": rng.uniform(0.02, 0.06),
                   "fluid": rng.choice(["water", "water", "propyleneglycol"]), "conc": 0.0, "kind": rng.choice(["dp", "ds"]), "ro": ro, "ri": ro * 0.82,
                   "s": min(0.02, 2 * (rb - 2 * ro) - 0.006)})
        if cs[-1]["fluid"] != "water":
            cs[-1]["conc"] = 20.0
    # thin-walled pipes (steel casings, SDR 26-41 tubes): outer / inner radius below 1.1
    for k in range(4 if tier == "quick" else 16):
        rb = rng.choice([0.07, 0.075, 0.09])
        if k % 2 == 0:
            ro = rng.choice([0.016, 0.02])
            cs.append({"rb": rb, "H": 100.0, "kg": rng.choice([1.0, 2.0]), "ks": 2.0, "kp": rng.choice([0.4, 16.0]), "m": rng.uniform(0.2, 0.8), "fluid": "water", "conc": 0.0,
                       "kind": rng.choice(["dp", "ds"]), "ro": ro, "ri": ro * rng.choice([0.93, 0.95, 0.975]), "s": min(0.02, 2 * (rb - 2 * ro) - 0.006)})
        else:
            r_oo = 0.05715
            r_oi = r_oo - 0.003
            r_io = 0.02
            cs.append({"rb": 0.075, "H": 150.0, "kg": 1.5, "ks": 2.5, "kp": 0.4, "kp_in": 0.4, "kp_out": 16.0, "m": rng.uniform(0.5, 1.0), "fluid": "water", "conc": 0.0, "kind": "cx",
                       "r_oo": r_oo, "r_oi": r_oi, "r_io": r_io, "r_ii": r_io - 0.0024, "via_manager": k % 4 == 1})
    # coaxial exchangers whose annulus flow is laminar or transitional (the film coefficients of the two walls of the annulus differ there)
    for k in range(4 if tier == "quick" else 20):
        r_oo = rng.choice([0.055, 0.05, 0.045])
        r_oi = r_oo * 0.9
        r_io = r_oi * rng.choice([0.5, 0.55, 0.6])
        fl = rng.choice(["water", "water", "propyleneglycol"])
        cs.append({"rb": r_oo + rng.choice([0.01, 0.02]), "H": rng.choice([60.0, 100.0, 200.0]), "kg": rng.choice([1.0, 2.0]), "ks": 2.0, "kp": 0.4, "kp_in": rng.choice([0.2, 0.4]), "kp_out": rng.choice([0.4, 0.7]),
                   "m": rng.uniform(0.15, 0.3) if fl == "water" else rng.uniform(0.35, 0.6), "fluid": fl, "conc": 0.0 if fl == "water" else 30.0, "kind": "cx",
                   "r_oo": r_oo, "r_oi": r_oi, "r_io": r_io, "r_ii": r_io * 0.85, "via_manager": k % 2 == 0})
    # the same exchanger object taken to a second operating point and converted again (what repeated simulate() calls during sizing do)
    for k in range(3 if tier == "quick" else 12):
        kind = ["dp", "ds", "cx"][k % 3]
        base = {"rb": 0.075, "H": 100.0, "kg": 1.0, "ks": 2.0, "kp": 0.4, "m": rng.uniform(0.45, 0.6), "reuse_m": rng.uniform(0.25, 0.35), "fluid": "water", "conc": 0.0, "kind": kind}
        if kind == "cx":
            base.update(r_oo=0.055, r_oi=0.0495, r_io=0.025, r_ii=0.02125, kp_in=0.4, kp_out=0.4)
        else:
            base.update(ro=0.0133, ri=0.0108, s=0.02)
        cs.append(base)
    return cs


def oracle(chk, c, o):
    if not o.get("ok"):
        if o.get("exc") == "ValueError" and ("_check_geometry" in (o.get("msg") or "") or "pygfunction" in (o.get("msg") or "")):
            return 0           # geometry rejected by pygfunction (pipes do not fit): not a valid borehole
        chk.violation("to-single", c, {"exception": o.get("exc"), "msg": o.get("msg")}, "conversion to the equivalent single U-tube succeeds for a geometry that fits")
        return 0
    if c["kind"] == "su":
        if not o["identity"]:
            chk.violation("to-single", c, {"identity": False}, "a single U-tube converts to itself")
        return 1
    n = 3
    vf2 = 2 * math.pi * o["eq_r_in"] ** 2
    vp2 = 2 * math.pi * (o["eq_r_out"] ** 2 - o["eq_r_in"] ** 2)
    if abs(vf2 / o["vf"] - 1) > 1e-9:
        chk.violation("to-single", c, {"fluid_volume": o["vf"], "equivalent": vf2}, "fluid volume per metre preserved")
    if abs(vp2 / o["vp"] - 1) > 1e-9:
        chk.violation("to-single", c, {"pipe_volume": o["vp"], "equivalent": vp2}, "pipe-wall volume per metre preserved")
    # the inputs of the conversion, recomputed from the geometry (independently of u_tube_volumes / concentric_tube_volumes)
    if c["kind"] in ("dp", "ds"):
        vf_i = 4 * math.pi * c["ri"] ** 2
        vp_i = 4 * math.pi * (c["ro"] ** 2 - c["ri"] ** 2)
        rp_i = math.log(c["ro"] / c["ri"]) / (4 * 2 * math.pi * c["kp"])
    else:
        vf_i = math.pi * (c["r_ii"] ** 2 + c["r_oi"] ** 2 - c["r_io"] ** 2)
        vp_i = math.pi * (c["r_io"] ** 2 - c["r_ii"] ** 2 + c["r_oo"] ** 2 - c["r_oi"] ** 2)
        rp_i = math.log(c["r_oo"] / c["r_oi"]) / (2 * math.pi * c.get("kp_out", c["kp"]))
    n += 1
    if abs(o["vf"] / vf_i - 1) > 1e-9 or abs(o["vp"] / vp_i - 1) > 1e-9:
        chk.violation("to-single", c, {"volumes_used": [o["vf"], o["vp"]], "from_the_geometry": [vf_i, vp_i]}, "fluid and pipe-wall volume per metre of the original exchanger")
    if abs(o["rp"] / rp_i - 1) > 1e-9:
        chk.violation("to-single", c, {"pipe_resistance_used": o["rp"], "from_the_geometry": rp_i}, "pipe-wall resistance of the original exchanger (outer pipe wall for a coaxial exchanger)")
    # combined convective-plus-pipe resistance of the equivalent tube.  Double U-tube: the convective part as the conversion defines it
    # (the implementation's film coefficient).  Coaxial: the resistance between the annulus fluid and the outer face of the outer pipe,
    # film coefficient of the outer pipe's inner wall straight from pygfunction for the requested numbers
    n += 1
    if c["kind"] == "cx" and "h_outer_wall" in o:
        want_fp = 1.0 / (o["h_outer_wall"] * 2 * math.pi * c["r_oi"]) + rp_i
        if abs(o["R_fp_orig"] / want_fp - 1) > 1e-9:
            chk.violation("to-single", c, {"R_fp_of_the_exchanger_object": o["R_fp_orig"], "from_the_requested_numbers": want_fp},
                          "the exchanger's own fluid-to-outer-wall resistance is that of the requested geometry, conductivities and flow")
    elif "h_tube" in o:
        # double U-tube: the conversion's own definition of the convective part, 1 / (h n pi (2 r_in)^2) with n = 4 tubes, film coefficient of
        # one tube from pygfunction for the requested numbers
        want_fp = 1.0 / (o["h_tube"] * 4 * math.pi * (2 * c["ri"]) ** 2) + rp_i
        if abs(o["rc"] / (want_fp - rp_i) - 1) > 1e-9:
            chk.violation("to-single", c, {"convective_resistance_used_by_the_conversion": o["rc"], "from_the_requested_numbers": want_fp - rp_i},
                          "the convective resistance handed to the conversion is that of the requested geometry, fluid and flow")
    else:
        want_fp = o["rc"] + rp_i
    if abs(o["eq_R_fp"] / want_fp - 1) > 1e-4:          # the root solve on the pipe conductivity stops at about 1e-5 relative
        # the listed defect: the root lies outside the documented bracket [k_p'/100, 10 k_p'] and solve_root clamps to its end
        kpp = math.log(o["eq_r_out"] / o["eq_r_in"]) / (2 * math.pi * 2 * rp_i)
        # where the root is: R_fp(k) = R_film + ln(r_out'/r_in') / (2 pi k) for the equivalent tube (film part: what the implementation reports)
        r_film = o["eq_R_fp"] - o["eq_R_p"]
        lnr = math.log(o["eq_r_out"] / o["eq_r_in"]) / (2 * math.pi)
        k_star = lnr / (want_fp - r_film) if want_fp > r_film else None
        outside = k_star is None or not (kpp / 100 <= k_star <= 10 * kpp)
        at_end = outside and (abs(o["eq_k_pipe"] / (10 * kpp) - 1) < 1e-9 or abs(o["eq_k_pipe"] / (kpp / 100) - 1) < 1e-9)
        chk.violation("to-single", c, {"R_fp_equivalent": o["eq_R_fp"], "R_conv_plus_R_pipe": want_fp, "equivalent_pipe_conductivity": o["eq_k_pipe"], "k_p_prime": kpp,
                                           "conductivity_that_would_reproduce_it": k_star},
                      "the equivalent tube reproduces the combined convective-plus-pipe resistance", signature=KP_SIG if at_end else None)
    if "reuse" in o:
        ru = o["reuse"]
        n += 1
        # the harness's way of moving the object to the second operating point is validated first: the ORIGINAL exchanger's own resistance
        # must then be that of a freshly built one (otherwise nothing is concluded)
        if ru["fresh_R_fp_orig"] and abs(ru["R_fp_orig"] / ru["fresh_R_fp_orig"] - 1) < 1e-9 and ru["fresh_eq_R_fp"]:
            if abs(ru["eq_R_fp"] / ru["fresh_eq_R_fp"] - 1) > 1e-6 or abs(ru["eq_k_pipe"] / ru["fresh_eq_k_pipe"] - 1) > 1e-6:
                chk.violation("to-single", c, {"R_fp_equivalent_after_reuse": ru["eq_R_fp"], "R_fp_equivalent_of_a_fresh_exchanger": ru["fresh_eq_R_fp"],
                                                   "R_fp_of_the_exchanger_at_the_second_flow": ru["R_fp_orig"]},
                              "the equivalent tube reproduces the combined convective-plus-pipe resistance of the exchanger as it is NOW (second conversion of the same object at another flow)")
    clamped_g = abs(o["eq_k_grout"] - 0.01) < 1e-12 or abs(o["eq_k_grout"] - 7.0) < 1e-12
    rel = abs(o["Rb_eq"] / o["Rb"] - 1)
    if rel > 1e-3:
        if clamped_g:
            chk.violation("to-single", c, {"Rb": o["Rb"], "Rb_equivalent": o["Rb_eq"], "equivalent_grout_conductivity": o["eq_k_grout"]},
                          "effective borehole resistance reproduced within 0.1 %", signature=CLAMP_SIG)
        else:
            chk.violation("to-single", c, {"Rb": o["Rb"], "Rb_equivalent": o["Rb_eq"], "equivalent_grout_conductivity": o["eq_k_grout"]},
                          "effective borehole resistance reproduced within 0.1 % (the conductivity solve was NOT clamped)")
    return n


def run(chk):
    quick = chk.tier == "quick"
    chk.build("C15", extra=[])
    chk.model_ok = not chk.broken
    rng = chk.rng
    cases = gen_cases(rng, chk.tier)
    from concurrent.futures import ThreadPoolExecutor
    parts = [cases[i:i + 6] for i in range(0, len(cases), 6)]
    with ThreadPoolExecutor(max_workers=NPROC) as ex:
        rs = list(ex.map(lambda part: run_impl("pipe_drv.py", {"cases": part}, timeout=900), parts))
    outs = []
    for r in rs:
        if isinstance(r, dict) and "_error" in r:
            chk.broken.append({"name": "correspondence C15 (implementation driver failed)", "detail": r["_error"][-300:]})
            return chk.finish()
        outs += r
    chk.cov["evaluations"] += len(cases)
    nontrivial = 0
    dist = {"clamped": 0, "matched": 0, "identity": 0, "rejected": 0}
    for c, o in zip(cases, outs):
        if len(chk.violations) < 5:
            nontrivial += oracle(chk, c, o)
        if o.get("ok") and "eq_k_grout" in o:
            dist["clamped" if (abs(o["eq_k_grout"] - 0.01) < 1e-12 or abs(o["eq_k_grout"] - 7.0) < 1e-12) else "matched"] += 1
        elif o.get("ok"):
            dist["identity"] += 1
        else:
            dist["rejected"] += 1
    for kf in chk.open_findings("to-single"):
        r = run_impl("pipe_drv.py", {"cases": [kf["input"]]})
        if not (isinstance(r, dict) and "_error" in r):
            oracle(chk, kf["input"], r[0])
    chk.cov["input_distribution"] = dist
    # the regenerated expressions evaluated in Coq with sqrt/ln values supplied by the implementation's own results
    if getattr(chk, "model_ok", False):
        items = []
        for c, o in zip(cases, outs):
            if not (o.get("ok") and "vf" in o):
                continue
            # table functions: sqrt_ maps the two arguments it is asked for to the implementation's radii, ln_ to the implementation's log
            a1 = o["vf"] / (2 * math.pi)
            a2 = (o["vf"] + o["vp"]) / (2 * math.pi)
            lnv = math.log(o["eq_r_out"] / o["eq_r_in"])
            items.append(f"({q(o['vf'])}, {q(o['vp'])}, {q(o['rp'])}, {q(math.pi)}, {q(o['eq_r_in'])}, {q(o['eq_r_out'])}, {q(lnv)}, {q(a1)}, {q(a2)})")
        txt = HEADER + "Definition cases : list (Q * Q * Q * Q * Q * Q * Q * Q * Q) := [\n" + ";\n".join(items[:200]) + """].
Definition tol : Q := 1 # 1000000000.
Definition ok (c : Q * Q * Q * Q * Q * Q * Q * Q * Q) : bool :=
  let '(vf, vp, rp, pi_, ri, ro, lnv, a1, a2) := c in
  (* the arguments the regenerated expressions hand to sqrt are the ones the implementation used *)
  let sq := fun y => if qclose tol y a1 then ri else if qclose tol y a2 then ro else 0 in
  qclose tol (eq_r_in pi_ sq vf eq_n) ri && qclose tol (eq_r_out pi_ sq vf vp eq_n) ro &&
  qclose tol (2 * pi_ * (ri * ri)) vf && qclose tol (2 * pi_ * (ro * ro - ri * ri)) vp &&
  (* k_p' from the regenerated expression reproduces R_pipe *)
  qclose tol (lnv / (2 * pi_ * eq_n * eq_k_pipe (2 * pi_) (fun _ => lnv) ro ri eq_n rp)) rp.
Eval vm_compute in (length cases, length (filter (fun c => negb (ok c)) cases)).
"""
        rc, out, err = chk.coq_eval("eqp", txt, timeout=600)
        m = re.search(r"=\s*\((\d+)(?:%nat)?,\s*(\d+)(?:%nat)?\)", " ".join(out.split()))
        if rc != 0 or not m:
            chk.broken.append({"name": "correspondence C15 did not evaluate", "detail": (err or out)[-400:]})
        else:
            if int(m.group(2)):
                chk.broken.append({"name": "correspondence C15: the regenerated equal-volume expressions differ from what to_single() produced", "detail": f"{m.group(2)} of {m.group(1)}"})
            chk.cov["traces_validated_against_impl"] = int(m.group(1)) - int(m.group(2))
            chk.cov["correspondence_cases"] = int(m.group(1))
    chk.cov["distinct_nontrivial"] = nontrivial
    chk.cov["rule"] = ("random geometries that fit (double U-tube parallel/series, coaxial, single U-tube), radii 50-120 mm, H 20-400 m, conductivities, three fluids, laminar to turbulent flows; "
                       "volumes, borehole resistance and the bracket status of the grout-conductivity solve recorded for each; non-trivial = one bulk property compared")
    chk.sample({"case": cases[0]})
    chk.cov["trusted_base"] = ["sqrt enters the theorems only through (sqrt y)^2 = y, ln is abstract; the multipole borehole resistance is pygfunction's",
                               "the 0.1 % clause is decided by computation; the theorems say exactly when the conductivity solve can promise a match (bracketed) and when it clamps"]
    return chk.finish()


def replay(payload):
    from lib import Check
    chk = Check("C15", "quick", payload.get("seed", 0))
    r = run_impl("pipe_drv.py", {"cases": [payload["input"]]})
    oracle(chk, payload["input"], r[0])
    for path, found, pl in chk.violations:
        print(f"VIOLATION property=C15 replay={path}")
    return 1 if chk.violations else 0
