"""C20 — per-borehole and system flow specifications are equivalent."""
import json, re
from fractions import Fraction as F
from lib import *

HEADER = """From Coq Require Import ZArith QArith List Bool.
From GHE Require Import Base.QUtil gen.Src.
Import ListNotations. Open Scope Q_scope.
"""


def run(chk):
    quick = chk.tier == "quick"
    chk.build("C20", extra=[])
    chk.model_ok = True if not chk.broken else getattr(chk, "model_ok", False)
    rng = chk.rng
    # ---- retrieve_flow (both classes) on 1..400 boreholes
    ns = list(range(1, 41)) + [50, 64, 100, 144, 255, 256, 399, 400] if quick else list(range(1, 401))
    cases = []
    for n in ns:
        for typ in ("BOREHOLE", "SYSTEM"):
            cases.append({"n": n, "type": typ, "v": rng.choice([0.2, 0.5, 0.31, 1.0, 6.3]), "rho": rng.choice([998.2, 1034.7, 1061.3, 965.0])})
    r = run_impl("ghe_drv.py", {"mode": "flow", "cases": cases}, timeout=600)
    if isinstance(r, dict) and "_error" in r:
        chk.broken.append({"name": "correspondence C20 (implementation driver failed)", "detail": r["_error"]})
        return chk.finish()
    chk.cov["evaluations"] += len(cases)
    nontrivial = 0
    for c, o in zip(cases, r):
        if not o.get("ok"):
            chk.broken.append({"name": "retrieve_flow raised", "detail": json.dumps(o)[:300]})
            continue
        (vs1, mb1), (vs2, mb2) = o["res"]
        if (vs1, mb1) != (vs2, mb2):
            chk.violation("flow", c, {"Bisection1D": [vs1, mb1], "RowWise": [vs2, mb2]}, "both search classes split the flow identically")
        want = c["v"] * c["rho"] / 1000.0 / (1 if c["type"] == "BOREHOLE" else c["n"])
        nontrivial += 1
        if abs(mb1 - want) > 1e-12 * want:
            chk.violation("flow", c, {"m_flow_borehole": mb1}, f"per-borehole mass flow = L/s x density / 1000 (/N for a system flow) = {want}")
    # ---- the functions regenerated from the source, in Coq
    if getattr(chk, "model_ok", False):
        items = []
        for c, o in zip(cases, r):
            if not o.get("ok"):
                continue
            vs, mb = o["res"][0]
            ft = "FlowConfigType_BOREHOLE" if c["type"] == "BOREHOLE" else "FlowConfigType_SYSTEM"
            items.append(f"({c['n']}%nat, {ft}, {q(c['v'])}, {q(c['rho'])}, {q(vs)}, {q(mb)})")
        txt = HEADER + "Definition cases : list (nat * FlowConfigType * Q * Q * Q * Q) := [\n" + ";\n".join(items) + """].
Definition tol : Q := 1 # 1000000000000.
Definition ok (c : nat * FlowConfigType * Q * Q * Q * Q) : bool :=
  let '(n, ft, v, rho, vs, mb) := c in
  match retrieve_flow (repeat (0, 0) n) rho ft v with Ok (a, b) => qclose tol a vs && qclose tol b mb | Err _ => false end.
Eval vm_compute in (length cases, length (filter (fun c => negb (ok c)) cases)).
"""
        rc, out, err = chk.coq_eval("flow", txt, timeout=600)
        m = re.search(r"=\s*\((\d+)%nat,\s*(\d+)%nat\)", " ".join(out.split()))
        if rc != 0 or not m:
            chk.broken.append({"name": "correspondence C20 did not evaluate", "detail": (err or out)[-400:]})
        else:
            if int(m.group(2)):
                chk.broken.append({"name": "translation validation: Src.retrieve_flow differs from the real retrieve_flow", "detail": f"{m.group(2)} of {m.group(1)}"})
            chk.cov["traces_validated_against_impl"] = int(m.group(1)) - int(m.group(2))
            chk.cov["correspondence_cases"] = int(m.group(1))
    # ---- paired real simulations: v per borehole vs N v for the system
    pairs = []
    pipes = ["SINGLEUTUBE", "DOUBLEUTUBEPARALLEL", "COAXIAL", "DOUBLEUTUBESERIES"]
    for k in range(4 if quick else 16):
        pairs.append({"nx": rng.choice([1, 2, 3]), "ny": rng.choice([1, 2, 3]), "months": 12, "v": rng.choice([0.2, 0.5, 0.35]), "pipe": pipes[k % 4],
                      "fluid": rng.choice(["water", "propyleneglycol"]), "conc": rng.choice([0.0, 20.0]) , "loads": {"kind": "balanced", "scale": 15000.0, "seed": k + 1}})
    for p in pairs:
        if p["fluid"] == "water":
            p["conc"] = 0.0
    from concurrent.futures import ThreadPoolExecutor
    with ThreadPoolExecutor(max_workers=NPROC) as ex:
        rs = list(ex.map(lambda c: run_impl("ghe_drv.py", {"mode": "pair", "cases": [c]}, timeout=900), pairs))
    for c, rr in zip(pairs, rs):
        if isinstance(rr, dict) and "_error" in rr:
            chk.broken.append({"name": "paired simulation failed in the harness", "detail": rr["_error"][-300:]})
            continue
        o = rr[0]
        if not o.get("ok"):
            chk.broken.append({"name": "paired simulation raised", "detail": json.dumps(o)[:400]})
            continue
        a, b = o["pair"]
        nontrivial += 1
        chk.cov["evaluations"] += 2
        for key, tol in (("m_flow", 1e-12), ("rb", 1e-9), ("max", 1e-9), ("min", 1e-9)):
            if abs(a[key] - b[key]) > tol * max(1.0, abs(a[key])):
                chk.violation("flow-pair", c, {"borehole_spec": a, "system_spec": b}, f"same {key} whether the flow is given per borehole (v) or for the system (N v)")
                break
        want = c["v"] * a["rho"] / 1000.0
        if abs(a["m_flow"] - want) > 1e-12 * want:
            chk.violation("flow-pair", c, {"m_flow": a["m_flow"]}, f"mass flow per borehole = v x rho / 1000 = {want}")
    # ---- whole designs through the manager with a SYSTEM flow, every design method: the mass flow per borehole of the returned
    #      design is V x rho / 1000 / N
    from configs import cfg
    methods = ["BIZONEDRECTANGLE", "NEARSQUARE", "ROWWISE"] if quick else ["BIZONEDRECTANGLE", "NEARSQUARE", "ROWWISE", "RECTANGLE", "BIRECTANGLE", "BIRECTANGLECONSTRAINED"]
    flows = {"BIZONEDRECTANGLE": 3.0, "NEARSQUARE": 3.5, "ROWWISE": 4.0, "RECTANGLE": 3.0, "BIRECTANGLE": 2.5, "BIRECTANGLECONSTRAINED": 3.0}
    dcfgs = [cfg(m, months=12, flow=("SYSTEM", flows[m])) for m in methods]
    # parallel double U-tubes (the summary reports the flow per borehole, not per tube)
    dcfgs.append(cfg("RECTANGLE", "DOUBLEUTUBEPARALLEL", months=12, flow=("BOREHOLE", 0.45)))
    dcfgs.append(cfg("NEARSQUARE", "DOUBLEUTUBEPARALLEL", months=12, flow=("SYSTEM", 3.2)))
    # set_design called a second time with the other flow specification and nothing else re-set
    rd = cfg("RECTANGLE", months=12, flow=("SYSTEM", 3.0))
    rd["_design_first_set_with"] = {"flow_type": "BOREHOLE", "flow_rate": 0.5}
    rd2 = cfg("NEARSQUARE", months=12, flow=("BOREHOLE", 0.4))
    rd2["_design_first_set_with"] = {"flow_type": "SYSTEM", "flow_rate": 3.5}
    dcfgs += [rd, rd2]
    # a SMALL system flow (a few boreholes in series with a small pump): below 1 L/s for the whole system
    dcfgs.append(cfg("NEARSQUARE", months=12, loads={"kind": "balanced", "scale": 14000.0, "seed": 3}, flow=("SYSTEM", 0.9)))
    if not quick:
        dcfgs.append(cfg("RECTANGLE", months=12, loads={"kind": "heating", "scale": 9000.0, "seed": 5}, flow=("SYSTEM", 0.55)))
    for er in e2e_runs(dcfgs):
        if not er.get("ok"):
            chk.broken.append({"name": "end-to-end run failed", "detail": json.dumps({k: er.get(k) for k in ("exc", "msg")})})
            continue
        chk.cov["evaluations"] += 1
        nontrivial += 1
        v = er["cfg"]["design"]["flow_rate"]
        want = (v / er["nbh"] if er["cfg"]["design"]["flow_type"] == "SYSTEM" else v) * er["fluid_rho"] / 1000.0
        # the value the written summary reports
        try:
            with open(os.path.join(er["outdir"], "SimulationSummary.json")) as fh:
                rep = json.load(fh)["ghe_system"]["fluid_mass_flow_rate_per_borehole"]["value"]
            if abs(rep - want) > 1e-9 * want:
                chk.violation("flow-design", er["cfg"], {"summary_reports_kg_per_s": rep, "boreholes": er["nbh"]}, f"SimulationSummary.json: mass flow per borehole = {want}")
        except (OSError, KeyError, TypeError) as ex_:
            chk.notes.append({"summary_not_read": str(ex_)})
        if abs(er["m_flow_borehole"] - want) > 1e-9 * want:
            chk.violation("flow-design", er["cfg"], {"boreholes": er["nbh"], "m_flow_borehole": er["m_flow_borehole"]},
                          f"{er['cfg']['design']['flow_type']} flow {v} L/s, {er['nbh']} boreholes: mass flow per borehole = {want}")
    chk.cov["distinct_nontrivial"] = nontrivial
    chk.cov["rule"] = ("retrieve_flow of both search classes on 1..400 boreholes (48 sizes in quick) x both flow types x fluids; paired real GHE simulations (borehole v vs system N v) over pipe types and fluids; whole designs through the manager with a system flow for each design method; "
                       "non-trivial = one flow split or one simulated pair")
    chk.sample({"flow_case": cases[3], "result": r[3]})
    chk.cov["trusted_base"] = ["borehole resistance and temperatures are functions of the mass flow computed by external code (pygfunction); equality is observed on paired real simulations"]
    return chk.finish()


def replay(payload):
    return "RERUN"      # vcheck re-runs this check with the recorded tier and seed and looks for the same violation
