"""searchchecks.py — the common body of the C05 / C02 / C01 checks."""
import json, os, sys
from fractions import Fraction as F
from lib import *
import searchcommon as sc
from configs import cfg, steep_cfg, rowwise_small_cfg

TOL = 1e-3     # sizing tolerance named by the properties


def cnt_of(c, o):
    """(count list of the list the selection was made in, evaluated indices at Hmax in that list, selected index)"""
    if c["kind"] == "1d":
        cnt = c["cnt"]
        ev = [int(k) for k in o.get("calc", {})]
        return cnt, ev, o["sel"], None
    li = o["sel_list"]
    cnt = c["nested"][li]
    segs = [s for s in o["segs"][1:] if s and s[0][0] == li]
    ev = []
    if segs:
        tr = segs[-1][:-1] if len(segs[-1]) > 3 else segs[-1]       # drop the stray last evaluation
        ev = sorted({p for l, p, h in tr if h == "Hmax"})
    return cnt, ev, o["sel_pos"], li


def escaped(c, o):
    """did the real search take a continue_if_design_unmet escape? (recomputed from the table, property-level)"""
    if not c["cont"]:
        return False
    if c["kind"] == "1d":
        tmin, tmax, cnt = c["tmin"], c["tmax"], c["cnt"]
    else:
        li = o["sel_list"]
        tmin, tmax, cnt = c["tmin"][li], c["tmax"][li], c["nested"][li]
    xr = len(cnt) - 1 if c["cap"] is None else max(i for i, x in enumerate(cnt) if x < c["cap"])
    a, b, m = tmin[0], tmax[0], tmax[xr]
    return (a < 0 and b < 0 and m < 0) or (a > 0 and b > 0 and m > 0)


def oracle_c05(chk, c, o):
    if not o["ok"] or sc.degenerate(c) or sc.has_ties(c, o) or escaped(c, o):
        return 0
    cnt, ev, sel, li = cnt_of(c, o)
    tmax = c["tmax"] if li is None else c["tmax"][li]
    if c["kind"] == "zd":
        if c["fam"] != "mono":
            return 0
        H = float(F(*o["H"]))
    else:
        H = sc.real_size(c, sel, li)
    n = 1
    # (a) root unless clamped
    exc = float(sc.e_lin(c, sel, F(H), li)) if c["kind"] != "zd" else None
    if exc is not None and float(sc.HMIN) < H < float(sc.HMAX) and abs(exc) > TOL:
        chk.violation("search-stub", sc.to_payload(c), {"sel": sel, "H": H, "excess": exc}, "unclamped height is a root of the excess within 1e-3")
    # (b) total drilling
    for j in ev:
        if tmax[j] < 0 and cnt[sel] * H > cnt[j] * float(sc.HMAX) + 1e-9:
            chk.violation("search-stub", sc.to_payload(c), {"sel": sel, "count": cnt[sel], "H": H, "evaluated_feasible": j, "its_count": cnt[j]},
                          "count*height of the selection <= count*Hmax of every evaluated feasible candidate")
            break
    # (c) predecessor evaluated and infeasible (strictly increasing counts, smallest fails, largest passes)
    if c["kind"] in ("1d", "2d"):
        strictly = all(a < b for a, b in zip(cnt, cnt[1:]))
        xr = len(cnt) - 1 if c["cap"] is None else max(i for i, x in enumerate(cnt) if x < c["cap"])
        tmin = c["tmin"] if li is None else c["tmin"][li]
        if strictly and tmax[0] > 0 and tmin[0] > 0 and tmax[xr] < 0 and xr <= 2 ** 15:
            n += 1
            if not (tmax[sel] < 0 and (sel - 1) in ev and tmax[sel - 1] > 0):
                chk.violation("search-stub", sc.to_payload(c), {"sel": sel, "evaluated": ev, "excess_prev": str(tmax[sel - 1])},
                              "the candidate just before the selected one was evaluated and fails at max height")
    return n


def oracle_c02(chk, c, o):
    if sc.degenerate(c):
        return 0
    if c["kind"] == "2d" and len(c["nested"]) + 1 > len(c["nested"][0]):
        return 0        # more lists than descriptors of the first list: examined separately on real domains (DESIGN C02)
    n = 1
    if not o["ok"]:
        if o["exc"] != "ValueError":
            chk.violation("search-stub", sc.to_payload(c), {"exception": o["exc"]}, "only ValueError may escape on valid non-degenerate input")
        return n
    cnt, ev, sel, li = cnt_of(c, o)
    if c["cap"] is not None and cnt[sel] > c["cap"]:
        chk.violation("search-stub", sc.to_payload(c), {"sel": sel, "count": cnt[sel], "cap": c["cap"]}, "borehole count never exceeds max_boreholes")
    if c["kind"] == "1d" and c["fam"] in ("A", "Acap", "D"):
        # monotone family: the policy is decided by the property text
        xr = len(cnt) - 1 if c["cap"] is None else max(i for i, x in enumerate(cnt) if x < c["cap"])
        tmin, tmax = c["tmin"], c["tmax"]
        n += 1
        if tmax[xr] > 0 and tmax[0] > 0 and tmin[0] > 0:
            want = (xr, "Hmax") if c["cont"] else "ValueError"
            got = (o["sel"], o["init"][1])
            if want != got:
                chk.violation("search-stub", sc.to_payload(c), {"got": got}, f"loads too large: {want}")
        elif tmax[0] < 0 and tmin[0] < 0 and tmax[xr] < 0:
            want = (0, "Hmin") if c["cont"] else "ValueError"
            got = (o["sel"], o["init"][1])
            if want != got:
                chk.violation("search-stub", sc.to_payload(c), {"got": got}, f"loads too small: {want}")
    elif c["kind"] == "1d" and not o["ok"]:
        pass
    if c["kind"] != "zd":
        H = sc.real_size(c, sel, li)
        if not (float(sc.HMIN) <= H <= float(sc.HMAX)):
            chk.violation("search-stub", sc.to_payload(c), {"H": H}, "min_height <= returned height <= max_height")
    return n


def oracle_c02_unmet(chk, c, o):
    """ValueError expected when nothing fits and the user did not ask to continue (monotone family)"""
    if sc.degenerate(c) or c["kind"] != "1d" or c["fam"] not in ("A", "Acap", "D") or c["cont"] or o["ok"]:
        return
    cnt = c["cnt"]
    xr = len(cnt) - 1 if c["cap"] is None else max(i for i, x in enumerate(cnt) if x < c["cap"])
    tmin, tmax = c["tmin"], c["tmax"]
    unmet = (tmax[xr] > 0 and tmax[0] > 0 and tmin[0] > 0) or (tmax[0] < 0 and tmin[0] < 0 and tmax[xr] < 0)
    if o["exc"] == "ValueError" and not unmet:
        chk.violation("search-stub", sc.to_payload(c), {"exception": "ValueError"}, "a design exists (some allowed candidate meets the limits): no error expected")


def oracle_c01(chk, c, o):
    if not o["ok"] or sc.degenerate(c) or escaped(c, o) or c["kind"] == "zd":
        return 0
    cnt, ev, sel, li = cnt_of(c, o)
    H = sc.real_size(c, sel, li)
    exc = float(sc.e_lin(c, sel, F(H), li))
    if exc > TOL:
        chk.violation("search-stub", sc.to_payload(c), {"sel": sel, "H": H, "excess": exc}, "excess at the returned height <= 1e-3")
    return 1


def run_search_check(chk, which, props_file, e2e_cfgs, e2e_oracle, extra=None):
    quick = chk.tier == "quick"
    chk.build(props_file, extra=["Model/Search", "Model/SearchCases"])
    rng = chk.rng
    cases = sc.gen1d(rng, chk.tier) + sc.gen_nested(rng, chk.tier, "2d") + sc.gen_nested(rng, chk.tier, "zd")
    outs, err = sc.run_python(cases)
    if outs is None:
        chk.broken.append({"name": "correspondence search (implementation driver failed)", "detail": err})
        return chk.finish()
    chk.cov["evaluations"] += len(cases)
    dist = {}
    for c, o in zip(cases, outs):
        key = f"{c['kind']}/{c['fam']}/{'ok' if o['ok'] else o['exc']}"
        dist[key] = dist.get(key, 0) + 1
    chk.cov["input_distribution"] = dist
    if getattr(chk, "model_ok", False):
        total, bad = sc.coq_compare(chk, cases, outs)
        chk.cov["traces_validated_against_impl"] = total - len(bad)
        chk.cov["correspondence_cases"] = total
        for i in bad[:3]:
            chk.notes.append({"mismatch_case": sc.to_payload(cases[i]), "implementation": outs[i]})
    # property oracle on the real search code with the stub oracle
    orc = {"C05": oracle_c05, "C02": oracle_c02, "C01": oracle_c01}[which]
    nontrivial = 0
    for c, o in zip(cases, outs):
        if len(chk.violations) >= 5:
            break
        nontrivial += orc(chk, c, o)
        if which == "C02":
            oracle_c02_unmet(chk, c, o)
    chk.cov["distinct_nontrivial"] = nontrivial
    chk.cov["rule"] = ("stub-oracle searches on the real Bisection1D/2D/ZD code: monotone thresholds at every position x both Hmin regimes x caps at every "
                       "count boundary, all sign patterns up to length 7 (quick) / 10, random tables with ties/zeros/duplicate counts/tiny max_iter, long lists; "
                       "non-trivial = non-degenerate case on which the property's oracle had something to check; distinct by construction of the enumeration")
    for c, o in list(zip(cases, outs))[:2]:
        chk.sample({"case": {k: (v if k not in ("tmin", "tmax", "drill") else "...") for k, v in sc.to_payload(c).items()},
                    "implementation": {k: o[k] for k in o if k in ("ok", "exc", "sel", "init", "trace")}})
    # end-to-end designs
    if e2e_cfgs:
        rs = e2e_runs(e2e_cfgs, with_series=False)
        for r in rs:
            chk.cov["evaluations"] += 1
            if r.get("exc") == "HarnessError":
                chk.broken.append({"name": "end-to-end run failed in the harness", "detail": r.get("msg")})
                continue
            e2e_oracle(chk, r)
        chk.cov["end_to_end_runs"] = len(rs)
        chk.cov["end_to_end_designs"] = [{"method": r["cfg"]["geometric_constraints"]["method"], "ok": r.get("ok"), "exc": r.get("exc"), "nbh": r.get("nbh"), "H": r.get("H"),
                                          "excess_at_H": r.get("resim_excess")} for r in rs]
    if extra is not None:
        extra(chk)
    chk.cov["trusted_base"] = ["section-free hypotheses visible in the theorem statements: brentq contract (returns a point of the bracket with |objective| <= eps), "
                               "agreement of the sizing objective with the search oracle at the bracket ends (both measured on every end-to-end run)",
                               "stub harness tools/impl/search_stub.py (object.__new__ + attribute injection on the real classes)"]
    return chk.finish(assumptions=["excess values are never exactly 0.0 (utilities.sign raises ZeroDivisionError) — stated as nz in the theorems",
                                   "two evaluated candidates never have exactly equal excess (C05_ties_refuted documents what happens otherwise)"])


def replay_common(chk, payload, which, e2e_oracle):
    """re-run one recorded failing input on the implementation"""
    kind = payload.get("kind")
    if kind == "search-stub":
        c = payload["input"]
        def unq(x):
            return F(int(x[0]), int(x[1]))
        if c["kind"] == "1d":
            c["tmin"] = [unq(x) for x in c["tmin"]]; c["tmax"] = [unq(x) for x in c["tmax"]]
        else:
            c["tmin"] = [[unq(x) for x in l] for l in c["tmin"]]; c["tmax"] = [[unq(x) for x in l] for l in c["tmax"]]
            c["drill"] = [[unq(x) for x in l] for l in c["drill"]]
        outs, err = sc.run_python([c])
        if outs is None:
            chk.broken.append({"name": "replay driver failed", "detail": err})
        else:
            {"C05": oracle_c05, "C02": oracle_c02, "C01": oracle_c01}[which](chk, c, outs[0])
            if which == "C02":
                oracle_c02_unmet(chk, c, outs[0])
    elif kind == "end-to-end":
        for r in e2e_runs([payload["input"]]):
            e2e_oracle(chk, r)
    else:
        print("replay: this record names a broken obligation; re-run the check itself")
        return 1
    chk.cov["evaluations"] = 1
    chk.cov["distinct_nontrivial"] = 2
    chk.cov["rule"] = "replay of one recorded input"
    for path, found, pl in chk.violations:
        print(f"VIOLATION property={chk.pid} replay={path}")
    import shutil
    shutil.rmtree(chk.scratch, ignore_errors=True)
    return 1 if chk.violations else 0
