"""searchchecks.py — the common body of the C05 / C02 / C01 checks."""
import json, os, sys
from fractions import Fraction as F
from lib import *
import searchcommon as sc
from configs import cfg, steep_cfg, rowwise_small_cfg

TOL = 1e-3     # sizing tolerance named by the properties


def cnt_of(c, o):
    """(count list of the list the selection was made in, evaluated indices at Hmax in that list, selected index)"""
    if c["kind"] == "1d":
        cnt = c["cnt"]
        ev = [int(k) for k in o.get("calc", {})]
        return cnt, ev, o["sel"], None
    li = o["sel_list"]
    cnt = c["nested"][li]
    segs = [s for s in o["segs"][1:] if s and s[0][0] == li]
    ev = []
    if segs:
        tr = segs[-1][:-1] if len(segs[-1]) > 3 else segs[-1]       # drop the stray last evaluation
        ev = sorted({p for l, p, h in tr if h == "Hmax"})
    return cnt, ev, o["sel_pos"], li


def escaped(c, o):
    """did the real search take a continue_if_design_unmet escape? (recomputed from the table, property-level)"""
    if not c["cont"]:
        return False
    if c["kind"] == "1d":
        tmin, tmax, cnt = c["tmin"], c["tmax"], c["cnt"]
    else:
        li = o["sel_list"]
        tmin, tmax, cnt = c["tmin"][li], c["tmax"][li], c["nested"][li]
    xr = len(cnt) - 1 if c["cap"] is None else max(i for i, x in enumerate(cnt) if x < c["cap"])
    a, b, m = tmin[0], tmax[0], tmax[xr]
    return (a < 0 and b < 0 and m < 0) or (a > 0 and b > 0 and m > 0)


def oracle_c05(chk, c, o):
    if not o["ok"] or sc.degenerate(c) or sc.has_ties(c, o) or escaped(c, o):
        return 0
    cnt, ev, sel, li = cnt_of(c, o)
    tmax = c["tmax"] if li is None else c["tmax"][li]
    if c["kind"] == "zd":
        if c["fam"] != "mono":
            return 0
        H = float(F(*o["H"]))
    else:
        H = sc.real_size(c, sel, li)
    n = 1
    # (a) root unless clamped
    exc = float(sc.e_lin(c, sel, F(H), li)) if c["kind"] != "zd" else None
    if exc is not None and float(sc.HMIN) < H < float(sc.HMAX) and abs(exc) > TOL:
        chk.violation("search-stub", sc.to_payload(c), {"sel": sel, "H": H, "excess": exc}, "unclamped height is a root of the excess within 1e-3")
    # (b) total drilling
    for j in ev:
        if tmax[j] < 0 and cnt[sel] * H > cnt[j] * float(sc.HMAX) + 1e-9:
            chk.violation("search-stub", sc.to_payload(c), {"sel": sel, "count": cnt[sel], "H": H, "evaluated_feasible": j, "its_count": cnt[j]},
                          "count*height of the selection <= count*Hmax of every evaluated feasible candidate")
            break
    # (c) predecessor evaluated and infeasible (strictly increasing counts, smallest fails, largest passes)
    if c["kind"] in ("1d", "2d"):
        strictly = all(a < b for a, b in zip(cnt, cnt[1:]))
        xr = len(cnt) - 1 if c["cap"] is None else max(i for i, x in enumerate(cnt) if x < c["cap"])
        tmin = c["tmin"] if li is None else c["tmin"][li]
        if strictly and tmax[0] > 0 and tmin[0] > 0 and tmax[xr] < 0 and xr <= 2 ** 15:
            n += 1
            if not (tmax[sel] < 0 and (sel - 1) in ev and tmax[sel - 1] > 0):
                chk.violation("search-stub", sc.to_payload(c), {"sel": sel, "evaluated": ev, "excess_prev": str(tmax[sel - 1])},
                              "the candidate just before the selected one was evaluated and fails at max height")
    return n


def oracle_c02(chk, c, o):
    if sc.degenerate(c):
        return 0
    if c["kind"] == "2d" and len(c["nested"]) + 1 > len(c["nested"][0]):
        return 0        # more lists than descriptors of the first list: examined separately on real domains (DESIGN C02)
    n = 1
    if not o["ok"]:
        if o["exc"] != "ValueError":
            chk.violation("search-stub", sc.to_payload(c), {"exception": o["exc"]}, "only ValueError may escape on valid non-degenerate input")
        return n
    cnt, ev, sel, li = cnt_of(c, o)
    if c["cap"] is not None and cnt[sel] > c["cap"]:
        chk.violation("search-stub", sc.to_payload(c), {"sel": sel, "count": cnt[sel], "cap": c["cap"]}, "borehole count never exceeds max_boreholes")
    if c["kind"] == "1d" and c["fam"] in ("A", "Acap", "D"):
        # monotone family: the policy is decided by the property text
        xr = len(cnt) - 1 if c["cap"] is None else max(i for i, x in enumerate(cnt) if x < c["cap"])
        tmin, tmax = c["tmin"], c["tmax"]
        n += 1
        if tmax[xr] > 0 and tmax[0] > 0 and tmin[0] > 0:
            want = (xr, "Hmax") if c["cont"] else "ValueError"
            got = (o["sel"], o["init"][1])
            if want != got:
                chk.violation("search-stub", sc.to_payload(c), {"got": got}, f"loads too large: {want}")
        elif tmax[0] < 0 and tmin[0] < 0 and tmax[xr] < 0:
            want = (0, "Hmin") if c["cont"] else "ValueError"
            got = (o["sel"], o["init"][1])
            if want != got:
                chk.violation("search-stub", sc.to_payload(c), {"got": got}, f"loads too small: {want}")
    elif c["kind"] == "1d" and not o["ok"]:
        pass
    if c["kind"] != "zd":
        H = sc.real_size(c, sel, li)
        if not (float(sc.HMIN) <= H <= float(sc.HMAX)):
            chk.violation("search-stub", sc.to_payload(c), {"H": H}, "min_height <= returned height <= max_height")
    return n


def oracle_c02_unmet(chk, c, o):
    """ValueError expected when nothing fits and the user did not ask to continue (monotone family)"""
    if sc.degenerate(c) or c["kind"] != "1d" or c["fam"] not in ("A", "Acap", "D") or c["cont"] or o["ok"]:
        return
    cnt = c["cnt"]
    xr = len(cnt) - 1 if c["cap"] is None else max(i for i, x in enumerate(cnt) if x < c["cap"])
    tmin, tmax = c["tmin"], c["tmax"]
    unmet = (tmax[xr] > 0 and tmax[0] > 0 and tmin[0] > 0) or (tmax[0] < 0 and tmin[0] < 0 and tmax[xr] < 0)
    if o["exc"] == "ValueError" and not unmet:
        chk.violation("search-stub", sc.to_payload(c), {"exception": "ValueError"}, "a design exists (some allowed candidate meets the limits): no error expected")


def oracle_c01(chk, c, o):
    if not o["ok"] or sc.degenerate(c) or escaped(c, o) or c["kind"] == "zd":
        return 0
    cnt, ev, sel, li = cnt_of(c, o)
    H = sc.real_size(c, sel, li)
    exc = float(sc.e_lin(c, sel, F(H), li))
    if exc > TOL:
        chk.violation("search-stub", sc.to_payload(c), {"sel": sel, "H": H, "excess": exc}, "excess at the returned height <= 1e-3")
    return 1


RW_HEADER = """From Coq Require Import ZArith QArith List Bool.
From GHE Require Import Base.QUtil Model.RowSearch.
Import ListNotations. Open Scope Q_scope.
Definition lookup (tbl : list (Q * (Q * nat * Q))) (s : Q) : Q * nat * Q :=
  match find (fun p => qeqb (fst p) s) tbl with Some p => snd p | None => (99, 2%nat, 1) end.
Definition mk (tbl : list (Q * (Q * nat * Q))) (single : Q) (need : Q) (noise : list Q) : oracles :=
  {| o_gen_excess := fun s => fst (fst (lookup tbl s)); o_gen_count := fun s => snd (fst (lookup tbl s)); o_gen_drill := fun s => snd (lookup tbl s);
     o_single := single; o_sub := fun k => need - natQ k + (1 # 2) + nth (Nat.modulo k (length noise)) noise 0 |}.
Definition probe_eqb (a b : probe) : bool :=
  match a, b with
  | PGen x, PGen y => qeqb x y
  | PSingle, PSingle => true
  | PSub k r, PSub k' r' => Nat.eqb k k' && Nat.eqb r r'
  | _, _ => false
  end.
Fixpoint list_eqb (a b : list probe) : bool :=
  match a, b with [] , [] => true | x :: a', y :: b' => probe_eqb x y && list_eqb a' b' | _, _ => false end.
Definition count_of (o : oracles) (p : probe) : nat := match p with PGen s => o_gen_count o s | PSingle => 1%nat | PSub k _ => k end.
(* expected: inl (spec, n, trace) or inr exception *)
Definition agrees (o : oracles) (st sp stp : Q) (cont : bool) (it : nat) (want : (probe * nat * list probe) + exn) : bool :=
  match rw_search true o st sp stp cont it, want with
  | Ok r, inl (spec, n, tr) => match rw_spec r with Some q => probe_eqb q spec | None => false end && probe_eqb (rw_sel r) spec
                               && Nat.eqb (count_of o (rw_sel r)) n && list_eqb (rw_trace r) tr
  | Err x, inr y => exn_eqb x y
  | _, _ => false
  end.
"""


def rowwise_decisions(chk):
    """the REAL RowWiseModifiedBisectionSearch.search with table oracles vs Model/RowSearch.rw_search, and the property read off the real outcome"""
    rng = chk.rng
    n = 60 if chk.tier == "quick" else 600
    cases = []
    for k in range(n):
        start = rng.choice([3.0, 4.0, 4.5, 5.0])
        stop = start + rng.choice([2.0, 4.0, 5.5, 6.0, 8.0])
        fam = k % 6
        b = rng.choice([0.5, 1.0, 2.0, 3.0])
        # family decides where the sign change sits: both infeasible / bracketed / both feasible (removal) / inverted
        if fam == 0:
            a = -b * start + rng.choice([0.5, 2.0, 9.0])
        elif fam in (1, 2):
            a = -b * rng.uniform(start, stop)
            a = round(a * 16) / 16
        elif fam in (3, 4):
            a = -b * stop - rng.choice([0.5, 3.0, 10.0])
        else:
            a, b = rng.choice([1.0, -1.0]) * 2.0, -b          # excess decreasing with spacing: the "issue calculating excess" branch
        noise = [rng.choice([0.0, 0.0, 0.25, -0.25, 0.5, -0.125, 1.0, -1.0]) for _ in range(rng.choice([1, 3, 5, 8]))]
        n0 = rng.choice([20, 40, 60, 120])
        cnt_stop = max(2, int(n0 / stop))
        need = rng.choice([1, 2, cnt_stop - 1, cnt_stop, cnt_stop + 1, max(2, cnt_stop // 2)])
        cases.append({"start": start, "stop": stop, "step": rng.choice([1.25, 2.5, 0.625]), "cont": rng.random() < 0.5, "max_iter": rng.choice([10, 10, 3, 6]),
                      "gen": {"a": a, "b": b, "n0": n0, "noise": noise}, "single": rng.choice([5.0, 0.5, -0.5, 0.0]),
                      "sub": {"need": need, "noise": [rng.choice([0.0, 0.0, 0.25, -0.75, 1.5]) for _ in range(rng.choice([1, 2, 5]))]}})
    res = run_impl("rowsearch_stub.py", {"cases": cases}, timeout=900)
    if isinstance(res, dict) and "_error" in res:
        chk.broken.append({"name": "correspondence RowWise search (implementation driver failed)", "detail": res["_error"][-400:]})
        return
    chk.cov["evaluations"] += len(cases)
    dist = chk.cov.setdefault("input_distribution", {})
    items = []

    def probe(spec, cnt_stop):
        if spec == "1X1":
            return "PSingle"
        if "_BR" in spec:
            r = int(spec.split("_BR")[1])
            return f"(PSub {cnt_stop - r}%nat {r}%nat)"
        nu, de = spec[1:].split("/")
        return f"(PGen ({nu} # {de}))"
    for c, o in zip(cases, res):
        tbl = {tuple(t["spacing"]): t for t in o["table"]}
        cnt_stop = tbl[(Fraction(c["stop"]).numerator, Fraction(c["stop"]).denominator)]["count"]
        if o["ok"] and not o["none"] and o["spec"] is None:
            dist["rowwise/no-specifier"] = dist.get("rowwise/no-specifier", 0) + 1
            if chk.pid != "C01":
                chk.violation("rowwise-stub", dict(c), {"specifier": None, "boreholes_returned": o["n"]}, "the returned specifier names the returned field")
            items.append("false")
            continue
        kind = "exc:" + o["exc"] if not o["ok"] else ("none" if o["none"] else ("single" if o["spec"] == "1X1" else "removal" if "_BR" in o["spec"] else "generated"))
        dist["rowwise/" + kind] = dist.get("rowwise/" + kind, 0) + 1
        pub = dict(c)
        # ---- the property on the real outcome (each check judges its own clauses; the correspondence below is shared)
        if chk.pid == "C01":
            if o["ok"] and not o["none"] and o["spec"] is not None:
                sp = o["spec"]
                esc = c["cont"] and tbl[(Fraction(c["start"]).numerator, Fraction(c["start"]).denominator)]["excess"] > 0 and \
                    tbl[(Fraction(c["stop"]).numerator, Fraction(c["stop"]).denominator)]["excess"] > 0
                if sp == "1X1":
                    exc = c["single"]
                elif "_BR" in sp:
                    k_ = o["n"]
                    exc = (c["sub"]["need"] - k_) + 0.5 + c["sub"]["noise"][k_ % len(c["sub"]["noise"])]
                else:
                    exc = tbl[tuple(int(v) for v in sp[1:].split("/"))]["excess"]
                if not esc and exc > 0 and len(chk.violations) < 6:
                    chk.violation("rowwise-stub", pub, {"selected": sp, "its_excess_at_max_height": exc}, "the field a RowWise search selects meets the limits at maximum height (unless it escapes through continue_if_design_unmet)")
        elif not o["ok"] and o["exc"] != "ValueError":
            len(chk.violations) < 6 and chk.violation("rowwise-stub", pub, {"exception": o["exc"], "msg": o.get("msg")}, "a RowWise search ends with a design or a ValueError; no other exception type escapes")
        if chk.pid != "C01" and o["ok"] and o["none"]:
            chk.violation("rowwise-stub", pub, {"returned": None}, "a RowWise search that does not raise returns a field")
        t_up = tbl[(Fraction(c["start"]).numerator, Fraction(c["start"]).denominator)]["excess"]
        t_lo = tbl[(Fraction(c["stop"]).numerator, Fraction(c["stop"]).denominator)]["excess"]
        if chk.pid != "C01" and not o["ok"] and o["exc"] == "ValueError" and not (t_up > 0 and t_lo > 0 and not c["cont"]) and not (t_up >= 0 >= t_lo or t_up == 0 or t_lo == 0):
            chk.violation("rowwise-stub", pub, {"exception": "ValueError", "t_upper": t_up, "t_lower": t_lo}, "ValueError only when no generated field meets the limits (or the excess is not usable)")
        if chk.pid != "C01" and o["ok"] and not o["none"]:
            # the specifier names the field that is returned: its borehole count is the one of the named field
            sp = o["spec"]
            want_n = 1 if sp == "1X1" else (cnt_stop - int(sp.split("_BR")[1]) if "_BR" in sp else tbl[tuple(int(v) for v in sp[1:].split("/"))]["count"])
            if want_n != o["n"]:
                chk.violation("rowwise-stub", pub, {"specifier": sp, "boreholes_returned": o["n"], "boreholes_of_the_named_field": want_n}, "the returned specifier names the returned field")
        # ---- the model's prediction
        want = (f"(inl ({probe(o['spec'], cnt_stop)}, {o['n']}%nat, [{'; '.join(probe(t, cnt_stop) for t in o['trace'])}]))" if o["ok"] and not o["none"]
                else f"(inr {('TypeError' if (o['ok'] and o['none']) else o['exc'] if o['exc'] in ('ValueError', 'TypeError', 'IndexError', 'ZeroDivisionError') else 'OutOfFuel')})")
        tb = "[" + "; ".join(f"({q(Fraction(*t['spacing']))}, ({q(t['excess'])}, {t['count']}%nat, {q(t['drill'])}))" for t in o["table"]) + "]"
        items.append(f"agrees (mk {tb} {q(c['single'])} {q(c['sub']['need'])} {qlist(c['sub']['noise'])}) {q(c['start'])} {q(c['stop'])} {q(c['step'])} {coq_bool(c['cont'])} {c['max_iter']}%nat {want}")
    if getattr(chk, "model_ok", False) and items:
        files = []
        for k in range(0, len(items), 100):
            part = items[k:k + 100]
            files.append((f"rws_{k // 100}", RW_HEADER + "Definition rs : list bool := [\n" + ";\n".join(part) + "].\nEval vm_compute in (length rs, length (filter negb rs)).\n"))
        tot = bad = 0
        for name, rc, out, err in chk.coq_eval_many(files, timeout=600):
            m = re.search(r"=\s*\((\d+)(?:%nat)?,\s*(\d+)(?:%nat)?\)", " ".join(out.split()))
            if rc != 0 or not m:
                chk.broken.append({"name": "correspondence RowWise search did not evaluate", "detail": (err or out)[-400:]})
                continue
            tot += int(m.group(1)); bad += int(m.group(2))
        if bad:
            chk.broken.append({"name": "correspondence RowWise: Model/RowSearch.rw_search differs from the real RowWiseModifiedBisectionSearch.search (selection / specifier / evaluated fields / exception)",
                               "detail": f"{bad} of {tot} stub-oracle searches"})
        chk.cov["traces_validated_against_impl"] = chk.cov.get("traces_validated_against_impl", 0) + tot - bad
        chk.cov["correspondence_cases"] = chk.cov.get("correspondence_cases", 0) + tot



def design_level_search(chk, which="C05"):
    """the real Design*.find_design reached through the manager (design class, search constructor, search) with only the field simulation
    replaced by a synthetic excess, strictly decreasing in the borehole count: candidate lists of 80-200 fields, a threshold at many
    positions.  The selected field is the FIRST candidate that meets the limits at maximum height; what the search works with (height
    window, borehole cap, policy) is what was requested."""
    rng = chk.rng
    quick = chk.tier == "quick"
    geoms = [("NEARSQUARE", {"length": 200, "b": 5.0}), ("RECTANGLE", {"length": 150, "width": 90, "b_min": 3.0, "b_max": 10.0}), ("NEARSQUARE", {"length": 300, "b": 6.096})]
    if not quick:
        geoms += [("NEARSQUARE", {"length": 155, "b": 5.0}), ("RECTANGLE", {"length": 240, "width": 60, "b_min": 4.0, "b_max": 12.0}), ("NEARSQUARE", {"length": 487.5, "b": 4.875})]
    cases = []
    for gname, go in geoms:
        for variant in (({}, ) if quick else ({}, {"continue_if_design_unmet": True})):
            cases.append({"cfg": cfg(gname, months=12, geom_over=go, design=dict(variant)), "thresholds": None})
    # first pass: candidate counts (thresholds need them)
    probe = run_impl("design_stub.py", {"cases": [{"cfg": c["cfg"], "thresholds": []} for c in cases]}, timeout=900)
    if isinstance(probe, dict) and "_error" in probe:
        chk.broken.append({"name": "design-level search harness failed", "detail": probe["_error"][-300:]})
        return
    jobs = []
    for c, pr in zip(cases, probe):
        if not pr.get("ok"):
            chk.broken.append({"name": "design-level search harness failed", "detail": json.dumps(pr)[-300:]})
            continue
        counts = pr["counts"]
        n = len(counts)
        ks = sorted(set([0, 1, 2, n - 1, n - 2] + rng.sample(range(n), min(n, 14 if quick else 40))))
        c["thresholds"] = [counts[k] + 0.25 for k in ks] + [counts[-1] + 7.25, 0.4]
        c["_counts"] = counts
        jobs.append(c)
        # with a cap somewhere in the list
        k = rng.randrange(n // 3, n - 2)
        capc = json.loads(json.dumps(c["cfg"]))
        capc["design"]["max_boreholes"] = counts[k] + 1
        jobs.append({"cfg": capc, "thresholds": [counts[j] + 0.25 for j in sorted(set([1, k - 1, k, k + 1, n - 1] + rng.sample(range(n), 5)))], "_counts": counts})
    from concurrent.futures import ThreadPoolExecutor
    with ThreadPoolExecutor(max_workers=NPROC) as ex:
        rs = list(ex.map(lambda c: run_impl("design_stub.py", {"cases": [{"cfg": c["cfg"], "thresholds": c["thresholds"]}]}, timeout=1500), jobs))
    nn = 0
    for c, rr in zip(jobs, rs):
        if isinstance(rr, dict) and "_error" in rr:
            chk.broken.append({"name": "design-level search harness failed", "detail": rr["_error"][-300:]})
            continue
        o = rr[0]
        if not o.get("ok"):
            chk.broken.append({"name": "design-level search harness failed", "detail": json.dumps(o)[-300:]})
            continue
        counts = o["counts"]
        gc, dz = c["cfg"]["geometric_constraints"], c["cfg"]["design"]
        cap, cont = dz.get("max_boreholes"), dz.get("continue_if_design_unmet", False)
        allowed = [x for x in counts if cap is None or x < cap]
        for run in o["runs"]:
            chk.cov["evaluations"] += 1
            nn += 1
            t = run["t"]
            pub = {"geometric_constraints": gc, "design": dz, "candidate_counts": f"{len(counts)} fields, {counts[0]}..{counts[-1]} boreholes",
                   "synthetic_excess": f"{t} - boreholes - (h - hmin)/(hmax - hmin)/2"}
            if len(chk.violations) >= 5:
                break
            feas = [x for x in allowed if t - x - 0.5 < 0]
            too_small = t - allowed[0] < 0
            if run["ok"]:
                if run["search_limits"] != [gc["min_height"], gc["max_height"]] or run["cap"] != cap or bool(run["cont"]) != bool(cont):
                    chk.violation("design-stub", pub, {"search_works_with": {"heights": run["search_limits"], "max_boreholes": run["cap"], "continue": run["cont"]}},
                                  "the search works with the requested height window, borehole cap and unmet-design policy")
                    continue
                if too_small or not feas:
                    want = allowed[0] if too_small else allowed[-1]
                    if not cont or run["selected_n"] != want:
                        chk.violation("design-stub", pub, {"selected_boreholes": run["selected_n"], "expected": want if cont else "ValueError"},
                                      "no candidate brackets the limits: an error, or with the continue flag the smallest / largest allowed candidate")
                    continue
                if which == "C02":
                    if cap is not None and run["selected_n"] >= cap + 0 and run["selected_n"] > cap:
                        chk.violation("design-stub", pub, {"selected_boreholes": run["selected_n"]}, f"at most max_boreholes={cap}")
                    continue
                if run["selected_n"] != feas[0]:
                    pred_evaluated = any(e[0] == max([x for x in allowed if x < run["selected_n"]], default=-1) for e in run["evaluated"])
                    chk.violation("design-stub", pub, {"selected_boreholes": run["selected_n"], "first_candidate_meeting_the_limits_at_max_height": feas[0],
                                                       "candidate_before_the_selected_one_was_evaluated": pred_evaluated, "iteration_cap_of_the_search": run.get("max_iter")},
                                  "the first feasible candidate is selected (the candidate immediately preceding it was evaluated and fails at maximum height)")
            else:
                if run["exc"] != "ValueError":
                    chk.violation("design-stub", pub, {"exception": run["exc"], "msg": run.get("msg")}, "a search ends with a design or a ValueError")
                elif feas and not too_small:
                    chk.violation("design-stub", pub, {"exception": "ValueError", "msg": run.get("msg"), "first_feasible": feas[0]}, "a candidate meets the limits: the search returns it")
                elif cont:
                    chk.violation("design-stub", pub, {"exception": "ValueError", "msg": run.get("msg")}, "with continue_if_design_unmet the unmet design is returned, not an error")
    chk.cov["design_level_searches"] = nn




def run_search_check(chk, which, props_file, e2e_cfgs, e2e_oracle, extra=None, extra_models=()):
    quick = chk.tier == "quick"
    chk.build(props_file, extra=["Model/Search", "Model/SearchCases"] + list(extra_models))
    rng = chk.rng
    cases = sc.gen1d(rng, chk.tier) + sc.gen_nested(rng, chk.tier, "2d") + sc.gen_nested(rng, chk.tier, "zd")
    outs, err = sc.run_python(cases)
    if outs is None:
        chk.broken.append({"name": "correspondence search (implementation driver failed)", "detail": err})
        return chk.finish()
    chk.cov["evaluations"] += len(cases)
    dist = {}
    for c, o in zip(cases, outs):
        key = f"{c['kind']}/{c['fam']}/{'ok' if o['ok'] else o['exc']}"
        dist[key] = dist.get(key, 0) + 1
    chk.cov["input_distribution"] = dist
    if getattr(chk, "model_ok", False):
        total, bad = sc.coq_compare(chk, cases, outs)
        chk.cov["traces_validated_against_impl"] = total - len(bad)
        chk.cov["correspondence_cases"] = total
        for i in bad[:3]:
            chk.notes.append({"mismatch_case": sc.to_payload(cases[i]), "implementation": outs[i]})
    # property oracle on the real search code with the stub oracle
    orc = {"C05": oracle_c05, "C02": oracle_c02, "C01": oracle_c01}[which]
    nontrivial = 0
    for c, o in zip(cases, outs):
        if len(chk.violations) >= 5:
            break
        nontrivial += orc(chk, c, o)
        if which == "C02":
            oracle_c02_unmet(chk, c, o)
    chk.cov["distinct_nontrivial"] = nontrivial
    chk.cov["rule"] = ("stub-oracle searches on the real Bisection1D/2D/ZD code: monotone thresholds at every position x both Hmin regimes x caps at every "
                       "count boundary, all sign patterns up to length 7 (quick) / 10, random tables with ties/zeros/duplicate counts/tiny max_iter, long lists; "
                       "non-trivial = non-degenerate case on which the property's oracle had something to check; distinct by construction of the enumeration")
    for c, o in list(zip(cases, outs))[:2]:
        chk.sample({"case": {k: (v if k not in ("tmin", "tmax", "drill") else "...") for k, v in sc.to_payload(c).items()},
                    "implementation": {k: o[k] for k in o if k in ("ok", "exc", "sel", "init", "trace")}})
    # end-to-end designs
    if e2e_cfgs:
        rs = e2e_runs(e2e_cfgs, with_series=False)
        for r in rs:
            chk.cov["evaluations"] += 1
            if r.get("exc") == "HarnessError":
                chk.broken.append({"name": "end-to-end run failed in the harness", "detail": r.get("msg")})
                continue
            e2e_oracle(chk, r)
        chk.cov["end_to_end_runs"] = len(rs)
        chk.cov["end_to_end_designs"] = [{"method": r["cfg"]["geometric_constraints"]["method"], "ok": r.get("ok"), "exc": r.get("exc"), "nbh": r.get("nbh"), "H": r.get("H"),
                                          "excess_at_H": r.get("resim_excess")} for r in rs]
    if extra is not None:
        extra(chk)
    chk.cov["trusted_base"] = ["section-free hypotheses visible in the theorem statements: brentq contract (returns a point of the bracket with |objective| <= eps), "
                               "agreement of the sizing objective with the search oracle at the bracket ends (both measured on every end-to-end run)",
                               "stub harness tools/impl/search_stub.py (object.__new__ + attribute injection on the real classes)"]
    return chk.finish(assumptions=["excess values are never exactly 0.0 (utilities.sign raises ZeroDivisionError) — stated as nz in the theorems",
                                   "two evaluated candidates never have exactly equal excess (C05_ties_refuted documents what happens otherwise)"])


def replay_common(chk, payload, which, e2e_oracle):
    """re-run one recorded failing input on the implementation"""
    kind = payload.get("kind")
    if kind == "search-stub":
        c = payload["input"]
        def unq(x):
            return F(int(x[0]), int(x[1]))
        if c["kind"] == "1d":
            c["tmin"] = [unq(x) for x in c["tmin"]]; c["tmax"] = [unq(x) for x in c["tmax"]]
        else:
            c["tmin"] = [[unq(x) for x in l] for l in c["tmin"]]; c["tmax"] = [[unq(x) for x in l] for l in c["tmax"]]
            c["drill"] = [[unq(x) for x in l] for l in c["drill"]]
        outs, err = sc.run_python([c])
        if outs is None:
            chk.broken.append({"name": "replay driver failed", "detail": err})
        else:
            {"C05": oracle_c05, "C02": oracle_c02, "C01": oracle_c01}[which](chk, c, outs[0])
            if which == "C02":
                oracle_c02_unmet(chk, c, outs[0])
    elif kind == "end-to-end":
        for r in e2e_runs([payload["input"]]):
            e2e_oracle(chk, r)
    else:
        return "RERUN"      # vcheck re-runs the check with the recorded tier and seed and looks for the same violation
    chk.cov["evaluations"] = 1
    chk.cov["distinct_nontrivial"] = 2
    chk.cov["rule"] = "replay of one recorded input"
    for path, found, pl in chk.violations:
        print(f"VIOLATION property={chk.pid} replay={path}")
    import shutil
    shutil.rmtree(chk.scratch, ignore_errors=True)
    return 1 if chk.violations else 0
