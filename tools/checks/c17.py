"""C17 — input files written by the tool are schema-valid and round-trip."""
import copy, json, re
from lib import *
from configs import cfg, GEOMS, PIPES

HEADER = """From Coq Require Import ZArith String List Bool.
From GHE Require Import Base.QUtil gen.Src Model.InputIO.
Import ListNotations. Open Scope string_scope.
"""
GNAME = {"NEARSQUARE": "GNearSquare", "RECTANGLE": "GRectangle", "BIRECTANGLE": "GBiRectangle", "BIZONEDRECTANGLE": "GBiZoned",
         "BIRECTANGLECONSTRAINED": "GConstrained", "ROWWISE": "GRowWise"}
PNAME = {"SINGLEUTUBE": "PSingle", "DOUBLEUTUBEPARALLEL": "PDoubleParallel", "DOUBLEUTUBESERIES": "PDoubleSeries", "COAXIAL": "PCoaxial"}


def gen_cases(rng, tier):
    cs = []
    for g in GEOMS:
        for p in PIPES:
            for mb in (None, rng.randrange(5, 60)):
                for cont in (False, True):
                    c = cfg(g, p, months=rng.choice([12, 24, 36, 240]), loads={"kind": "balanced", "scale": 1000.0, "seed": 1})
                    # values drawn inside the schema ranges
                    c["fluid"] = rng.choice([{"fluid_name": "WATER", "concentration_percent": 0.0, "temperature": 20},
                                             {"fluid_name": "PROPYLENEGLYCOL", "concentration_percent": rng.choice([10.0, 25.5]), "temperature": rng.choice([5, 20.5])},
                                             {"fluid_name": "ETHYLENEGLYCOL", "concentration_percent": 30.0, "temperature": 10},
                                             {"fluid_name": "METHYLALCOHOL", "concentration_percent": rng.choice([15.0, 22.5]), "temperature": rng.choice([5, 12.5])},
                                             {"fluid_name": "ETHYLALCOHOL", "concentration_percent": 20.0, "temperature": 8}])
                    c["soil"]["conductivity"] = rng.choice([1.1, 2.0, 3.456])
                    c["soil"]["undisturbed_temp"] = rng.choice([8.5, 18.3])
                    c["grout"]["conductivity"] = rng.choice([0.7, 1.0, 2.15])
                    c["borehole"]["buried_depth"] = rng.choice([0.5, 2.0, 4.0])
                    c["design"]["flow_rate"] = rng.choice([0.2, 0.5, 1.3])
                    c["design"]["min_eft"] = rng.choice([5.0, 0.0, -1.1, -3.5])            # antifreeze mixtures run below 0 C
                    c["design"]["max_eft"] = rng.choice([35.0, 30.0, 40.5])
                    if p == "COAXIAL":
                        c["pipe"]["conductivity_inner"] = rng.choice([0.4, 0.1, 0.25])
                        c["pipe"]["conductivity_outer"] = rng.choice([0.4, 0.6, 1.5])
                    c["design"]["flow_type"] = rng.choice(["BOREHOLE", "SYSTEM"])
                    if mb is not None:
                        c["design"]["max_boreholes"] = mb
                    if cont:
                        c["design"]["continue_if_design_unmet"] = True
                    if g == "ROWWISE":
                        gc = c["geometric_constraints"]
                        gc["max_rotation"] = rng.choice([0.0, 10.0, 33.3, 90.0, -12.7])
                        gc["min_rotation"] = rng.choice([-90.0, -10.0, -0.1, -45.5])
                        if rng.random() < 0.5:
                            gc.pop("perimeter_spacing_ratio")
                    cs.append(c)
    if tier == "quick":
        rng.shuffle(cs)
        keep, seen = [], set()
        for c in cs:           # one of each (geometry, pipe) + all rowwise variants
            k = (c["geometric_constraints"]["method"], c["pipe"]["arrangement"])
            if k not in seen or c["geometric_constraints"]["method"] == "ROWWISE":
                seen.add(k)
                keep.append(c)
        cs = keep
    # every fluid the API accepts, by name (the quick selection above may not draw them all)
    for fl, pc, t in (("WATER", 0.0, 12), ("PROPYLENEGLYCOL", 20.0, 6), ("ETHYLENEGLYCOL", 25.0, 4), ("METHYLALCOHOL", 18.0, 3), ("ETHYLALCOHOL", 22.0, 7)):
        c = cfg(months=12, loads={"kind": "balanced", "scale": 1000.0, "seed": 1})
        c["fluid"] = {"fluid_name": fl if rng.random() < 0.5 else fl.capitalize(), "concentration_percent": pc, "temperature": t}
        cs.append(c)
    # several years of hourly loads (the API accepts them): the written file must validate and load like any other
    my = cfg("RECTANGLE", months=24, loads={"kind": "balanced", "scale": 1000.0, "seed": 2})
    my["_years_of_loads"] = 2
    cs.append(my)
    # rotations on the 0.1 degree grid (deg -> rad -> deg must be the identity on the written file)
    rots = [round(-90 + 0.1 * k, 1) for k in range(0, 1801, 1 if tier != "quick" else 37)]
    for r in rots:
        c = cfg("ROWWISE", months=12, loads={"kind": "balanced", "scale": 1000.0, "seed": 1})
        c["geometric_constraints"]["max_rotation"] = r
        c["geometric_constraints"]["min_rotation"] = -r
        c["_rot"] = True
        cs.append(c)
    return cs


def run(chk):
    quick = chk.tier == "quick"
    chk.build("C17", extra=["Model/InputIO"])
    rng = chk.rng
    cases = gen_cases(rng, chk.tier)
    pub = [{k: v for k, v in c.items() if not k.startswith("_") or k == "_years_of_loads"} for c in cases]
    from concurrent.futures import ThreadPoolExecutor
    parts = [pub[i:i + 8] for i in range(0, len(pub), 8)]
    with ThreadPoolExecutor(max_workers=NPROC) as ex:
        rs = list(ex.map(lambda part: run_impl("io_drv.py", {"cases": part}, timeout=900), parts))
    outs = []
    for r in rs:
        if isinstance(r, dict) and "_error" in r:
            chk.broken.append({"name": "correspondence C17 (implementation driver failed)", "detail": r["_error"][-300:]})
            return chk.finish()
        outs += r
    chk.cov["evaluations"] += len(cases)
    # listed findings re-run on their exact input
    for kf in chk.open_findings("input-file"):
        r = run_impl("io_drv.py", {"cases": [kf["input"]]})
        if not (isinstance(r, dict) and "_error" in r):
            judge(chk, kf["input"], r[0])
    nontrivial = 0
    items = []
    for c, o in zip(pub, outs):
        if len(chk.violations) < 5:
            nontrivial += judge(chk, c, o)
        if o.get("ok"):
            gc, dz = c["geometric_constraints"], c["design"]
            sh = (f"{{| s_geom := {GNAME[gc['method']]}; s_pipe := {PNAME[c['pipe']['arrangement']]}; s_max_boreholes := {coq_bool('max_boreholes' in dz)}; "
                  f"s_continue := {coq_bool(dz.get('continue_if_design_unmet', False))}; s_perimeter := {coq_bool('perimeter_spacing_ratio' in gc)} |}}")

            def sl(xs):
                return "[" + "; ".join('"' + x + '"' for x in xs) + "]"
            items.append(f"({sh}, {sl(o['keys']['geometric_constraints'])}, {sl(o['keys']['design'])}, {sl(o['keys']['pipe'])})")
    if getattr(chk, "model_ok", False) and items:
        items = list(dict.fromkeys(items))
        txt = HEADER + "Definition cases : list (shape * list string * list string * list string) := [\n" + ";\n".join(items) + """].
Definition same (a b : list string) : bool := subset a b && subset b a.
Definition ok (c : shape * list string * list string * list string) : bool :=
  let '(s, g, d, p) := c in same (written_geom s) g && same (written_design s) d && same (written_pipe s) p.
Eval vm_compute in (length cases, length (filter (fun c => negb (ok c)) cases)).
"""
        rc, out, err = chk.coq_eval("io", txt)
        m = re.search(r"=\s*\((\d+)(?:%nat)?,\s*(\d+)(?:%nat)?\)", " ".join(out.split()))
        if rc != 0 or not m:
            chk.broken.append({"name": "correspondence C17 did not evaluate", "detail": (err or out)[-400:]})
        else:
            if int(m.group(2)):
                chk.broken.append({"name": "correspondence C17: the key sets of Model/InputIO (regenerated) differ from what write_input_file wrote", "detail": f"{m.group(2)} of {m.group(1)} shapes"})
            chk.cov["traces_validated_against_impl"] = int(m.group(1)) - int(m.group(2))
            chk.cov["correspondence_cases"] = int(m.group(1))
    # running the written file produces the same design: the API's design against the command-line run of the file the API wrote
    if len(chk.violations) < 5:
        dcs = []
        for fl, pc, t in [("METHYLALCOHOL", 18.0, 3), ("PROPYLENEGLYCOL", 20.0, 6)] + ([] if quick else [("WATER", 0.0, 12), ("ETHYLENEGLYCOL", 25.0, 4), ("ETHYLALCOHOL", 22.0, 7)]):
            c = cfg(months=12, loads={"kind": "balanced", "scale": 24000.0, "seed": 4}, design={"min_eft": -2.0})
            c["fluid"] = {"fluid_name": fl, "concentration_percent": pc, "temperature": t}
            dcs.append(c)
        dcs.append(cfg("RECTANGLE", "COAXIAL", months=12, loads={"kind": "cooling", "scale": 20000.0, "seed": 6}, flow=("SYSTEM", 3.0)))
        dcs[-1]["pipe"].update({"conductivity_inner": 0.15, "conductivity_outer": 0.9})
        if not quick:
            dcs.append(cfg("BIRECTANGLECONSTRAINED", "DOUBLEUTUBESERIES", months=12, loads={"kind": "heating", "scale": 22000.0, "seed": 8}))
            dcs.append(cfg("ROWWISE", months=12, loads={"kind": "balanced", "scale": 22000.0, "seed": 9}))
        with ThreadPoolExecutor(max_workers=NPROC) as ex:
            drs = list(ex.map(lambda c: run_impl("io_drv.py", {"mode": "same_design", "cases": [c]}, timeout=2400), dcs))
        for c, rr in zip(dcs, drs):
            if isinstance(rr, dict) and "_error" in rr:
                chk.broken.append({"name": "C17 same-design run failed in the harness", "detail": rr["_error"][-300:]})
                continue
            o = rr[0]
            chk.cov["evaluations"] += 1
            if not o.get("ok"):
                chk.broken.append({"name": "C17 same-design run failed", "detail": json.dumps(o)[-300:]})
                continue
            nontrivial += 1
            a, b = o["api"], o["cli"]
            if "exc" in a:
                if b["rc"] == 0 and len(chk.violations) < 5:
                    chk.violation("same-design", c, {"api": a, "command_line": b}, "running the written file produces the same outcome as the API run (here: no design)")
                continue
            bad = b["rc"] != 0 or b.get("nbh") != a["nbh"] or abs(b["H"] - a["H"]) > 1e-6 or abs(b["max"] - a["max"]) > 1e-6 or abs(b["min"] - a["min"]) > 1e-6 \
                or abs(b["rho"] - a["rho"]) > 1e-9 * a["rho"]
            if bad and len(chk.violations) < 5:
                chk.violation("same-design", c, {"api": a, "command_line_run_of_the_written_file": b}, "running the written file produces the same design as the API configuration it was written from")
    chk.cov["distinct_nontrivial"] = nontrivial
    chk.cov["rule"] = ("configurations over 6 geometries x 4 pipe types x optional keys (max_boreholes, continue_if_design_unmet, perimeter ratio) with values inside the schema ranges, plus RowWise "
                       "rotations on the 0.1 degree grid; each written, validated with the tool's schemas, loaded through the CLI loading path and written again (bytes compared); non-trivial = one configuration")
    chk.sample({"case": {k: v for k, v in pub[0].items() if k != "loads"}})
    chk.cov["trusted_base"] = ["values (types, ranges, enum strings) are checked by the tool's own jsonschema validation on every case, not by a theorem"]
    return chk.finish(assumptions=["byte-level idempotence of deg->rad->deg in doubles is observed on the 0.1 degree grid, not proved"])


def judge(chk, c, o):
    if not o.get("ok"):
        chk.violation("input-file", c, {"exception": o.get("exc"), "msg": o.get("msg")}, "an accepted configuration can be written to an input file")
        return 0
    if o["validate_errors"] != 0:
        chk.violation("input-file", c, {"validate_errors": o["validate_errors"], "stderr": o["validate_msg"], "null_values": o["nulls"]},
                      "the written input file validates against the tool's own schemas")
        return 1
    if o.get("written_vs_given"):
        chk.violation("input-file", c, {"differences": o["written_vs_given"]}, "the written file holds the configuration given to the API (so that reading it back reconstructs the same configuration)")
        return 1
    if o["load_rc"] != 0 or o["same_bytes"] is None:
        chk.violation("input-file", c, {"load_rc": o["load_rc"]}, "the written file loads through the command-line loading path")
        return 1
    if not o["same_bytes"]:
        chk.violation("input-file", c, {"differences": o.get("diff")}, "reading the file back and writing it again produces the same file")
    return 1


def replay(payload):
    from lib import Check
    chk = Check("C17", "quick", payload.get("seed", 0))
    if payload.get("kind") != "input-file":
        return "RERUN"
    r = run_impl("io_drv.py", {"cases": [payload["input"]]})
    judge(chk, payload["input"], r[0])
    for path, found, pl in chk.violations:
        print(f"VIOLATION property=C17 replay={path}")
    return 1 if chk.violations else 0
