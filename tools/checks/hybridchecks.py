"""hybridchecks.py — common body of the C06 / C07 / C08 checks (hybrid time-step loads)."""
import json, re
from fractions import Fraction as F
import sys
from lib import *

CUM = [0, 744, 1416, 2160, 2880, 3624, 4344, 5088, 5832, 6552, 7296, 8016, 8760]
EPS6 = F(1, 10 ** 6)


def closed_lmh(m):
    return 8760 * ((m - 1) // 12) + CUM[(m - 1) % 12 + 1]


def fr2(x):
    x = F(x)
    return [x.numerator, x.denominator]


def gen_inject(rng, tier):
    cases = []
    horizons = [1, 2, 11, 12, 13, 23, 24, 25, 36, 48, 120] + ([360] if tier != "quick" else [])
    n = 160 if tier == "quick" else 1600
    for k in range(n):
        months = horizons[k % len(horizons)] if k < 4 * len(horizons) else rng.choice(horizons[:9])
        style = rng.choice(["both", "both", "cool_only", "heat_only", "none", "mixed"])
        c = {"months": months, "style": style}
        cl, hl, pcl, phl, dcl, dhl, dc, dh = ([F(0)] for _ in range(8))
        sameday = rng.random() < 0.35
        firstday = rng.random() < 0.3
        for mth in range(1, 13):
            has_c = style in ("both", "cool_only") or (style == "mixed" and rng.random() < 0.5)
            has_h = style in ("both", "heat_only") or (style == "mixed" and rng.random() < 0.5)
            cl.append(F(rng.randrange(1, 60000), 7) if has_c else F(0))
            hl.append(F(rng.randrange(1, 60000), 9) if has_h else F(0))
            pcl.append(F(rng.randrange(1, 4000), 8) if has_c else F(0))
            phl.append(F(rng.randrange(1, 4000), 8) if has_h else F(0))
            dcl.append(F(rng.randrange(1, 48 * 16), 16) if has_c else EPS6)
            dhl.append(F(rng.randrange(1, 48 * 16), 16) if has_h else EPS6)
            dmax = [31, 28, 31, 30, 31, 30, 31, 31, 30, 31, 30, 31][mth - 1]
            a = 0 if (firstday and rng.random() < 0.5) else rng.randrange(0, dmax)
            b = a if sameday and rng.random() < 0.7 else (0 if (firstday and rng.random() < 0.5) else rng.randrange(0, dmax))
            dc.append(F(a if has_c else 0))
            dh.append(F(b if has_h else 0))
        c.update(cl=cl, hl=hl, pcl=pcl, phl=phl, dcl=dcl, dhl=dhl, daycl=dc, dayhl=dh)
        c["float"] = (k % 5 == 4)
        cases.append(c)
    return cases


def inject_payload(c):
    d = {"months": c["months"], "float": c.get("float", False)}
    for k in ("cl", "hl", "pcl", "phl", "dcl", "dhl", "daycl", "dayhl"):
        d[k] = [fr2(x) for x in c[k]]
    return d


HEADER = """From Coq Require Import ZArith QArith List Bool.
From GHE Require Import Base.QUtil gen.Src Model.Hybrid.
Import ListNotations. Open Scope Q_scope.
"""


def coq_compare_inject(chk, cases, outs, per=12):
    files, parts = [], []
    idx = [i for i, o in enumerate(outs) if o.get("ok")]
    for j in range(0, len(idx), per):
        part = idx[j:j + per]
        items = []
        for i in part:
            c, o = cases[i], outs[i]
            a = ("{| a_cl := %s; a_hl := %s; a_pcl := %s; a_phl := %s; a_dcl := %s; a_dhl := %s; a_daycl := %s; a_dayhl := %s |}"
                 % tuple(qlist(c[k]) for k in ("cl", "hl", "pcl", "phl", "dcl", "dhl", "daycl", "dayhl")))
            seq = "[" + "; ".join(f"({q(F(*l))}, {q(F(*h))})" for l, h in zip(o["load"], o["hour"])) + "]"
            tol = "(1 # 1000000000)" if c.get("float") else "(1 # 1000000000000)"
            items.append(f"({a}, {c['months']}%Z, {tol}, {seq})")
        txt = HEADER + "Definition cases : list (monthly * Z * Q * list seg) := [\n" + ";\n".join(items) + """].
Definition res := map (fun c => let '(a, n, tol, s) := c in
   (seq_close tol (generated_sequence a [2019] 1 n) s, seq_close tol (sequence_of a [2019] 1 n) s)) cases.
Eval vm_compute in (length res, length (filter (fun r => negb (fst r)) res), length (filter (fun r => negb (snd r)) res),
                    map fst (filter (fun ir => negb (fst (snd ir) && snd (snd ir))) (combine (seq 0 (length res)) res))).
"""
        files.append((f"hyb{j // per}", txt))
        parts.append(part)
    total, bad_gen, bad_model, bad_idx = 0, 0, 0, []
    for (name, rc, out, err), part in zip(chk.coq_eval_many(files, timeout=900), parts):
        m = re.search(r"=\s*\((\d+)%nat,\s*(\d+)%nat,\s*(\d+)%nat,\s*\[(.*?)\]\)", " ".join(out.split()))
        if rc != 0 or not m:
            chk.broken.append({"name": f"correspondence hybrid/{name} did not evaluate", "detail": (err or out)[-400:]})
            continue
        total += int(m.group(1))
        bad_gen += int(m.group(2))
        bad_model += int(m.group(3))
        bad_idx += [part[int(x.replace("%nat", ""))] for x in m.group(4).split(";") if x.strip()]
    if bad_gen:
        chk.broken.append({"name": "translation validation: Src.process_month_loads (generated from the source) differs from the real method",
                           "detail": f"{bad_gen} of {total} cases"})
    if bad_model:
        chk.broken.append({"name": "correspondence: Model/Hybrid.sequence_of differs from the real HybridLoad.process_month_loads",
                           "detail": f"{bad_model} of {total} cases; first case indices {bad_idx[:5]}"})
    return total, bad_idx


# ---------------------------------------------------------------- property oracles on sequences
def month_energies(load, hour, months):
    """signed sum of load x breakpoint difference between consecutive month-end breakpoints"""
    ends = [F(0)] + [F(closed_lmh(m)) for m in range(1, months + 1)]
    out = []
    pos = 1          # index of the breakpoint equal to the previous month end (hour[1] == 0)
    for m in range(1, months + 1):
        # last index whose hour equals this month end
        cand = [k for k in range(pos, len(hour)) if hour[k] == ends[m]]
        if not cand:
            out.append(None)
            continue
        b = cand[-1]
        e = sum(load[k] * (hour[k] - hour[k - 1]) for k in range(pos + 1, b + 1))
        out.append(e)
        pos = b
    return out


def oracle_c06_inject(chk, c, o):
    """exact version on injected monthly data: month energy = cl - hl (+ rate * unemitted degenerate durations)"""
    if not o.get("ok") or c.get("float"):
        return 0
    load = [F(*x) for x in o["load"]]
    hour = [F(*x) for x in o["hour"]]
    E = month_energies(load, hour, c["months"])
    n = 0
    for m in range(1, c["months"] + 1):
        k = (m - 1) % 12 + 1
        cl, hl, dcl, dhl = c["cl"][k], c["hl"][k], c["dcl"][k], c["dhl"][k]
        # clamped pulse starts (1 January, long duration) are the documented exception
        start_c = F(closed_lmh(m - 1) + 1) + c["daycl"][k] * 24 + 12 - dcl / 2
        start_h = F(closed_lmh(m - 1) + 1) + c["dayhl"][k] * 24 + 12 - dhl / 2
        if start_c < 0 or start_h < 0:
            continue
        if E[m - 1] is None:
            chk.violation("hybrid-inject", inject_payload(c), {"month": m}, "a breakpoint at the end of every month")
            return n
        net = cl - hl
        scale = abs(cl) + abs(hl)
        hm = closed_lmh(m) - closed_lmh(m - 1)
        slack = scale * F(1, 10 ** 8) + (scale / hm + abs(c["pcl"][k]) + abs(c["phl"][k])) * 4 * EPS6
        n += 1
        if abs(E[m - 1] - net) > slack:
            chk.violation("hybrid-inject", inject_payload(c), {"month": m, "energy": float(E[m - 1]), "net": float(net)},
                          "month energy of the hybrid sequence = rejection - extraction of that month")
            return n
    return n


def gen_profiles(rng, tier):
    ps = []
    kinds = ["balanced", "heating", "cooling", "spiky", "constant", "mixed_days", "switch"]
    n = 14 if tier == "quick" else 80
    for k in range(n):
        kind = kinds[k % len(kinds)]
        spec = {"kind": kind, "scale": rng.choice([5000.0, 20000.0, 80000.0]), "seed": rng.randrange(1, 10 ** 6)}
        if kind == "constant":
            spec["sign"] = rng.choice([1.0, -1.0])
        if kind == "switch":
            spec["switch_month"] = rng.randrange(1, 12)
        spikes = []
        for _ in range(rng.randrange(0, 5)):
            mth = rng.randrange(0, 12)
            day = rng.choice([0, 0, rng.randrange(0, 28)])
            hr = rng.randrange(0, 24)
            h0 = CUM[mth] + 24 * day + hr
            spikes.append([h0, rng.choice([1.0, -1.0]) * spec["scale"] * rng.uniform(1.5, 3.0)])
        ps.append({"months": rng.choice([12, 24, 24, 36, 13, 25, 120 if tier != "quick" else 24, 6, 11, rng.randrange(1, 12)]), "loads": spec, "spikes": spikes})
    # directed: the rejection peak and the extraction peak of a month on the SAME day (a cold morning and a hot afternoon), well inside the month
    for k, (mth, day) in enumerate([(2, 10), (7, 19)] if tier == "quick" else [(2, 10), (7, 19), (0, 14), (11, 5), (4, 27)]):
        spec = {"kind": "balanced", "scale": 12000.0, "seed": rng.randrange(1, 10 ** 6)}
        h0 = CUM[mth] + 24 * day
        ps.append({"months": [24, 13, 12, 36, 25][k], "loads": spec, "spikes": [[h0 + 5, 61000.0 + 1000 * k], [h0 + 16, -64000.0 - 1000 * k]]})
    # a year of loads given as whole numbers of watts (Python ints, not multiples of 1000)
    for k in range(1 if tier == "quick" else 3):
        ps.append({"months": [12, 24, 13][k], "loads": {"kind": ["balanced", "heating", "spiky"][k], "scale": [8800.0, 5300.0, 12700.0][k], "seed": rng.randrange(1, 10 ** 6), "as_int": True}, "spikes": []})
    # directed: a cold snap around the clock over 31 December / 1 January — January's extraction peak on the first day of the horizon with a
    # duration above 26 h (the pulse would start before hour 0: its start is clamped and the pulse shifted)
    spec = {"kind": "balanced", "scale": 8000.0, "seed": rng.randrange(1, 10 ** 6)}
    ps.append({"months": 12 if tier == "quick" else 24, "loads": spec, "spikes": [[h, 52000.0 + 10.0 * (h % 24)] for h in list(range(8736, 8760)) + list(range(0, 24))] + [[11, 53000.0]]})
    # the same profile on boreholes that differ only in their short-time response (grout heat capacity), one after the other in one
    # process: every object's durations are those of ITS OWN response
    for k in range(1 if tier == "quick" else 4):
        spec = {"kind": rng.choice(["balanced", "spiky", "mixed_days"]), "scale": 20000.0, "seed": rng.randrange(1, 10 ** 6)}
        for rc in (3901000.0, 1500000.0, 2600000.0):
            ps.append({"months": 12, "loads": spec, "spikes": [], "grout_rhocp": rc})
    # ONE short-time model object recomputed for a second borehole (same height and soil, another grout conductivity) after a hybrid load was
    # built from it for the first: the durations are those of the response the object holds NOW
    for k in range(1 if tier == "quick" else 3):
        spec = {"kind": ["spiky", "balanced", "mixed_days"][k % 3], "scale": 20000.0, "seed": 7 + k}
        ps.append({"months": 12, "loads": spec, "spikes": [], "reuse_rn": [[1.0, 2.6], [2.4, 0.8], [1.0, 1.9]][k % 3]})
    # two different years of loads with the same length and the same annual total (one is the other shifted by some weeks), in one process
    for k in range(1 if tier == "quick" else 3):
        spec = {"kind": rng.choice(["balanced", "heating", "cooling"]), "scale": 18000.0, "seed": rng.randrange(1, 10 ** 6)}
        ps.append({"months": 24, "loads": spec, "spikes": []})
        ps.append({"months": 24, "loads": dict(spec, shift_hours=24 * rng.choice([35, 61, 100])), "spikes": []})
    # the same profile processed for a horizon that is not a whole number of years and then for a longer one, in one process
    for k in range(1 if tier == "quick" else 3):
        spec = {"kind": rng.choice(["balanced", "heating", "spiky"]), "scale": 15000.0, "seed": rng.randrange(1, 10 ** 6)}
        n1 = rng.choice([18, 14, 21])
        ps.append({"months": n1, "loads": spec, "spikes": []})
        ps.append({"months": n1 + rng.choice([12, 7, 16]), "loads": spec, "spikes": []})
    return ps


SIG_TOL = "callsite:find_peak_durations:two-day-window-holds-a-larger-load-of-the-previous-month-within-0.1kW"


def two_day_window(series, k12, peak_day):
    days = [31, 28, 31, 30, 31, 30, 31, 31, 30, 31, 30, 31]
    st = 24 * sum(days[:k12]) + (peak_day - 1) * 24
    return [series[(st + j) % 8760] for j in range(48)]


def expected_duration(series, k12, peak, peak_day, kernel, rb, two_pi_k):
    """the peak duration from its definition (Cullin & Spitler 2011), written independently of the implementation:
    the 48 h of the day before the peak day and the peak day itself (the year wraps for 1 January), scaled (q_i - avg)/peak * q_i;
    its largest temperature response; the time at which a constant load (peak - avg) produces the same response.
    Returns None when the window holds a load above the month's peak (previous month): the reference peak is then ambiguous."""
    days = [31, 28, 31, 30, 31, 30, 31, 31, 30, 31, 30, 31]
    start_m = 24 * sum(days[:k12])
    hrs = 24 * days[k12]
    avg = sum(series[start_m:start_m + hrs]) / hrs
    st = start_m + (peak_day - 1) * 24
    window = [series[(st + j) % 8760] for j in range(48)]
    if max(window) > peak:
        return None

    def respond(q):          # q[0] = 0, q[1..48]; temperature change of the fluid at the end of each hour
        out = [0.0]
        for n in range(1, 49):
            out.append(sum((q[j + 1] - q[j]) * kernel[n - j - 1] for j in range(n)) / two_pi_k + q[n] * rb)
        return out
    nom = respond([0.0] + [(w - avg) / peak * w for w in window])
    pk = respond([0.0] + [peak - avg] * 48)
    top = max(nom)
    if top <= 0.0:
        return 1.0e-6
    pts = sorted(zip(pk, range(49)))
    lo = next((i for i in range(len(pts) - 1) if pts[i][0] <= top <= pts[i + 1][0]), None)
    if lo is None:
        lo = 0 if top < pts[0][0] else len(pts) - 2
    (x0, y0), (x1, y1) = pts[lo], pts[lo + 1]
    if x1 == x0:
        return None
    return y0 + (top - x0) * (y1 - y0) / (x1 - x0)


def oracle_profile(chk, which, p, o):
    """property oracles on a real HybridLoad built from an hourly profile; returns number of non-trivial checks"""
    if not o.get("ok"):
        chk.violation("hybrid-profile", p, {"exception": o.get("exc"), "msg": o.get("msg")}, "HybridLoad construction succeeds on a valid 8760 profile")
        return 0
    months = p["months"]
    load, hour = o["load"], o["hour"]
    n = 0
    ends = [0.0] + [float(closed_lmh(m)) for m in range(1, months + 1)]
    if which == "C06":
        pos = 1
        tot = 0.0
        for m in range(1, months + 1):
            cand = [k for k in range(pos, len(hour)) if hour[k] == ends[m]]
            if not cand:
                chk.violation("hybrid-profile", p, {"month": m}, "a breakpoint at the end of every month")
                return n
            b = cand[-1]
            e = sum(load[k] * (hour[k] - hour[k - 1]) for k in range(pos + 1, b + 1))
            pos = b
            k12 = (m - 1) % 12
            net = o["hourly_rej_month"][k12] - o["hourly_ext_month"][k12]
            scale = abs(o["hourly_rej_month"][k12]) + abs(o["hourly_ext_month"][k12])
            n += 1
            tot += e
            if not (abs(e - net) <= 1e-7 * scale + 1e-9):
                # the listed defect (shared with C07): a peak of this month far outside (0, 48 h] because the two-day window holds a larger
                # load of the previous month within the 0.1 kW tolerance; the pulse then reaches beyond the month and its energy is misplaced
                sig = None
                if "rej" in o:
                    for series, pk, day, dur in ((o["rej"], o["hourly_rej_peak"][k12], o["hourly_rej_peak_day"][k12], o["dcl"][k12 + 1]),
                                                 (o["ext"], o["hourly_ext_peak"][k12], o["hourly_ext_peak_day"][k12], o["dhl"][k12 + 1])):
                        if pk > 0 and dur > 48 and pk < max(two_day_window(series, k12, day)) < pk + 0.1:
                            sig = SIG_TOL
                chk.violation("hybrid-profile", p, {"month": m, "energy_kWh": e, "net_kWh": net, "peak_days": [o["daycl"][k12 + 1], o["dayhl"][k12 + 1]],
                                                    "durations_h": [o["dcl"][k12 + 1], o["dhl"][k12 + 1]]},
                              "month energy of the hybrid sequence = net hourly ground load of that month (rejection - extraction)", signature=sig)
                if sig is None:
                    return n
                return n        # later months of this profile are shifted by the misplaced pulse: judged no further
        if months % 12 == 0:
            annual = o["rej_sum"] - o["ext_sum"]
            if abs(tot - annual * months / 12) > 1e-6 * (o["rej_sum"] + o["ext_sum"]) + 1e-9:
                chk.violation("hybrid-profile", p, {"total": tot, "annual_net_x_years": annual * months / 12}, "total energy = annual net x years")
    elif which == "C08":
        n += 1
        if hour[0] != 0 or hour[1] != 0:
            chk.violation("hybrid-profile", p, {"hour0": hour[:3]}, "the sequence starts at hour 0")
        for m in range(1, months + 1):
            if ends[m] not in hour:
                chk.violation("hybrid-profile", p, {"missing_month_end": ends[m], "month": m}, "a breakpoint at the end of every calendar month")
                return n
        if hour[-1] != ends[months]:
            chk.violation("hybrid-profile", p, {"last": hour[-1]}, f"the sequence ends at hour {ends[months]}")
        for key in ("cl", "hl", "pcl", "phl", "dcl", "dhl", "daycl", "dayhl"):
            arr = o[key]
            for m in range(13, months + 1):
                if arr[m] != arr[(m - 1) % 12 + 1]:
                    chk.violation("hybrid-profile", p, {"array": key, "month": m}, "month m+12 repeats month m")
                    return n
        # strict monotonicity, month by month, wherever the reported windows of the month are disjoint and inside the month
        okm = {}
        for m in range(1, months + 1):
            ipf = m < 13 or m > months - 12
            okm[m] = True
            if not ipf:
                continue
            fm = ends[m - 1] + 1
            w = []
            if o["pcl"][m] > 0:
                w.append((fm + 24 * o["daycl"][m] + 12 - o["dcl"][m] / 2, fm + 24 * o["daycl"][m] + 12 + o["dcl"][m] / 2))
            if o["phl"][m] > 0:
                w.append((fm + 24 * o["dayhl"][m] + 12 - o["dhl"][m] / 2, fm + 24 * o["dayhl"][m] + 12 + o["dhl"][m] / 2))
            if o["pcl"][m] > 0 and o["phl"][m] > 0 and o["daycl"][m] == o["dayhl"][m]:
                nn = fm + 24 * o["daycl"][m] + 12
                w = [(nn - o["dcl"][m], nn), (nn, nn + o["dhl"][m])]
                if not (ends[m - 1] < w[0][0] and w[1][1] < ends[m]):
                    okm[m] = False
                continue
            w.sort()
            for a, b in w:
                if not (ends[m - 1] < a <= b < ends[m]):        # a window of zero length overlaps nothing
                    okm[m] = False
            if len(w) == 2 and not (w[0][1] < w[1][0]):
                okm[m] = False
        pos = 1
        for m in range(1, months + 1):
            cand = [k for k in range(pos, len(hour)) if hour[k] == ends[m]]
            if not cand:
                break
            b = cand[-1]
            if okm[m]:
                n += 1
                for k in range(pos + 1, b + 1):
                    if not hour[k] > hour[k - 1]:
                        chk.violation("hybrid-profile", p, {"month": m, "k": k, "hours": hour[max(0, k - 3):k + 2], "peak_days": [o["daycl"][m], o["dayhl"][m]], "durations_h": [o["dcl"][m], o["dhl"][m]]},
                                      "breakpoints strictly increasing (the windows of this month are disjoint and inside the month)")
                        return n
            pos = b
    elif which == "C07":
        # every reported duration against its defining equation (first year: later years replicate, C08)
        if "kernel" in o:
            for k12 in range(12):
                for (series, pk, day, dur, nm) in ((o["rej"], o["hourly_rej_peak"][k12], o["hourly_rej_peak_day"][k12], o["dcl"][k12 + 1], "rejection"),
                                                   (o["ext"], o["hourly_ext_peak"][k12], o["hourly_ext_peak_day"][k12], o["dhl"][k12 + 1], "extraction")):
                    if pk <= 0:
                        continue
                    want = expected_duration(series, k12, pk, day, o["kernel"], o["rb"], o["two_pi_k"])
                    if want is None:
                        continue
                    n += 1
                    if abs(dur - want) > 1e-6 * max(1.0, abs(want)):
                        chk.violation("hybrid-profile", p, {"month": k12 + 1, "dir": nm, "duration": dur, "from_the_definition": want, "peak": pk, "peak_day_index": day},
                                      "the duration is the time after which a constant load (peak - monthly average) changes the fluid temperature as much as the "
                                      "peak-scaled two-day profile ending on the peak day does at its maximum")
                        return n
        # expected pulses from the hourly profile itself
        for m in range(1, months + 1):
            k12 = (m - 1) % 12
            ipf = m < 13 or m > months - 12
            fm = ends[m - 1] + 1
            lo = max(i for i in range(len(hour)) if hour[i] == ends[m - 1])
            hi = max(i for i in range(len(hour)) if hour[i] == ends[m])
            segs = [(load[i], hour[i - 1], hour[i]) for i in range(lo + 1, hi + 1)]
            pr, pe = o["hourly_rej_peak"][k12], o["hourly_ext_peak"][k12]
            dr, de = o["hourly_rej_peak_day"][k12], o["hourly_ext_peak_day"][k12]
            if not ipf:
                n += 1
                if len(segs) != 1:
                    chk.violation("hybrid-profile", p, {"month": m, "segments": segs}, "months between the retention windows carry only their average")
                    return n
                continue
            for (pk, sgn, day, dur, nm) in ((pr, 1.0, dr, o["dcl"][m], "rejection"), (pe, -1.0, de, o["dhl"][m], "extraction")):
                mine = [s for s in segs if s[0] == sgn * pk and pk > 0]
                if pk > 0:
                    n += 1
                    if not (0 < dur <= 48):
                        # the listed defect: the window's first day lies in the previous month and holds a load larger than this month's
                        # peak by less than the 0.1 kW tolerance; the smaller monthly peak is kept and the inverse is extrapolated
                        sig = None
                        if "rej" in o:
                            wmax = max(two_day_window(o["rej"] if sgn > 0 else o["ext"], k12, day))
                            if pk < wmax < pk + 0.1 and dur > 48:
                                sig = SIG_TOL
                        chk.violation("hybrid-profile", p, {"month": m, "duration": dur, "dir": nm, "month_peak_kW": pk}, "0 < peak duration <= 48 h", signature=sig)
                        if sig is None:
                            return n
                        continue
                    if not mine:
                        chk.violation("hybrid-profile", p, {"month": m, "peak": pk, "dir": nm, "segments": segs}, f"a pulse of magnitude {pk} with the {nm} sign")
                        return n
                    s = mine[0]
                    noon = fm + 24 * day + 12
                    sameday = pr > 0 and pe > 0 and dr == de
                    if noon - dur / 2 < 0:
                        continue                # 1 January clamp, documented exception
                    if not sameday and (abs((s[1] + s[2]) / 2 - noon) > 1e-6 or abs((s[2] - s[1]) - dur) > 1e-6):
                        chk.violation("hybrid-profile", p, {"month": m, "pulse": s, "noon": noon, "duration": dur, "dir": nm}, "pulse centred on noon of the peak day with the reported duration")
                        return n
                    if sameday and abs((s[2] if sgn > 0 else s[1]) - noon) > 1e-6:
                        chk.violation("hybrid-profile", p, {"month": m, "pulse": s, "noon": noon, "dir": nm}, "same-day pulses abut noon")
                        return n
                    if sameday and noon - dur >= 0 and abs((s[2] - s[1]) - dur) > 1e-6:
                        chk.violation("hybrid-profile", p, {"month": m, "pulse": s, "noon": noon, "duration": dur, "dir": nm},
                                      "same-day pulses abut noon, each with its own reported duration (rejection ends at noon, extraction starts there)")
                        return n
            want = 1 + (2 if pr > 0 else 0) + (2 if pe > 0 else 0) - (1 if (pr > 0 and pe > 0 and dr == de) else 0)
            if len(segs) != want:
                chk.violation("hybrid-profile", p, {"month": m, "segments": segs, "peaks": [pr, pe]},
                              f"{want} segments: one pulse per direction with load, none for a direction without load")
                return n
    return n


TD_HEADER = """From Coq Require Import ZArith QArith List Bool.
From GHE Require Import Base.QUtil gen.Src Proof.TwoDayP.
Import ListNotations. Open Scope Q_scope.
Fixpoint leq (a b : list Q) : bool := match a, b with [], [] => true | x :: a', y :: b' => qeqb x y && leq a' b' | _, _ => false end.
Fixpoint lleq (a b : list (list Q)) : bool := match a, b with [], [] => true | x :: a', y :: b' => leq x y && lleq a' b' | _, _ => false end.
"""


def two_day_checks(chk, profs, outs):
    """the 48-hour window of every month's peak day: (1) the implementation's windows against the statement of
    C07_two_day_window_ends_on_the_peak_day_* (day before + peak day, year wrapping), (2) the REGENERATED process_two_day_loads
    evaluated in Coq on a real year of loads against the implementation's windows (translation validation)"""
    done = 0
    for p, o in zip(profs, outs):
        if not o.get("ok") or "rej" not in o:
            continue
        for m in range(1, 13):
            for series, wins_, days, nm in ((o["rej"], o["two_day_cl"], o["daycl"], "rejection"), (o["ext"], o["two_day_hl"], o["dayhl"], "extraction")):
                want = two_day_window(series, m - 1, days[m])
                chk.cov["evaluations"] += 1
                if list(wins_[m]) != want and len(chk.violations) < 4:
                    bad = next((j for j in range(min(len(want), len(wins_[m]))) if wins_[m][j] != want[j]), None)
                    chk.violation("hybrid-profile", p, {"month": m, "dir": nm, "peak_day_index": days[m], "window_hours": len(wins_[m]), "first_difference_at_hour": bad},
                                  "the two-day window is the day before the peak day followed by the peak day (48 hours, the year wrapping around for 1 January)")
        if done == 0 and getattr(chk, "model_ok", False):
            done = 1
            txt = TD_HEADER + f"""Definition rej : list Q := {qlist(o['rej'])}.
Definition ext : list Q := {qlist(o['ext'])}.
Definition dc : list Q := {qlist(o['daycl'][:13])}.
Definition dh : list Q := {qlist(o['dayhl'][:13])}.
Definition wc : list (list Q) := [{'; '.join(qlist(w) for w in o['two_day_cl'][:13])}].
Definition wh : list (list Q) := [{'; '.join(qlist(w) for w in o['two_day_hl'][:13])}].
Eval vm_compute in (let '(a, b) := process_two_day_loads rej ext cal dc dh [[0]] [[0]] in (lleq a wc, lleq b wh)).
"""
            rc, out, err = chk.coq_eval("twoday", txt, timeout=900)
            flat = " ".join(out.split())
            if rc != 0 or "(true, true)" not in flat:
                chk.broken.append({"name": "translation validation C07: the regenerated process_two_day_loads differs from the real method on a real year of loads",
                                   "detail": (err or flat)[-300:]})
            else:
                chk.cov["traces_validated_against_impl"] = chk.cov.get("traces_validated_against_impl", 0) + 24
                chk.cov["correspondence_cases"] = chk.cov.get("correspondence_cases", 0) + 24


def split_checks(chk, profs, outs):
    """translation validation of the REGENERATED split_heat_and_cool and split_loads_by_month: evaluated in Coq on real years of hourly loads
    (exact rationals of the floats) against the arrays the real HybridLoad holds (sums and averages within 1e-6: float accumulation)"""
    if not getattr(chk, "model_ok", False):
        return
    done = 0
    for p, o in zip(profs, outs):
        if not o.get("ok") or "raw" not in o or done >= (1 if chk.tier == "quick" else 5):
            continue
        done += 1
        n = len(o["days_in_month"])       # the arrays as split_loads_by_month leaves them: one entry per calendar month (later years are appended afterwards)
        txt = TD_HEADER + f"""Definition raw : list Q := {qlist(o['raw'])}.
Definition days : list Q := {qlist(o['days_in_month'])}.
Definition z : list Q := repeat 0 {n}.
Definition tol : Q := 1 # 1000000.
Definition lcl (a b : list Q) : bool := list_eqb (qclose tol) a b.
Eval vm_compute in (let sp := split_heat_and_cool raw in
  let '(cl, hl, pcl, phl, acl, ahl, dcl, dhl) := split_loads_by_month days (fst sp) (snd sp) z z z z z z z z in
  [lcl (fst sp) {qlist(o['rej'])}; lcl (snd sp) {qlist(o['ext'])}; lcl cl {qlist(o['cl'][:n])}; lcl hl {qlist(o['hl'][:n])}; lcl pcl {qlist(o['pcl'][:n])}; lcl phl {qlist(o['phl'][:n])};
   lcl acl {qlist(o['acl'][:n])}; lcl ahl {qlist(o['ahl'][:n])}; leq dcl {qlist(o['daycl'][:n])}; leq dhl {qlist(o['dayhl'][:n])}]).
"""
        rc, out, err = chk.coq_eval(f"split{done}", txt, timeout=900)
        flat = " ".join(out.split())
        if rc != 0 or "false" in flat or "true" not in flat:
            chk.broken.append({"name": "translation validation C06: the regenerated split_heat_and_cool / split_loads_by_month differ from the real methods on a real year of loads",
                               "detail": (err or flat)[-300:]})
        else:
            chk.cov["traces_validated_against_impl"] = chk.cov.get("traces_validated_against_impl", 0) + 10
            chk.cov["correspondence_cases"] = chk.cov.get("correspondence_cases", 0) + 10


def csv_time_axis(chk):
    """the other observation point of C08: the time column of TimeDependentValues.csv of real designs (horizons that are not whole years)"""
    import csv
    from configs import cfg
    horizons = [13, 30] if chk.tier == "quick" else [13, 30, 25, 7, 49]
    tcfgs = [cfg(months=m, loads={"kind": "balanced", "scale": 20000.0, "seed": 3}) for m in horizons]
    ru = cfg(months=31, loads={"kind": "balanced", "scale": 20000.0, "seed": 3})            # a manager that was set up for 24 months first
    ru["_changed_after_design"] = {"section": "simulation", "values": {"num_months": 24}, "design_found_first": True}
    idle = cfg(months=24, loads={"kind": "balanced", "scale": 20000.0, "seed": 3, "first_loaded_month": 4})      # building taken into use on 1 April
    hh = cfg(months=18, loads={"kind": "balanced", "scale": 20000.0, "seed": 3})                # hourly, then hybrid again, then the files
    hh["_hourly_then_hybrid_before_write"] = True
    tcfgs += [ru, idle, hh]
    # through the command-line worker, with the optional (documented as unused) start_month in the simulation section
    sm = cfg(months=18, loads={"kind": "balanced", "scale": 20000.0, "seed": 3})
    sm["simulation"]["start_month"] = "MARCH"
    cr = run_impl("e2e.py", {"mode": "cli_sequence", "sequences": [[sm]]}, timeout=1500)
    if isinstance(cr, dict) and "_error" in cr:
        chk.broken.append({"name": "command-line run failed in the harness", "detail": cr["_error"][-300:]})
    else:
        o = cr[0][0]
        chk.cov["evaluations"] += 1
        tc = o.get("time_column")
        if tc is None:
            chk.violation("time-csv", sm, {"outcome": {k: v for k, v in o.items() if k != "borefield"}}, "a valid input file (simulation.start_month given) produces its time table")
        else:
            missing = [m for m in range(1, 19) if float(closed_lmh(m)) not in tc]
            if max(tc) != closed_lmh(18) or missing:
                chk.violation("time-csv", sm, {"last_time_h": max(tc), "month_ends_without_a_row": missing[:6]},
                              f"the time column covers the 18-month horizon: ends at {closed_lmh(18)} h with a row at every calendar month end")
    for r in e2e_runs(tcfgs):
        if not r.get("ok"):
            chk.broken.append({"name": "end-to-end run failed", "detail": json.dumps({k: r.get(k) for k in ("exc", "msg")})})
            continue
        months = r["cfg"]["simulation"]["num_months"]
        with open(os.path.join(r["outdir"], "TimeDependentValues.csv")) as f:
            rows = list(csv.reader(f))[1:]
        times = [float(x[0]) for x in rows]
        chk.cov["evaluations"] += 1
        want_end = closed_lmh(months)
        if max(times) != want_end and len(chk.violations) < 4:
            chk.violation("time-csv", r["cfg"], {"last_time_h": max(times)}, f"the time column ends exactly at the last hour of the {months}-month horizon ({want_end} h)")
        missing = [m for m in range(1, months + 1) if float(closed_lmh(m)) not in times]
        if missing and len(chk.violations) < 4:
            chk.violation("time-csv", r["cfg"], {"month_ends_without_a_row": missing[:6]}, "a breakpoint (row) at the end of every calendar month")


def ghe_level_energy(chk):
    """C06 on the hybrid loads a real GHE object carries — built by GHE.__init__ from the hourly list it is handed (also a leap year of
    loads with load_years=[2020]) and read AFTER the object was simulated / sized, as a design run leaves it"""
    rng = chk.rng
    cases = []
    for months, ly, ops in [(13, None, ["simulate"]), (12, [2020], []), (25, [2020], ["simulate"])] + \
                           ([] if chk.tier == "quick" else [(1, None, ["simulate"]), (24, None, ["size"]), (37, None, ["simulate"]), (14, [2024], ["simulate"]), (49, [2020], [])]):
        kind = rng.choice(["balanced", "spiky", "mixed_days", "cooling"])
        nh = 8784 if ly else 8760
        cases.append({"nx": 1, "ny": 2, "months": months, "H": 100.0, "heights": [60.0, 97.5, 135.0], "loads": {"kind": kind, "scale": 9000.0, "seed": rng.randrange(1, 10 ** 6)},
                      "load_years": ly, "extra_day": bool(ly), "ops": ops,
                      # loads on the very last day of the (leap) year and on 29 February
                      "spikes": [[nh - 1 - rng.randrange(0, 20), -23000.0], [nh - 30, 17000.0]] + ([[1416 + 5, -21000.0]] if ly else [])})
    from concurrent.futures import ThreadPoolExecutor
    with ThreadPoolExecutor(max_workers=NPROC) as ex:
        rs = list(ex.map(lambda c: run_impl("ghe_drv.py", {"mode": "hybrid", "cases": [c]}, timeout=1500), cases))
    n = 0
    for c, rr in zip(cases, rs):
        if isinstance(rr, dict) and "_error" in rr:
            chk.broken.append({"name": "real GHE run failed in the harness (hybrid loads of a GHE)", "detail": rr["_error"][-300:]})
            continue
        o = rr[0]
        if not o.get("ok"):
            chk.broken.append({"name": "real GHE run failed (hybrid loads of a GHE)", "detail": json.dumps(o)[-300:]})
            continue
        chk.cov["evaluations"] += 1
        leap = bool(c["load_years"])
        days = [31, 29 if leap else 28, 31, 30, 31, 30, 31, 31, 30, 31, 30, 31]
        nh = 24 * sum(days)
        ends = [0]
        for i in range(c["months"]):
            ends.append(ends[-1] + 24 * days[i % 12])
        hourly, hour, load = o["hourly"], o["hour"], o["load"]
        pos = 1
        for m in range(1, c["months"] + 1):
            cand = [k for k in range(pos, len(hour)) if hour[k] == ends[m]]
            if not cand:
                if len(chk.violations) < 4:
                    chk.violation("ghe-hybrid", c, {"month": m, "month_end_h": ends[m], "last_breakpoints": hour[-3:]}, "a breakpoint at the end of every simulated month (the month integral is taken between them)")
                break
            b = cand[-1]
            e = sum(load[k] * (hour[k] - hour[k - 1]) for k in range(pos + 1, b + 1))
            a0 = ends[m - 1] % nh
            net = -sum(hourly[a0:a0 + ends[m] - ends[m - 1]]) / 1000.0
            n += 1
            if abs(e - net) > 1e-7 * max(1.0, abs(net)):
                if len(chk.violations) < 4:
                    chk.violation("ghe-hybrid", c, {"month": m, "hybrid_integral_kWh": e, "net_hourly_kWh": net},
                                  "the month's hybrid integral equals its net hourly load (rejection minus extraction) — on the loads the GHE object carries after the run")
                break
            pos = b
    return n


def csv_energy(chk):
    """the other observation point of C06: the Q column of TimeDependentValues.csv as the real row builder writes it for a simulated GHE —
    also when the hybrid sequence steps back in time (a 48-hour heat wave across 31 July / 1 August: August's pulse starts before July
    ends, which the code warns about)"""
    wave = [[h, -41000.0 - 13.0 * (h % 24)] for h in range(CUM[7] - 24, CUM[7] + 24)]
    cases = [{"nx": 1, "ny": 2, "months": 24, "H": 100.0, "heights": [60.0, 97.5, 135.0], "loads": {"kind": "balanced", "scale": 9000.0, "seed": 3}, "spikes": wave, "ops": ["simulate"], "csv_rows": True},
             {"nx": 1, "ny": 2, "months": 13, "H": 100.0, "heights": [60.0, 97.5, 135.0], "loads": {"kind": "mixed_days", "scale": 9000.0, "seed": 5}, "spikes": [], "ops": ["simulate"], "csv_rows": True}]
    from concurrent.futures import ThreadPoolExecutor
    with ThreadPoolExecutor(max_workers=2) as ex:
        rs = list(ex.map(lambda c: run_impl("ghe_drv.py", {"mode": "hybrid", "cases": [c]}, timeout=1500), cases))
    n = 0
    for c, rr in zip(cases, rs):
        if isinstance(rr, dict) and "_error" in rr:
            chk.broken.append({"name": "real GHE run failed in the harness (time table rows)", "detail": rr["_error"][-300:]})
            continue
        o = rr[0]
        if not o.get("ok") or "csv_tq" not in o:
            chk.broken.append({"name": "real GHE run failed (time table rows)", "detail": json.dumps({k: v for k, v in o.items() if k in ("exc", "msg")})[-300:]})
            continue
        months = c["months"]
        hourly = o["hourly"]
        rows = o["csv_tq"]
        chk.cov["evaluations"] += 1
        # rows come in pairs per breakpoint: the first of a pair carries the load of the segment that ENDS at that time
        t = [0.0] + [x[0] for x in rows[0::2]]
        qb = [0.0] + [x[1] for x in rows[0::2]]
        ends = [0.0] + [float(closed_lmh(m)) for m in range(1, months + 1)]
        pos = 0
        for m in range(1, months + 1):
            cand = [k for k in range(pos, len(t)) if t[k] == ends[m]]
            if not cand:
                if len(chk.violations) < 4:
                    chk.violation("csv-energy", c, {"month": m, "month_end_h": ends[m]}, "TimeDependentValues.csv has a row at the end of every simulated month")
                break
            b = cand[-1]
            e = sum(qb[k] * (t[k] - t[k - 1]) for k in range(pos + 1, b + 1)) / 1000.0
            k12 = (m - 1) % 12
            net = -sum(hourly[CUM[k12]:CUM[k12 + 1]]) / 1000.0
            n += 1
            if abs(e - net) > 1e-6 * max(1.0, abs(net)):
                if len(chk.violations) < 4:
                    chk.violation("csv-energy", c, {"month": m, "from_the_Q_column_kWh": e, "net_hourly_kWh": net, "first_rows": rows[:4]},
                                  "the month's integral of the Q column of TimeDependentValues.csv (signed sum of load x time difference between month-end rows) equals its net hourly load")
                break
            pos = b
    return n


def design_level_loads(chk):
    """C07 on whole designs: the hybrid loads the returned design carries (monthly totals, peaks, peak durations) are those of a hybrid
    load built from scratch for the REQUESTED hourly loads and the returned field — also with a system flow (the flow per borehole, and
    with it the short-time response, changes from candidate to candidate) and on a manager whose loads were replaced after set_design"""
    from configs import cfg
    c1 = cfg("RECTANGLE", months=12, loads={"kind": "balanced", "scale": 30000.0, "seed": 7}, flow=("SYSTEM", 2.2))
    c2 = cfg(months=12, loads={"kind": "mixed_days", "scale": 26000.0, "seed": 8})
    c2["_changed_after_design"] = {"section": "loads", "values": {"synthetic": {"kind": "cooling", "scale": 12000.0, "seed": 1}}, "design_found_first": True}
    c3 = cfg("BIZONEDRECTANGLE", months=12, loads={"kind": "spiky", "scale": 24000.0, "seed": 9}, flow=("SYSTEM", 2.6))
    for r in e2e_runs([c1, c2] + ([] if chk.tier == "quick" else [c3])):
        if not r.get("ok") or "reference" not in r:
            chk.broken.append({"name": "end-to-end run / reference failed", "detail": json.dumps({k: r.get(k) for k in ("exc", "msg", "reference_error")})})
            continue
        chk.cov["evaluations"] += 1
        ref = r["reference"]
        for key, what in (("monthly", "monthly totals and peaks"), ("durations", "peak durations")):
            for k2 in r[key]:
                a, b = r[key][k2], ref[key][k2]
                bad = [i for i in range(min(len(a), len(b))) if not (abs(a[i] - b[i]) <= 1e-9 * max(1.0, abs(b[i])))]
                if bad and len(chk.violations) < 4:
                    chk.violation("design-loads", r["cfg"], {"array": k2, "month": bad[0], "on_the_returned_design": a[bad[0]], "from_the_requested_loads_and_returned_field": b[bad[0]]},
                                  f"the hybrid loads of the returned design ({what}) are those of the requested hourly loads for the returned field")
                    break
        # the monthly table of the written summary against the requested hourly loads
        import os as _os
        try:
            with open(_os.path.join(r["outdir"], "SimulationSummary.json")) as fh:
                tab = json.load(fh)["ghe_system"]["glhe_monthly_loads"]["data"]
            loads = None
            sys.path.insert(0, _os.path.join(VERIF, "tools", "impl"))
            from e2e import materialise
            loads = materialise(r["cfg"])["loads"]["ground_loads"]
            cum = [0, 744, 1416, 2160, 2880, 3624, 4344, 5088, 5832, 6552, 7296, 8016, 8760]
            for m in range(12):
                seg = loads[cum[m]:cum[m + 1]]
                want_ph = max([x for x in seg if x >= 0] + [0.0]) / 1000.0
                want_pc = max([-x for x in seg if x < 0] + [0.0]) / 1000.0
                if abs(tab[m][3] - want_ph) > 1e-9 * max(1.0, want_ph) or abs(tab[m][5] - want_pc) > 1e-9 * max(1.0, want_pc):
                    if len(chk.violations) < 4:
                        chk.violation("design-loads", r["cfg"], {"month": m + 1, "summary_row": tab[m], "hourly_peak_heating_kW": want_ph, "hourly_peak_cooling_kW": want_pc},
                                      "the monthly peaks in the written summary are the hourly peaks of the requested loads")
                    break
        except (OSError, KeyError, IndexError) as ex_:
            chk.notes.append({"summary_not_read": str(ex_)})


def run_hybrid_check(chk, which, props_file, extra_models):
    quick = chk.tier == "quick"
    chk.build(props_file, extra=["Model/Hybrid"] + extra_models)
    rng = chk.rng
    cases = gen_inject(rng, chk.tier)
    profs = gen_profiles(rng, chk.tier)
    cal = list(range(1, 401)) if not quick else list(range(1, 61)) + list(range(100, 400, 7))
    res = run_impl("hybrid.py", {"inject": [inject_payload(c) for c in cases], "profiles": profs, "calendar": cal}, timeout=1500)
    if "_error" in res:
        chk.broken.append({"name": "correspondence hybrid (implementation driver failed)", "detail": res["_error"]})
        return chk.finish()
    outs = res["inject"]
    chk.cov["evaluations"] += len(cases) + len(profs) + len(cal)
    dist = {}
    for c, o in zip(cases, outs):
        key = f"{c['style']}/{'float' if c.get('float') else 'exact'}/{'ok' if o.get('ok') else o.get('exc')}"
        dist[key] = dist.get(key, 0) + 1
    chk.cov["input_distribution"] = dist
    for c, o in zip(cases, outs):
        if not o.get("ok"):
            chk.violation("hybrid-inject", inject_payload(c), {"exception": o.get("exc"), "msg": o.get("msg")}, "process_month_loads succeeds on well-formed monthly data")
            break
    if getattr(chk, "model_ok", False):
        total, bad = coq_compare_inject(chk, cases, outs)
        chk.cov["traces_validated_against_impl"] = total - len(bad)
        chk.cov["correspondence_cases"] = total
        for i in bad[:2]:
            chk.notes.append({"mismatch_case": inject_payload(cases[i])})
    # calendar helpers against the closed form (implementation side)
    for m, f, l, d in res["calendar"]:
        if l != closed_lmh(m) or f != closed_lmh(m - 1) + 1 or d * 24 != closed_lmh(m) - closed_lmh(m - 1):
            if which == "C08":
                chk.violation("calendar", {"month": m}, {"first": f, "last": l, "days": d}, f"last_month_hour = {closed_lmh(m)}, first = {closed_lmh(m-1)+1}")
                break
    CUML = [0, 744, 1440, 2184, 2904, 3648, 4368, 5112, 5856, 6576, 7320, 8040, 8784]

    def lmh_leap(m):
        return 8784 * ((m - 1) // 12) + CUML[(m - 1) % 12 + 1]
    for m, f, l, d in res.get("calendar_leap", []):
        if (l != lmh_leap(m) or f != lmh_leap(m - 1) + 1 or d * 24 != lmh_leap(m) - lmh_leap(m - 1)) and which == "C08":
            chk.violation("calendar", {"month": m, "load_years": [2020]}, {"first": f, "last": l, "days": d}, f"leap-year calendar: last_month_hour = {lmh_leap(m)}, first = {lmh_leap(m-1)+1}")
            break
    if which == "C08" and res.get("calendar_multi") not in (None, [17569, 17520]):
        # the witness of Props/C08.v C08_multi_year_calendar_refuted (an observation about lists of load years) is a statement about the code
        chk.broken.append({"name": "correspondence C08: the multi-year calendar witness of C08_multi_year_calendar_refuted no longer matches the implementation",
                           "detail": json.dumps(res.get("calendar_multi"))})
    nontrivial = 0
    if which == "C06":
        for c, o in zip(cases, outs):
            if len(chk.violations) >= 4:
                break
            nontrivial += oracle_c06_inject(chk, c, o)
    for p, o in zip(profs, res["profiles"]):
        if len(chk.violations) >= 4:
            break
        nontrivial += oracle_profile(chk, which, p, o)
    if which == "C07":
        two_day_checks(chk, profs, res["profiles"])
    if which == "C06":
        split_checks(chk, profs, res["profiles"])
    if which == "C08":
        csv_time_axis(chk)
    if which == "C07":
        design_level_loads(chk)
    if which == "C06" and len(chk.violations) < 4:
        nontrivial += ghe_level_energy(chk)
    if which == "C06" and len(chk.violations) < 4:
        nontrivial += csv_energy(chk)
    # listed findings are re-run on their exact input
    for kf in chk.open_findings("hybrid-profile"):
        r = run_impl("hybrid.py", {"profiles": [kf["input"]]})
        if "_error" not in r:
            oracle_profile(chk, which, kf["input"], r["profiles"][0])
    chk.cov["distinct_nontrivial"] = nontrivial
    chk.cov["rule"] = ("injected monthly data (exact Fractions and floats; all peak-day orderings, same-day, first-day, missing pulses, horizons 1..120/360) "
                       "run through the REAL process_month_loads and compared segment by segment with the generated Src.process_month_loads and with the hand model; "
                       "real HybridLoad objects from generated hourly profiles; non-trivial = a month (or a sequence) on which the property's oracle compared something")
    chk.sample({"inject_case": {k: str(v)[:80] for k, v in inject_payload(cases[0]).items()}})
    chk.sample({"profile": profs[0]})
    chk.cov["trusted_base"] = ["the hand model Model/Hybrid.v is compared with the generated Src.process_month_loads inside Coq on every case (both against the implementation's output)"]
    return chk.finish(assumptions=["theorems exclude the documented 1e-6 clamp of a negative pulse start (1 January, duration > 26 h)"])
