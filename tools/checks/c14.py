"""C14 — RowWise on convex lots terminates, stays inside, keeps spacing, fills the lot (partial: exact core proved, float behaviour observed)."""
import json, math, re
from fractions import Fraction as F
from lib import *

HEADER = """From Coq Require Import ZArith QArith Qround List Bool.
From GHE Require Import Base.QUtil Model.RowCore.
Import ListNotations. Open Scope Q_scope.
"""
SIG_THIN = "callsite:gen_borehole_config:num_rows==0"
SIG_YAXIS = "callsite:sort_intersections:edge-on-y-axis-at-minus-90"


def convex(rng, n, cx, cy, r):
    ang = sorted(rng.uniform(0, 2 * math.pi) for _ in range(n))
    if n > 4 and rng.random() < 0.8:
        # vertices on a rotated ellipse: strictly convex for any number of vertices
        a, b, t = r, r * rng.uniform(0.35, 1.0), rng.uniform(0, math.pi)
        return [[round(cx + a * math.cos(w) * math.cos(t) - b * math.sin(w) * math.sin(t), 3), round(cy + a * math.cos(w) * math.sin(t) + b * math.sin(w) * math.cos(t), 3)] for w in ang]
    return [[round(cx + r * rng.uniform(0.7, 1.0) * math.cos(a), 3), round(cy + r * rng.uniform(0.7, 1.0) * math.sin(a), 3)] for a in ang]


def hull(pts):
    """convex hull (counter-clockwise, no collinear points)"""
    pts = sorted(set((round(x, 3), round(y, 3)) for x, y in pts))

    def half(seq):
        h = []
        for p in seq:
            while len(h) >= 2 and (h[-1][0] - h[-2][0]) * (p[1] - h[-2][1]) - (h[-1][1] - h[-2][1]) * (p[0] - h[-2][0]) <= 0:
                h.pop()
            h.append(p)
        return h
    lo, up = half(pts), half(reversed(pts))
    return [list(p) for p in lo[:-1] + up[:-1]]


def is_convex(p):
    s = 0
    for i in range(len(p)):
        a, b, c = p[i - 2], p[i - 1], p[i]
        cr = (b[0] - a[0]) * (c[1] - b[1]) - (b[1] - a[1]) * (c[0] - b[0])
        if cr != 0:
            if s == 0:
                s = 1 if cr > 0 else -1
            elif (cr > 0) != (s > 0):
                return False
    return True


def inside_convex(p, poly, tol=1e-6):
    sg = None
    for i in range(len(poly)):
        a, b = poly[i - 1], poly[i]
        cr = (b[0] - a[0]) * (p[1] - a[1]) - (b[1] - a[1]) * (p[0] - a[0])
        L = math.hypot(b[0] - a[0], b[1] - a[1])
        if abs(cr) / L < tol:
            continue
        if sg is None:
            sg = cr > 0
        elif (cr > 0) != sg:
            return False
    return True


def extent_across(poly, rot_deg):
    """extent of the lot perpendicular to rows at this rotation (what gen_borehole_config divides by the spacing)"""
    r = math.radians(rot_deg)
    v = [-x * math.sin(r) + y * math.cos(r) for x, y in poly]
    return max(v) - min(v)


def strictly_inside(p, poly, margin):
    """p is inside the convex polygon and at least margin away from every edge line"""
    sg = None
    for i in range(len(poly)):
        a, b = poly[i - 1], poly[i]
        cr = (b[0] - a[0]) * (p[1] - a[1]) - (b[1] - a[1]) * (p[0] - a[0])
        L = math.hypot(b[0] - a[0], b[1] - a[1])
        if L == 0:
            continue
        if abs(cr) / L < margin:
            return False
        if sg is None:
            sg = cr > 0
        elif (cr > 0) != sg:
            return False
    return True


def gen_cases(rng, tier):
    cs = []
    # rotation windows that are not a whole number of steps, on axis-aligned rectangles: the LAST tried rotation (0 deg) is the densest
    for (st, sp, stp) in ([(-30.0, 5.0, 10.0), (-45.0, 2.5, 15.0)] if tier == "quick" else [(-30.0, 5.0, 10.0), (-45.0, 2.5, 15.0), (-20.0, 1.0, 5.0), (-60.0, 7.0, 7.5), (-14.0, 0.5, 2.0)]):
        W, Hh = rng.choice([(100.0, 60.0), (80.0, 50.0), (60.0, 60.0)])
        cs.append({"mode": "optimize", "poly": [[0.0, 0.0], [W, 0.0], [W, Hh], [0.0, Hh]], "spacing": 10.0, "rot_step": stp, "rot_start": st, "rot_stop": sp, "timeout": 60})
    cs.append({"mode": "optimize", "poly": [[0.0, 0.0], [90.0, 10.0], [110.0, 60.0], [20.0, 50.0]], "spacing": 9.0, "rot_step": 5.0, "rot_start": 0.0, "rot_stop": 45.0, "timeout": 60})
    n = 24 if tier == "quick" else 160
    n += len(cs)
    while len(cs) < n:
        nv = rng.randint(3, 12)
        r = rng.uniform(40, 90)
        poly = convex(rng, nv, r + rng.uniform(5, 30), r + rng.uniform(5, 30), r)
        if not is_convex(poly) or min(min(p) for p in poly) < 0:
            continue
        u = rng.random()
        if u < 0.35:       # outline touching one or both coordinate axes
            mx = min(p[0] for p in poly) if rng.random() < 0.7 else 0.0
            my = min(p[1] for p in poly) if rng.random() < 0.7 else 0.0
            poly = [[round(p[0] - mx, 3), round(p[1] - my, 3)] for p in poly]
        if rng.random() < 0.5:
            poly = poly[::-1]
        sp = round(rng.uniform(5, 25), 2)
        c = {"mode": "optimize", "poly": poly, "spacing": sp, "rot_step": rng.choice([2.0, 5.0, 15.0, 7.5]), "rot_start": rng.choice([-90.0, -85.0, -45.0, -30.0, 0.0]),
             "rot_stop": rng.choice([0.0, 30.0, 85.0, 90.0]), "timeout": 60}
        if c["rot_stop"] <= c["rot_start"]:
            c["rot_stop"] = rng.choice([45.0, 90.0])            # a window that starts exactly at 0 degrees
        if rng.random() < 0.3:
            cx = sum(p[0] for p in poly) / len(poly)
            cy = sum(p[1] for p in poly) / len(poly)
            dmin = min(abs((b[0] - a[0]) * (cy - a[1]) - (b[1] - a[1]) * (cx - a[0])) / math.hypot(b[0] - a[0], b[1] - a[1])
                       for a, b in zip(poly, poly[1:] + poly[:1]))
            ng = convex(rng, rng.randint(3, 6), cx, cy, 0.5 * dmin)
            if is_convex(ng) and all(strictly_inside(q_, poly, 1e-3) for q_ in ng):
                c["nogo"] = [ng]
        if rng.random() < 0.3:
            c["perimeter"] = rng.choice([0.6, 0.8, 1.0])
        cs.append(c)
    # a no-go zone narrower than the spacing, close to the outline (rows crossing it have their gap widened towards the outline)
    for _ in range(20 if tier == "quick" else 60):
        nv = rng.randint(3, 8)
        r = rng.uniform(40, 80)
        poly = convex(rng, nv, r + 10, r + 10, r)
        if not is_convex(poly) or min(min(p) for p in poly) < 0:
            continue
        sp = round(rng.uniform(8, 25), 2)
        k = rng.randrange(len(poly))
        a, b = poly[k - 1], poly[k]
        cx = sum(p[0] for p in poly) / len(poly)
        cy = sum(p[1] for p in poly) / len(poly)
        t = rng.uniform(0.3, 0.7)
        ex, ey = a[0] + t * (b[0] - a[0]), a[1] + t * (b[1] - a[1])
        L = math.hypot(cx - ex, cy - ey)
        off = rng.uniform(0.1, 0.45) * sp + 1.0
        px, py = ex + (cx - ex) * off / L, ey + (cy - ey) * off / L
        ng = convex(rng, rng.randint(3, 5), px, py, rng.uniform(0.4, 1.0))
        if not (is_convex(ng) and all(strictly_inside(q_, poly, 1e-3) for q_ in ng)):
            continue
        cs.append({"mode": "optimize", "poly": poly, "spacing": sp, "rot_step": rng.choice([5.0, 7.5, 15.0]), "rot_start": rng.choice([-90.0, -45.0]),
                   "rot_stop": rng.choice([30.0, 90.0]), "timeout": 60, "nogo": [ng]})
    # three or more no-go zones in a line (one row crosses them all): buildings along the middle of a long, slightly irregular lot;
    # every rotation of the window is also generated on its own (each is a field RowWise can return)
    for _ in range(2 if tier == "quick" else 10):
        W, Hh = rng.choice([(200.0, 60.0), (170.0, 56.0), (240.0, 70.0)])
        lot = [[10.0, 10.0], [10.0 + W - rng.uniform(0, 6), 10.0 + rng.uniform(0, 3)], [10.0 + W, 10.0 + Hh - rng.uniform(0, 4)], [10.0 + rng.uniform(0, 3), 10.0 + Hh]]
        sp = rng.choice([8.0, 9.0, 11.0])
        nz = rng.choice([3, 3, 4])
        zs = []
        for k in range(nz):
            cx = 10.0 + W * (k + 1) / (nz + 1) + rng.uniform(-4, 4)
            cy = 10.0 + Hh / 2 + rng.uniform(-2, 2)
            w2, h2 = rng.uniform(6, 9), rng.uniform(7, 10)
            z = [[cx - w2, cy - h2 + rng.uniform(0, 1)], [cx + w2, cy - h2], [cx + w2 + rng.uniform(0, 1), cy + h2], [cx - w2, cy + h2 + rng.uniform(0, 1)]]
            zs.append([[round(a_, 3), round(b_, 3)] for a_, b_ in z])
        if not (is_convex(lot) and all(is_convex(z) and all(strictly_inside(q_, lot, 1.0) for q_ in z) for z in zs)):
            continue
        cs.append({"mode": "optimize", "poly": lot, "spacing": sp, "rot_step": 2.0, "rot_start": -6.0, "rot_stop": 6.5, "timeout": 60, "nogo": zs})
        for deg in (-6.0, -4.0, -2.0, 0.0, 2.0, 4.0, 6.0):
            cs.append({"mode": "config", "poly": lot, "spacing": sp, "rotate": deg, "rot_start": deg, "rot_step": 1.0, "rot_stop": deg + 0.5, "timeout": 60, "nogo": zs})
    # ... and one fixed lot of that family (three buildings in a line), independent of the seed
    lot3 = [[10.0, 10.0], [210.0, 11.0], [212.0, 68.0], [11.0, 70.0]]
    zs3 = [[[cx - 11.0, 31.5], [cx + 11.0, 31.0], [cx + 11.5, 48.0], [cx - 11.0, 48.5]] for cx in (55.0, 110.0, 165.0)]
    cs.append({"mode": "optimize", "poly": lot3, "spacing": 9.0, "rot_step": 2.0, "rot_start": -4.0, "rot_stop": 4.5, "timeout": 60, "nogo": zs3})
    for deg in (-2.0, 0.0, 2.0):
        cs.append({"mode": "config", "poly": lot3, "spacing": 9.0, "rotate": deg, "rot_start": deg, "rot_step": 1.0, "rot_stop": deg + 0.5, "timeout": 60, "nogo": zs3})
    # corners on the axes / at the origin, edges on the axes, the full [-90, 90] window
    cs.append({"mode": "optimize", "poly": [[0, 0], [80, 0], [40, 60]], "spacing": 10.0, "rot_step": 5.0, "rot_start": -85.0, "rot_stop": 85.0, "timeout": 60})
    cs.append({"mode": "optimize", "poly": [[0, 10], [60, 0], [90, 50], [20, 70]], "spacing": 12.0, "rot_step": 5.0, "rot_start": -60.0, "rot_stop": 60.0, "timeout": 60})
    cs.append({"mode": "optimize", "poly": [[0, 0], [100, 0], [100, 60], [0, 60]], "spacing": 10.0, "rot_step": 15.0, "rot_start": -90.0, "rot_stop": 90.0, "timeout": 60})
    cs.append({"mode": "optimize", "poly": [[0, 0], [0, 60], [80, 0]], "spacing": 10.0, "rot_step": 15.0, "rot_start": -90.0, "rot_stop": 0.0, "timeout": 60})
    cs.append({"mode": "optimize", "poly": [[0, 0], [30, 0], [30, 8], [0, 8]], "spacing": 10.0, "rot_step": 15.0, "rot_start": -45.0, "rot_stop": 45.0, "timeout": 60})
    return cs


def rect_cases(rng, tier):
    cs = []
    for _ in range(10 if tier == "quick" else 60):
        W = rng.choice([40.0, 55.5, 100.0, 72.25])
        H = rng.choice([30.0, 25.5, 60.0, 48.75])
        x0, y0 = rng.choice([(0.0, 0.0), (10.0, 5.0), (3.5, 12.25)])
        sp = rng.choice([7.0, 10.0, 12.5, 6.25])
        # keep W/sp and H/sp away from integers (the float floor-division is not modelled)
        if abs(W / sp - round(W / sp)) < 1e-6 or abs(H / sp - round(H / sp)) < 1e-6:
            sp += 0.3
        cs.append({"mode": "config", "poly": [[x0, y0], [x0 + W, y0], [x0 + W, y0 + H], [x0, y0 + H]], "spacing": sp, "rotate": 0.0, "timeout": 30,
                   "_W": W, "_H": H, "_x0": x0, "_y0": y0})
    return cs


def oracle(chk, c, o):
    pub = {k: v for k, v in c.items() if not k.startswith("_")}
    if not o.get("ok"):
        thin = any(extent_across(c["poly"], c["rot_start"] + k * c["rot_step"]) < c["spacing"] for k in range(int((c["rot_stop"] - c["rot_start"]) / c["rot_step"]) + 1)) if c["mode"] == "optimize" else False
        if o.get("exc") == "ZeroDivisionError" and thin:
            chk.violation("rowwise", pub, {"exception": "ZeroDivisionError"}, "field generation succeeds on a convex lot", signature=SIG_THIN)
        elif o.get("exc") in ("Timeout", "MemoryError"):
            yaxis = any(abs(a[0]) < 1e-12 and abs(b[0]) < 1e-12 for a, b in zip(c["poly"], c["poly"][1:] + c["poly"][:1])) and c.get("rot_start", 0) <= -90.0
            chk.violation("rowwise", pub, {"outcome": o.get("exc"), "msg": o.get("msg")}, "RowWise field generation terminates on a convex lot", signature=SIG_YAXIS if yaxis else None)
        else:
            chk.violation("rowwise", pub, {"exception": o.get("exc"), "msg": o.get("msg")}, "field generation succeeds on a convex lot")
        return 0
    pts = o["pts"]
    n = 0
    out = [p for p in pts if not inside_convex(p, c["poly"])]
    n += 1
    if out:
        chk.violation("rowwise", pub, {"outside": out[:3], "of": len(pts)}, "every borehole inside or on the outline")
    for ng in c.get("nogo") or []:
        n += 1
        bad = [p for p in pts if strictly_inside(p, ng, 1e-6)]
        if bad:
            chk.violation("rowwise", pub, {"inside_no_go": bad[:3], "of": len(pts)}, "no borehole inside a no-go zone")
    if c.get("nogo") or c.get("perimeter") is not None:
        return n
    md = min((math.hypot(a[0] - b[0], a[1] - b[1]) for i, a in enumerate(pts) for b in pts[i + 1:]), default=1e9)
    n += 1
    if md < c["spacing"] - 1e-6:
        chk.violation("rowwise", pub, {"min_distance": md, "n": len(pts)}, f"all boreholes at least the target spacing {c['spacing']} apart (no perimeter, no no-go zones)")
    return n


def design_level(chk):
    """the other observation point: BoreFieldData.csv / the selected field of ROWWISE designs made through GHEManager — two designs one
    after the other in ONE process (a lot, then the same lot translated), and a lot with a TRIANGULAR no-go zone given through the
    public interface (geometry.py and the search class lie between the user's polygons and field_optimization_*)"""
    import csv
    from configs import cfg
    lot = [[0.0, 0.0], [48.0, 0.0], [58.0, 28.0], [30.0, 46.0], [0.0, 34.0]]
    tri = [[18.0, 12.0], [34.0, 15.0], [24.0, 30.0]]
    dx, dy = 120.0, 80.0
    go = {"perimeter_spacing_ratio": None, "max_spacing": 12.0, "min_spacing": 5.0, "spacing_step": 1.0, "max_rotation": 10.0, "min_rotation": -10.0, "rotate_step": 5.0}
    ld = {"kind": "balanced", "scale": 26000.0, "seed": 5}
    a = cfg("ROWWISE", months=12, loads=ld, geom_over=dict(go, property_boundary=lot, no_go_boundaries=[]))
    b = cfg("ROWWISE", months=12, loads=ld, geom_over=dict(go, property_boundary=[[x + dx, y + dy] for x, y in lot], no_go_boundaries=[]))
    c = cfg("ROWWISE", months=12, loads=ld, geom_over=dict(go, property_boundary=lot, no_go_boundaries=[tri], perimeter_spacing_ratio=0.8))
    d = cfg("ROWWISE", months=12, loads=ld, geom_over=dict(go, property_boundary=lot, no_go_boundaries=[list(reversed(tri))]))
    seqs = [[a, b], [c]] if chk.tier == "quick" else [[a, b], [c], [d, a]]
    work = os.path.join(chk.scratch, "rwdesign")
    from concurrent.futures import ThreadPoolExecutor

    def one(k):
        od = os.path.join(work, f"s{k}")
        os.makedirs(od, exist_ok=True)
        return run_impl("e2e.py", {"configs": seqs[k], "outdir": od}, timeout=3000)
    with ThreadPoolExecutor(max_workers=len(seqs)) as ex:
        rs = list(ex.map(one, range(len(seqs))))
    n = 0
    for seq, rr in zip(seqs, rs):
        if isinstance(rr, dict) and "_error" in rr:
            chk.broken.append({"name": "end-to-end ROWWISE run failed in the harness", "detail": rr["_error"][-300:]})
            continue
        for pos, (cf, r) in enumerate(zip(seq, rr)):
            chk.cov["evaluations"] += 1
            gc = cf["geometric_constraints"]
            pub = {"sequence_position": pos, "geometric_constraints": gc, "loads": cf["loads"], "earlier_in_the_same_process": [x["geometric_constraints"]["property_boundary"] for x in seq[:pos]]}
            if not r.get("ok"):
                if r.get("exc") != "ValueError" and len(chk.violations) < 5:
                    chk.violation("rowwise-design", pub, {"exception": r.get("exc"), "msg": r.get("msg")}, "a ROWWISE design on a convex lot ends with a design")
                continue
            fields = {"selected field": r["coords"]}
            try:
                with open(os.path.join(r["outdir"], "BoreFieldData.csv")) as fh:
                    fields["BoreFieldData.csv"] = [[float(x[0]), float(x[1])] for x in list(csv.reader(fh))[1:]]
            except (OSError, ValueError, KeyError) as ex_:
                chk.notes.append({"borefield_csv_not_read": str(ex_)})
            for where, pts in fields.items():
                n += 1
                out = [p for p in pts if not inside_convex(p, gc["property_boundary"])]
                if out and len(chk.violations) < 5:
                    chk.violation("rowwise-design", pub, {"where": where, "outside": out[:3], "of": len(pts)}, "every borehole inside or on the outline")
                for ng in gc["no_go_boundaries"]:
                    bad = [p for p in pts if strictly_inside(p, ng if is_ccw(ng) else list(reversed(ng)), 1e-6)]
                    if bad and len(chk.violations) < 5:
                        chk.violation("rowwise-design", pub, {"where": where, "inside_no_go": bad[:3], "of": len(pts)}, "no borehole inside a no-go zone")
    return n


def is_ccw(poly):
    return sum(poly[i - 1][0] * poly[i][1] - poly[i][0] * poly[i - 1][1] for i in range(len(poly))) > 0


def run(chk):
    quick = chk.tier == "quick"
    chk.build("C14", extra=["Model/RowCore"])
    rng = chk.rng
    cases = gen_cases(rng, chk.tier)
    from concurrent.futures import ThreadPoolExecutor
    with ThreadPoolExecutor(max_workers=NPROC) as ex:
        rs = list(ex.map(lambda c: run_impl("rowwise_drv.py", {"cases": [{k: v for k, v in c.items() if not k.startswith("_")}]}, timeout=200), cases))
    nontrivial = 0
    chk.cov["evaluations"] += len(cases)
    for c, rr in zip(cases, rs):
        if isinstance(rr, dict) and "_error" in rr:
            chk.broken.append({"name": "correspondence C14 (implementation driver failed)", "detail": rr["_error"][-300:]})
            continue
        if len(chk.violations) < 5:
            nontrivial += oracle(chk, c, rr[0])
    dist = {"with_no_go": sum(1 for c in cases if c.get("nogo")), "with_perimeter": sum(1 for c in cases if c.get("perimeter") is not None),
            "window_from_-90": sum(1 for c in cases if c["rot_start"] == -90.0), "touching_an_axis": sum(1 for c in cases if min(p[0] for p in c["poly"]) == 0 or min(p[1] for p in c["poly"]) == 0),
            "clockwise": sum(1 for c in cases if sum((b[0] - a[0]) * (b[1] + a[1]) for a, b in zip(c["poly"], c["poly"][1:] + c["poly"][:1])) > 0),
            "vertices": {}, "boreholes_returned": {}}
    for c, rr in zip(cases, rs):
        dist["vertices"][str(len(c["poly"]))] = dist["vertices"].get(str(len(c["poly"])), 0) + 1
        if not (isinstance(rr, dict) and "_error" in rr) and rr[0].get("ok"):
            b = len(rr[0]["pts"])
            k = "0" if b == 0 else "1-9" if b < 10 else "10-99" if b < 100 else "100+"
            dist["boreholes_returned"][k] = dist["boreholes_returned"].get(k, 0) + 1
    chk.cov["input_distribution"] = dist
    # listed findings on their exact inputs
    for kf in chk.listed_inputs("rowwise"):
        rr = run_impl("rowwise_drv.py", {"cases": [kf["input"]]}, timeout=200)
        if not (isinstance(rr, dict) and "_error" in rr):
            oracle(chk, kf["input"], rr[0])
    # sweep: the optimiser returns the field of the first rotation with the most boreholes
    sw = []
    plain = [k for k, c in enumerate(cases) if c.get("perimeter") is None and c["mode"] == "optimize"]
    plain = plain[: (7 if quick else 35)]
    for k in plain:
        sw.append(dict(cases[k], mode="sweep_counts"))
    with ThreadPoolExecutor(max_workers=NPROC) as ex:
        rs2 = list(ex.map(lambda c: run_impl("rowwise_drv.py", {"cases": [c]}, timeout=200), sw))
    sweep_items = []
    for c, rr, ro in zip(sw, rs2, [rs[k] for k in plain]):
        if isinstance(rr, dict) or not rr[0].get("ok") or isinstance(ro, dict) or not ro[0].get("ok"):
            continue
        counts = rr[0]["counts"]
        best = max(counts)
        chk.cov["evaluations"] += 1
        nontrivial += 1
        got = len(ro[0]["pts"])
        # remove_duplicates may drop a few points of the best field; it never adds
        if got > best or got < best - 3:
            chk.violation("rowwise-sweep", {k: v for k, v in c.items()}, {"returned": got, "per_rotation": counts}, "the optimiser returns the field of the tried rotation with the most boreholes")
        first = counts.index(best)
        want_name = f"rt{rr[0]['tried'][first]:0.1f}"
        if not ro[0]["name"].endswith(want_name):
            chk.violation("rowwise-sweep", {k: v for k, v in c.items()}, {"name": ro[0]["name"], "per_rotation": counts}, f"...and names the FIRST such rotation ({want_name})")
        sweep_items.append((counts, best, first))
    # rectangles at rotation 0: exact lattice, translation
    rc = rect_cases(rng, chk.tier)
    with ThreadPoolExecutor(max_workers=NPROC) as ex:
        rs3 = list(ex.map(lambda c: run_impl("rowwise_drv.py", {"cases": [{k: v for k, v in c.items() if not k.startswith("_")}]}, timeout=120), rc))
    rect_items = []
    by_shape = {}
    for c, rr in zip(rc, rs3):
        if isinstance(rr, dict) and "_error" in rr:
            chk.broken.append({"name": "rectangle run failed in the harness", "detail": rr["_error"][-200:]})
            continue
        o = rr[0]
        chk.cov["evaluations"] += 1
        pub = {k: v for k, v in c.items() if not k.startswith("_")}
        if not o.get("ok"):
            chk.violation("rowwise-rect", pub, {"exception": o.get("exc"), "msg": o.get("msg")}, "an axis-aligned rectangular lot is filled at rotation 0")
            continue
        W, H, sp = c["_W"], c["_H"], c["spacing"]
        want = (math.floor(W / sp) + 1) * (math.floor(H / sp) + 1)
        nontrivial += 1
        if len(o["pts"]) != want:
            chk.violation("rowwise-rect", pub, {"boreholes": len(o["pts"])}, f"exactly (floor(W/s)+1) x (floor(H/s)+1) = {want} boreholes")
        rel = sorted((round(p[0] - c["_x0"], 6), round(p[1] - c["_y0"], 6)) for p in o["pts"])
        key = (W, H, sp)
        if key in by_shape and by_shape[key][0] != rel:
            chk.violation("rowwise-rect", pub, {"translated_by": [c["_x0"], c["_y0"]], "other_origin": by_shape[key][1]}, "translating the lot translates the field rigidly")
        by_shape.setdefault(key, (rel, [c["_x0"], c["_y0"]]))
        rect_items.append((c, o))
    # translating a convex lot translates the field rigidly: lots with a corner at the origin / on an axis against their translates, one rotation each
    tr = []
    for _ in range(6 if quick else 40):
        nv = rng.randint(3, 8)
        r0 = rng.uniform(35, 70)
        poly = convex(rng, nv, r0 + 3, r0 + 3, r0)
        if not is_convex(poly):
            continue
        mx, my = min(p[0] for p in poly), min(p[1] for p in poly)
        poly = [[round(p[0] - mx, 3), round(p[1] - my, 3)] for p in poly]          # first quadrant, touching both axes
        if rng.random() < 0.7:
            poly = hull(poly + [[0.0, 0.0]])                                          # ... with a corner exactly at the origin
        if rng.random() < 0.5:
            poly = poly[::-1]
        if len(poly) < 3:
            continue
        dx, dy = rng.choice([(8.0, 4.0), (13.5, 5.25), (0.0, 21.75)])
        rot = rng.choice([-60.0, -30.0, -7.5, 0.0, 20.0, 45.0])
        sp = round(rng.uniform(6, 14), 2)
        tr.append(({"mode": "config", "poly": poly, "spacing": sp, "rotate": rot, "timeout": 40},
                   {"mode": "config", "poly": [[round(p[0] + dx, 3), round(p[1] + dy, 3)] for p in poly], "spacing": sp, "rotate": rot, "timeout": 40}, (dx, dy)))
    for poly, sp, rot, (dx, dy) in (([[0.0, 0.0], [70.0, 0.0], [90.0, 40.0], [40.0, 80.0], [0.0, 50.0]], 10.0, -30.0, (8.0, 4.0)),
                                    ([[0.0, 0.0], [80.0, 10.0], [30.0, 70.0]], 8.5, -45.0, (13.5, 5.25)),
                                    ([[0.0, 0.0], [60.0, 0.0], [60.0, 45.0], [0.0, 45.0]], 7.0, -15.0, (0.0, 21.75))):
        tr.append(({"mode": "config", "poly": poly, "spacing": sp, "rotate": rot, "timeout": 40},
                   {"mode": "config", "poly": [[p[0] + dx, p[1] + dy] for p in poly], "spacing": sp, "rotate": rot, "timeout": 40}, (dx, dy)))
    with ThreadPoolExecutor(max_workers=NPROC) as ex:
        rt = list(ex.map(lambda pr: run_impl("rowwise_drv.py", {"cases": [pr[0], pr[1]]}, timeout=200), tr))
    for (a_, b_, (dx, dy)), rr in zip(tr, rt):
        if isinstance(rr, dict) and "_error" in rr:
            chk.broken.append({"name": "translation run failed in the harness", "detail": rr["_error"][-200:]})
            continue
        chk.cov["evaluations"] += 1
        if not (rr[0].get("ok") and rr[1].get("ok")):
            if len(chk.violations) < 5:
                chk.violation("rowwise-translate", {"lot": a_, "translated": b_}, {"outcomes": [rr[0].get("exc"), rr[1].get("exc")]}, "field generation succeeds on a convex lot and on its translate")
            continue
        nontrivial += 1
        pa = sorted((round(p[0] + dx, 5), round(p[1] + dy, 5)) for p in rr[0]["pts"])
        pb = sorted((round(p[0], 5), round(p[1], 5)) for p in rr[1]["pts"])
        same = len(pa) == len(pb) and all(abs(x[0] - y[0]) + abs(x[1] - y[1]) < 1e-4 for x, y in zip(pa, pb))
        if not same and len(chk.violations) < 5:
            chk.violation("rowwise-translate", {"lot": a_, "translated_by": [dx, dy]}, {"boreholes": len(pa), "boreholes_of_the_translated_lot": len(pb)},
                          "translating the lot translates the field rigidly")
    if len(chk.violations) < 5:
        nontrivial += design_level(chk)
    # correspondence with the exact model: the rectangle at rotation 0 (sorted point sets, 1e-6 m)
    if getattr(chk, "model_ok", False):
        items = []
        for c, o in rect_items:
            pts = sorted((round(p[0], 9), round(p[1], 9)) for p in o["pts"])
            lit = "[" + "; ".join(f"({q(F(a).limit_denominator(10**9))}, {q(F(b).limit_denominator(10**9))})" for a, b in pts) + "]"
            items.append(f"({q(F(c['_x0']))}, {q(F(c['_y0']))}, {q(F(c['_W']))}, {q(F(c['_H']))}, {q(F(c['spacing']).limit_denominator(10**6))}, {lit})")
        sl = "[" + "; ".join("([" + "; ".join(str(x) for x in cnts) + "]%nat, " + f"{b}%nat, {f}%nat)" for cnts, b, f in sweep_items) + "]"
        txt = HEADER + "Definition cases : list (Q * Q * Q * Q * Q * list (Q * Q)) := [\n" + ";\n".join(items) + f"""].
Definition tol : Q := 1 # 1000000.
Definition near (a b : Q * Q) : bool := qleb (Qabs.Qabs (fst a - fst b)) tol && qleb (Qabs.Qabs (snd a - snd b)) tol.
Definition ok (c : Q * Q * Q * Q * Q * list (Q * Q)) : bool :=
  let '(x0, y0, W, H, sp, pts) := c in
  let m := rect_field x0 y0 W H sp in
  Nat.eqb (length m) (length pts) && forallb (fun p => existsb (near p) pts) m && forallb (fun p => existsb (near p) m) pts.
Definition sweeps : list (list nat * nat * nat) := {sl}.
Definition sok (s : list nat * nat * nat) : bool := let '(cnts, b, f) := s in let r := sweep_best cnts in Nat.eqb (fst r) b && Nat.eqb (snd r) f.
Eval vm_compute in (length cases, length (filter (fun c => negb (ok c)) cases), length sweeps, length (filter (fun s => negb (sok s)) sweeps)).
"""
        rcq, out, err = chk.coq_eval("rw", txt, timeout=900)
        m = re.search(r"=\s*\((\d+)(?:%nat)?,\s*(\d+)(?:%nat)?,\s*(\d+)(?:%nat)?,\s*(\d+)(?:%nat)?\)", " ".join(out.split()))
        if rcq != 0 or not m:
            chk.broken.append({"name": "correspondence C14 did not evaluate", "detail": (err or out)[-400:]})
        else:
            if int(m.group(2)) or int(m.group(4)):
                chk.broken.append({"name": "correspondence C14: Model/RowCore (rectangle lattice / sweep argmax) differs from the real generator", "detail": f"rectangles {m.group(2)}/{m.group(1)}, sweeps {m.group(4)}/{m.group(3)}"})
            chk.cov["traces_validated_against_impl"] = int(m.group(1)) - int(m.group(2)) + int(m.group(3)) - int(m.group(4))
            chk.cov["correspondence_cases"] = int(m.group(1)) + int(m.group(3))
    chk.cov["distinct_nontrivial"] = nontrivial
    chk.cov["rule"] = ("random convex lots (3-12 vertices, both orientations, non-negative coordinates), some touching one or both axes, convex no-go zones and perimeter ratios on ~30% each; rotation windows within [-90, 90] degrees, each call under a 60 s wall-clock and 3 GB limit; "
                       "axis-aligned rectangles at rotation 0 at several origins; non-trivial = one geometric fact (inside, spacing, count, argmax, translation)")
    chk.sample({"case": {k: v for k, v in cases[0].items()}})
    chk.cov["trusted_base"] = ["partial: only the exact-arithmetic core is proved; termination, trigonometry, duplicate removal, no-go and perimeter handling are observed under a time limit"]
    return chk.finish(assumptions=["convexity test and inside test of the oracle use a 1e-6 m tolerance"])


def replay(payload):
    from lib import Check
    chk = Check("C14", "quick", payload.get("seed", 0))
    if payload.get("kind") != "rowwise":
        return "RERUN"
    c = payload["input"]
    rr = run_impl("rowwise_drv.py", {"cases": [c]}, timeout=200)
    if payload.get("kind") == "rowwise":
        oracle(chk, c, rr[0])
    for path, found, pl in chk.violations:
        print(f"VIOLATION property=C14 replay={path}")
    return 1 if chk.violations else 0
