#!/usr/bin/env python3
"""writes MANIFEST.json from the table below (kept in one place so it stays valid)"""
import json, os
HERE = os.path.dirname(os.path.dirname(os.path.abspath(__file__)))
CHECKS = {
 "C19": ("Coq: on the functions REGENERATED from output.py — ghe_time_convert labels all 8760 hours correctly (lifted exhaustive sweep); hours_to_month equals the calendar conversion for EVERY rational hour count, is monotone, 1/672-Lipschitz and integral at month ends; the hourly-loads, bore-field and g-function row builders REGENERATED: for every input the rows echo the loads / coordinates / curve in order with their labels; exact Fraction correspondence with the real code",
         "theorems are about exact rationals; the float code is compared on this run's points; the CSV files themselves (formatting, file names) observed on real runs", "5 C19"),
}
CHECKS.update({
 "C01": ("Coq: C01_feasible for every excess oracle / candidate list / cap / policy (search model + solve_root model, leaf expressions regenerated from the source), cost_spec on the regenerated BaseGHE.cost; exact correspondence of the model with the real Bisection1D/2D/ZD code on ~2.4k stub-oracle searches per run; re-simulation of real designs",
         "premises visible in the theorem: brentq contract, objective agreement at the bracket ends (measured on real runs), no exactly-zero excess; the RowWise design search is a hand-written model (Model/RowSearch.v) compared call by call with the real search under stub oracles; returned designs are re-simulated from scratch from the requested inputs", "5 C01"),
 "C02": ("Coq: height bounds, cap, complete unmet-design policy (both directions), only-ValueError theorem, for every oracle; same correspondence; boundary end-to-end runs with both policy values",
         "brentq returns a point of its bracket (premise); non-degeneracy = admissible upper index and no exactly-zero excess; RowWise search model compared call by call; near-square largest-candidate theorem on the regenerated ring count; design-level searches through the real Design classes with a synthetic excess", "5 C02"),
 "C05": ("Coq: bisection loop invariant (adjacent end, every list length <= 2^max_iter with max_iter read from the source), first-feasible and no-larger-than-evaluated theorems for every oracle, solve_root case theorem, ZD selection theorem; same correspondence; root/drilling checked on real designs",
         "distinct evaluated excess values assumed (C05_ties_refuted shows the lookup-by-value behaviour otherwise); ZD 'smallest count' only under monotone excess; call-site wiring regenerated (no design class overrides tol / max_iter); first-feasible checked through the real Design classes on 80-200 candidate lists", "5 C05"),
})
CHECKS.update({
 "C06": ("Coq: month-energy theorem for ALL rational monthly data (all peak-day orderings, pulses present or not, explicit degenerate-duration term), horizon theorem by induction over any number of months; split_heat_and_cool REGENERATED and proved pointwise for every profile, split_loads_by_month REGENERATED and validated on whole years; the whole 230-line process_month_loads is translated to Gallina on every run and compared, with the hand model, against the real method segment by segment",
         "theorems exclude the documented 1e-6 clamp of a negative pulse start; float rounding not modelled (exact Fraction stream + float stream with 1e-9 tolerance)", "5 C06"),
 "C07": ("Coq: retention window, pulse presence/sign/length/centre theorems, same-day abutment, no-pulse theorems on the month model; the two-day window of every peak day (day before + peak day, year wrapping) proved on process_two_day_loads REGENERATED from the source for every year of loads and every peak day; same correspondence; magnitudes, days, durations checked on real HybridLoad objects",
         "the value of a duration (Cullin & Spitler inverse through the short-time response) is recomputed from its definition by the check on real objects, not proved; durations > 48 h for sub-100 W peaks are a listed known finding", "5 C07"),
 "C08": ("Coq: calendar helpers regenerated from the source = closed form for every month of a 50-year horizon (complete finite domain), closed form periodic for every month number, every month end a breakpoint (induction over month lists), replication, strict monotonicity under disjoint windows; same correspondence",
         "single load year (what the manager passes): 2019 and the leap year 2020 both proved against their closed forms; a LIST of load years is refuted by a witness (observation, outside the quantifier)", "5 C08"),
})
CHECKS.update({
 "C03": ("Coq: spacing/row arithmetic for all rational lot sizes, lattice theorem on coordinates.rectangle REGENERATED from the source, the regenerated near-square list (i x i then i x (i+1), counts non-decreasing, for every index range), soundness of the field check; every domain generator (rectangular, bi_rectangular, bi_rectangle_nested, zoned_rectangle_domain, bi_rectangle_zoned_nested, square_and_near_square) is translated to Gallina on each run, compared field by field with the real generators on exact inputs, and the proved-sound check is evaluated on the translated generators inside Coq",
         "the link 'every field produced by the generator loops is such a lattice' is established per input by evaluation in Coq, not by an unbounded theorem; floats compared with 1e-9 m", "5 C03"),
 "C04": ("Coq: iff-characterisation of what remove_cutout keeps for ANY classifier (sound + complete); over the whole polygonal_land_constraint model (grid from the regenerated bi_rectangle_nested, both cut-outs, stable re-ordering) every borehole of every candidate field is placed, no placeable grid borehole is dropped, every list is sorted by count; exact equality of the model with the real function on random rational polygons; the same oracle on the design object built through the manager",
         "classifier correctness is C16; focal_lt (exact tolerance test) validated by correspondence, not proved equivalent to the float test", "5 C04"),
 "C16": ("Coq: per-edge theorem (flip iff crossing strictly right, on-edge iff abscissa equal), loop = crossing-number parity for every vertex list, start-vertex and orientation independence; ~400k exact classifications compared with the real function per run",
         "the on-edge band is modelled exactly only on inputs whose focal excess is 0 or >= 0.059; Jordan curve theorem not attempted (the property names the crossing number as reference)", "5 C16"),
})
CHECKS.update({
 "C09": ("Coq: model of _simulate_detailed equals the documented superposition formula for every load sequence / kernel / step; zero-load, linearity, ground-temperature shift, and rejection-raises (Abel summation, explicit side conditions) theorems; per-step correspondence with real GHE objects using the kernel sampled from the real interpolant",
         "the kernel g is abstract (C10/C11); unit handling (kW->W, hours, per borehole) is observed by evaluating the formula from the raw hybrid/hourly loads; the hourly load sequence (year repeated end to end, cut at the horizon) is proved on the expressions regenerated from GHE.simulate", "5 C09"),
 "C20": ("Coq: equivalence of borehole and system flow specifications, formula and 1/N theorems on retrieve_flow and the two BaseGHE flow lines REGENERATED from the source (and the translator's obligation that both copies of retrieve_flow are identical); correspondence on 1..400 boreholes; paired real simulations",
         "resistance and temperatures follow by congruence through external code; observed on paired simulations", "5 C20"),
})
CHECKS.update({
 "C18": ("Coq: decision table of the command-line entry point (exit 0 only if outputs written / valid --validate-only / conversion done; invalid, unsupported option, missing output directory, failed design all non-zero), validation accepts iff all sections valid, upper-casing makes the verdict case-insensitive (for all strings); the real entry point is run as a subprocess on every single-field corruption x flag combination and compared with the model",
         "jsonschema verdicts and the click framework are inputs of the model, not modelled", "5 C18"),
})
CHECKS.update({
 "C12": ("Coq: GHE object as a state machine — after ANY operation history ending in a sizing or a simulation the stored temperatures belong to the current height (induction-free fold lemma), sizing returns the requested height, summary counts, log-row formula on the regenerated BaseGHE.cost; the old step function is kept and refuted; random operation sequences on real GHE objects compared with the machine and with fresh objects; summaries of real runs re-simulated",
         "summary text/JSON writers observed on real runs only", "5 C12"),
 "C13": ("Coq: a simulation's stored result depends only on (height, method) for every pair of histories; manager configuration depends on the last setters only, find_design is transparent, the nominal borehole height is not a physical input; histories on real GHE objects and seven metamorphic manager histories compared bit for bit (files included)",
         "the design result function itself is not computed in Coq; 'same object' = same construction height; the manager model includes the design object (find_design works with the inputs of the last set_design), tied by reuse scenarios on real managers and by the regenerated call-site argument lists", "5 C13"),
})
CHECKS.update({
 "C10": ("Coq: for every mesh size and coefficient set and ANY solution of the implicit step — heat conservation (telescoping induction), discrete minimum principle, monotonicity, and by induction over time steps a non-decreasing response that never falls below the initial state; geometric theorems (tiling, fluid thermal mass, layer resistances); the system handed to LAPACK is re-assembled in Coq and the returned vector checked as a certificate",
         "conductances (logarithms) are data; the 0.5 % fine-mesh clause is computed with an independent solver only", "5 C10"),
 "C11": ("Coq: joined axis strictly increasing / composition theorem on the reference description, radius-correction identity and additivity on the function REGENERATED from gfunction.py (ln abstract), h_eq identity; the decision prefix of g_function_interpolation (height snapping, extrapolation flag, kind tables) REGENERATED and proved: the kind handed to scipy never needs more curves than are stored, a stored height is interpolated and never extrapolated — compared with the real method through spies on interp1d/lagrange; combine_sts_lts is translated on every run and compared with the real method; stored-height interpolation, real GHE g-functions, FLS anchor by computation",
         "two laws of ln are premises; interp1d knot reproduction and the FLS/MIFT tolerances are computed only", "5 C11"),
 "C17": ("Coq: over the complete finite domain of 192 configuration shapes, the keys the tool writes (regenerated from to_input()/write_input_file) satisfy required/additionalProperties of its own schemas (regenerated from schemas/*.json) and are exactly what the CLI loader reads (regenerated); real write -> validate -> load -> write round trips compared byte for byte",
         "value-level validity (types, ranges, enums) and byte idempotence of deg<->rad are observed, not proved", "5 C17"),
})
CHECKS.update({
 "C15": ("Coq: on the expressions REGENERATED from equivalent_single_u_tube — fluid and pipe-wall volumes preserved, pipe resistance reproduced (sqrt only through (sqrt y)^2 = y, ln abstract), and the exact conditions under which each conductivity root solve matches or clamps; real to_single() sweeps",
         "the 0.1 % borehole-resistance clause is decided by computation; it FAILS on the unchanged tree for every multi-pipe geometry (listed known finding, keyed by call site)", "5 C15"),
})
CHECKS.update({
 "C14": ("Coq (partial): the exact-arithmetic core of RowWise — row spacing >= target, thin lots have zero rows (the divisor the code then divides by), distribute's count/ends/spacing, the (floor(W/s)+1)x(floor(H/s)+1) rectangle lattice, the sweep returns the FIRST maximum, convex combinations of inside points are inside; correspondence of the rectangle lattice and the sweep argmax against the real generator",
         "partial: termination, trigonometry, duplicate removal, no-go and perimeter handling are float/heuristic code that the model does not carry; they are observed on the real generator under a time limit on random convex lots (axes-touching, [-90,90] windows, no-go zones, perimeter ratios)", "5 C14"),
})
NA = {}
def main():
    checks = []
    for pid in sorted(CHECKS):
        text, note, ref = CHECKS[pid]
        checks.append({"property_id": pid, "quick_cmd": f"./vcheck {pid} quick", "thorough_cmd": f"./vcheck {pid} thorough",
                       "evidence_file": f"/verif/evidence/{pid}.json", "replay_cmd_template": "./vcheck replay {path}",
                       "engine": "coq-model+correspondence",
                       "level_claimed": {"category": "proof", "text": text, "design_ref": "DESIGN.md section " + ref},
                       "level_note": note,
                       "technique": "machine-checked proof in Coq 8.16 about an executable model, tied to the source by a regenerating translator (tools/srcgen.py) and a model-vs-implementation correspondence run"})
    props = [json.loads(l)["id"] for l in open(os.path.join(HERE, "properties.jsonl"))]
    na = [{"property_id": p, "reason": NA.get(p, "check not built yet in this round (no technique switch; see DESIGN.md section 9)")}
          for p in props if p not in CHECKS]
    m = {"version": 1, "setup_cmd": "./tools/setup.sh",
         "hooks": {"guard": "GHEDESIGNER_VERIF", "enable": "no hooks are needed: the harness stubs and spies by attribute replacement at run time",
                   "baseline_off_cmd": "cd /repo && /venv/bin/python -m pytest -ra -q -p no:cacheprovider --timeout=900 --continue-on-collection-errors",
                   "source_commits": [], "add_only": True},
         "engines": [{"name": "coq-model+correspondence", "path": "/verif/vcheck", "serves_properties": sorted(CHECKS),
                      "kind_free_text": "Coq 8.16.1 development under coq/ (models, proofs, property theorems), gen/Src.v regenerated from /repo by tools/srcgen.py on every run, correspondence by Eval vm_compute on case files generated from the real code's outputs"}],
         "checks": checks, "not_applicable": na,
         "notes": "every check: regenerate gen/Src.v from /repo -> make the property's closure -> Print Assumptions -> correspondence -> oracle on the implementation -> evidence"}
    with open(os.path.join(HERE, "MANIFEST.json"), "w") as f:
        json.dump(m, f, indent=1)
main()
